//! C13 — updates and signed-only transfers require a valid, timely TSIG.
//!
//! E-FAULT. Honest requests (3 UPDATEs that change the zone, 1 AXFR) are signed by the real
//! client-side signer (`Message::finalize`); every mutant of their bytes (every single-bit flip,
//! byte substitutions, every truncation, extensions, section-count edits, structural TSIG edits
//! re-encoded with the original MAC, MACs recomputed the wrong way) x server clock x configured
//! key set x AXFR policy is sent through the real `Catalog` to a real `SqliteZoneHandler`.
//!
//! Oracle ("only if"): the request may take effect (zone changed / AXFR answer records) ONLY IF
//! the independent reference verifier `vref::tsig` (RFC 8945 4.3.3 digest rebuilt from the raw
//! mutated bytes, HMAC via ring, |now - time signed| <= fudge in exact arithmetic) accepts those
//! bytes under the configured keys. Accepted requests: the reply carries a TSIG that the
//! reference verifies and the client-side `TSigVerifier` accepts; every mutated reply is rejected
//! by a fresh `TSigVerifier` unless the reference accepts it too. No panic on either side.

mod clientpath;
mod second;
mod shapes;

use std::collections::HashMap;

use hickory_net::xfer::Protocol;
use hickory_proto::op::Message;
use hickory_proto::rr::rdata::tsig::TsigAlgorithm;
use hickory_proto::rr::{RecordType, TSigner};
use hickory_server::zone_handler::AxfrPolicy;
use serde_json::{json, Value};
use vcore::{catch, hex, Ctx, Local};
use vref::tsig::{self as rt, Alg, Key};
use vref::update as ru;
use vref::wire;
use vupd::{a, empty, ns, soa, txt, Env, EnvOpts, Msg, RecordMap, Snap};

// ------------------------------------------------------------------------------------------
// variant dimensions of an exchange (set per case; read by the builders below)

#[derive(Clone, Copy, Debug, Default, PartialEq, Eq, Hash)]
struct Var {
    /// the shared key is named like the zone (`z.`): the TSIG owner name can be (and is, by
    /// hickory's encoder) compressed against the question name
    key_named_like_zone: bool,
    /// the request arrives over UDP (replies are cut to 512 bytes)
    udp: bool,
    /// the zone holds 10 more TXT RRs of 200 bytes (an AXFR reply over UDP is truncated)
    big_zone: bool,
    // ---- knobs of the handler (audit round): everything `SqliteZoneHandler::new`,
    // `InMemoryZoneHandler::empty`, `set_tsig_signers` / `TSigner::new` take
    /// AXFR policy of the in-memory handler INSIDE the sqlite handler: 0 = AllowAll (what
    /// `try_from_config` builds), 1 = Deny, 2 = AllowSigned
    inner_axfr: u8,
    /// `allow_update = false`
    updates_off: bool,
    /// zone type Secondary instead of Primary
    secondary: bool,
    /// a journal is attached (in-memory SQLite) and the zone persisted into it
    journal: bool,
    /// fudge the SERVER's signers are configured with: 0 = 300, 1 = 0, 2 = 65535
    server_fudge: u8,
    /// length of the shared secret k1: 0 = 32 octets, 1 = 1, 2 = 64 (the SHA-256 block size),
    /// 3 = 65, 4 = 200 (longer than every block size: HMAC hashes the key first)
    key_len: u8,
}

impl Var {
    const DEFAULT: Var = Var { key_named_like_zone: false, udp: false, big_zone: false, inner_axfr: 0, updates_off: false, secondary: false, journal: false, server_fudge: 0, key_len: 0 };
    fn label(&self) -> String {
        let mut v = vec![if self.key_named_like_zone { "key=z." } else { "key=k1." }.to_string(), if self.udp { "udp" } else { "tcp" }.to_string()];
        if self.big_zone {
            v.push("big-zone".into());
        }
        if self.inner_axfr != 0 {
            v.push(format!("inner-axfr={}", ["AllowAll", "Deny", "AllowSigned"][self.inner_axfr as usize]));
        }
        if self.updates_off {
            v.push("allow_update=false".into());
        }
        if self.secondary {
            v.push("zone-type=Secondary".into());
        }
        if self.journal {
            v.push("journal".into());
        }
        if self.server_fudge != 0 {
            v.push(format!("server-fudge={}", server_fudge_of(*self)));
        }
        if self.key_len != 0 {
            v.push(format!("key-length={}", key1_of(*self).len()));
        }
        v.join("/")
    }
    fn to_json(&self) -> Value {
        json!({"key_named_like_zone": self.key_named_like_zone, "over_udp": self.udp, "big_zone": self.big_zone, "inner_axfr": self.inner_axfr, "updates_off": self.updates_off,
               "secondary": self.secondary, "journal": self.journal, "server_fudge": self.server_fudge, "key_len": self.key_len})
    }
    fn from_json(v: &Value) -> Var {
        let b = |k: &str| v[k].as_bool().unwrap_or(false);
        let n = |k: &str| v[k].as_u64().unwrap_or(0) as u8;
        Var { key_named_like_zone: b("key_named_like_zone"), udp: b("over_udp"), big_zone: b("big_zone"), inner_axfr: n("inner_axfr"), updates_off: b("updates_off"), secondary: b("secondary"), journal: b("journal"), server_fudge: n("server_fudge"), key_len: n("key_len") }
    }
}

fn server_fudge_of(v: Var) -> u16 {
    [300u16, 0, 65535][v.server_fudge as usize]
}

fn key1_of(v: Var) -> Vec<u8> {
    match v.key_len {
        0 => vupd::KEY1.to_vec(),
        1 => b"k".to_vec(),
        2 => vec![0x5a; 64],
        3 => vec![0x5a; 65],
        _ => (0..200u8).collect(),
    }
}

/// The shared secret of k1 under the current variant.
fn key1() -> Vec<u8> {
    key1_of(var())
}

thread_local! {
    static VAR: std::cell::Cell<Var> = const { std::cell::Cell::new(Var::DEFAULT) };
}

fn var() -> Var {
    VAR.with(|v| v.get())
}

fn set_var(v: Var) {
    VAR.with(|c| c.set(v));
}

/// Name of the key the honest client signs with.
fn k1_name() -> &'static str {
    if var().key_named_like_zone {
        "z."
    } else {
        "k1."
    }
}

// ------------------------------------------------------------------------------------------
// honest requests

#[derive(Clone, Copy, Debug, PartialEq, Eq, Hash)]
enum Kind {
    UpdAdd,
    UpdDelName,
    UpdPrereq,
    Axfr,
    /// a signed NOTIFY and a signed ordinary SOA query: the statement says nothing about them, they
    /// are run for panics and "the zone does not change" only
    Notify,
    QuerySoa,
}

impl Kind {
    fn name(self) -> &'static str {
        match self {
            Kind::UpdAdd => "update:add-A",
            Kind::UpdDelName => "update:delete-name",
            Kind::UpdPrereq => "update:2-prerequisites+add",
            Kind::Axfr => "axfr",
            Kind::Notify => "notify",
            Kind::QuerySoa => "query:SOA",
        }
    }
    fn from_name(s: &str) -> Kind {
        match s {
            "update:add-A" => Kind::UpdAdd,
            "update:delete-name" => Kind::UpdDelName,
            "update:2-prerequisites+add" => Kind::UpdPrereq,
            "notify" => Kind::Notify,
            "query:SOA" => Kind::QuerySoa,
            _ => Kind::Axfr,
        }
    }
    fn is_update(self) -> bool {
        matches!(self, Kind::UpdAdd | Kind::UpdDelName | Kind::UpdPrereq)
    }
    fn judged(self) -> bool {
        !matches!(self, Kind::Notify | Kind::QuerySoa)
    }
}

fn alg_h(a: Alg) -> TsigAlgorithm {
    match a {
        Alg::Sha256 => TsigAlgorithm::HmacSha256,
        Alg::Sha384 => TsigAlgorithm::HmacSha384,
        Alg::Sha512 => TsigAlgorithm::HmacSha512,
    }
}

fn alg_name(a: Alg) -> &'static str {
    match a {
        Alg::Sha256 => "sha256",
        Alg::Sha384 => "sha384",
        Alg::Sha512 => "sha512",
    }
}

fn alg_from(s: &str) -> Alg {
    match s {
        "sha384" => Alg::Sha384,
        "sha512" => Alg::Sha512,
        _ => Alg::Sha256,
    }
}

fn base_zone() -> Vec<vupd::Rr> {
    vec![soa("z.", 60, 5, 1), ns("z.", 60, "n1.o."), a("a.z.", 60, 1)]
}

/// The UPDATE of an update kind in the reference vocabulary.
fn kind_msg(kind: Kind) -> Option<Msg> {
    match kind {
        Kind::UpdAdd => Some(Msg { prereqs: vec![], updates: vec![a("b.z.", 60, 1)] }),
        Kind::UpdDelName => Some(Msg { prereqs: vec![], updates: vec![empty("a.z.", ru::T_ANY, ru::CLASS_ANY, 0)] }),
        Kind::UpdPrereq => Some(Msg { prereqs: vec![empty("a.z.", ru::T_A, ru::CLASS_ANY, 0), empty("b.z.", ru::T_ANY, ru::CLASS_NONE, 0)], updates: vec![txt("b.z.", 60, "t")] }),
        _ => None,
    }
}

fn unsigned_message(kind: Kind) -> Message {
    match kind {
        Kind::UpdAdd | Kind::UpdDelName | Kind::UpdPrereq => vupd::update_message(0x1234, &kind_msg(kind).unwrap()),
        Kind::Axfr => vupd::query_message(0x1234, "z.", RecordType::AXFR),
        Kind::QuerySoa => vupd::query_message(0x1234, "z.", RecordType::SOA),
        Kind::Notify => {
            let mut m = vupd::query_message(0x1234, "z.", RecordType::SOA);
            m.metadata.op_code = hickory_proto::op::OpCode::Notify;
            m
        }
    }
}

/// The honest request: signed by the real client-side signer with key k1.
fn honest(kind: Kind, alg: Alg, fudge: u16, time: u64) -> Vec<u8> {
    let signer = vupd::signer(k1_name(), &key1(), alg_h(alg), fudge);
    let mut m = unsigned_message(kind);
    m.finalize(&signer, time).expect("client-side signing");
    m.to_vec().expect("encode")
}

fn client_verifier(kind: Kind, alg: Alg, fudge: u16, time: u64) -> hickory_proto::rr::TSigVerifier {
    let signer = vupd::signer(k1_name(), &key1(), alg_h(alg), fudge);
    let m = unsigned_message(kind);
    signer.sign_message(&m, time).expect("sign").1.expect("verifier")
}

// ------------------------------------------------------------------------------------------
// key sets (what the server is configured with)

const KEYSETS: [&str; 8] = [
    "{k1}",
    "{k1,k2}",
    "{k2}",
    "{}",
    "{k1:other-alg}",
    "{K1 (configured in upper case)}",
    "{k1:other-alg+other-secret, k1}",
    "{k1, k1:other-alg+other-secret}",
];

fn other_alg(a: Alg) -> Alg {
    if a == Alg::Sha512 {
        Alg::Sha256
    } else {
        Alg::Sha512
    }
}

fn ref_keys(ks: usize, alg: Alg) -> Vec<Key> {
    let k1 = Key::new(k1_name(), alg, &key1());
    let k2 = Key::new("k2.", Alg::Sha256, vupd::KEY2);
    // the same NAME configured a second time with another algorithm and another secret
    let k1b = Key::new(k1_name(), other_alg(alg), vupd::KEY2);
    match ks {
        0 | 5 => vec![k1],
        1 => vec![k1, k2],
        2 => vec![k2],
        3 => vec![],
        4 => vec![Key::new(k1_name(), other_alg(alg), &key1())],
        6 => vec![k1b, k1],
        _ => vec![k1, k1b],
    }
}

fn server_signers(ks: usize, alg: Alg) -> Vec<TSigner> {
    ref_keys(ks, alg)
        .iter()
        .map(|k| {
            let mut name = format!("{}.", String::from_utf8_lossy(&k.name[0]));
            if ks == 5 {
                name = name.to_uppercase();
            }
            vupd::signer(&name, &k.secret, alg_h(k.alg), server_fudge_of(var()))
        })
        .collect()
}

// ------------------------------------------------------------------------------------------
// mutants

#[derive(Clone, Debug)]
struct Mutant {
    class: String,
    bytes: Vec<u8>,
}

/// Byte regions of a signed message (for stable, coarse mutation classes).
struct Regions {
    /// (start, end, name), ascending
    spans: Vec<(usize, usize, &'static str)>,
}

impl Regions {
    fn of(msg: &[u8]) -> Regions {
        let s = rt::split(msg).expect("honest message splits");
        let w = &s.walk;
        let mut spans = vec![(0, 2, "header.id"), (2, 4, "header.flags"), (4, 6, "header.qdcount"), (6, 8, "header.ancount"), (8, 10, "header.nscount"), (10, 12, "header.arcount")];
        for q in &w.questions {
            spans.push((q.start, q.end, "question"));
        }
        for r in w.answers.iter().chain(w.authorities.iter()) {
            spans.push((r.start, r.end, "body-record"));
        }
        for r in &w.additionals[..w.additionals.len() - 1] {
            spans.push((r.start, r.end, "additional-record"));
        }
        let t = w.additionals.last().unwrap();
        let fixed = t.rdata_start - 10;
        spans.push((t.start, fixed, "tsig.name"));
        spans.push((fixed, fixed + 2, "tsig.type"));
        spans.push((fixed + 2, fixed + 4, "tsig.class"));
        spans.push((fixed + 4, fixed + 8, "tsig.ttl"));
        spans.push((fixed + 8, fixed + 10, "tsig.rdlength"));
        let (_, p) = wire::read_name(msg, t.rdata_start).unwrap();
        spans.push((t.rdata_start, p, "tsig.algorithm"));
        spans.push((p, p + 6, "tsig.time"));
        spans.push((p + 6, p + 8, "tsig.fudge"));
        spans.push((p + 8, p + 10, "tsig.mac-size"));
        let ml = s.tsig.mac.len();
        spans.push((p + 10, p + 10 + ml, "tsig.mac"));
        spans.push((p + 10 + ml, p + 12 + ml, "tsig.original-id"));
        spans.push((p + 12 + ml, p + 14 + ml, "tsig.error"));
        spans.push((p + 14 + ml, p + 16 + ml, "tsig.other-len"));
        spans.push((p + 16 + ml, t.end, "tsig.other-data"));
        Regions { spans }
    }
    fn at(&self, off: usize) -> &'static str {
        self.spans.iter().find(|(s, e, _)| *s <= off && off < *e).map(|x| x.2).unwrap_or("end")
    }
}

fn flag_bit_name(byte: usize, bit: u8) -> &'static str {
    match (byte, bit) {
        (2, 7) => "qr",
        (2, 3..=6) => "opcode",
        (2, 2) => "aa",
        (2, 1) => "tc",
        (2, 0) => "rd",
        (3, 7) => "ra",
        (3, 6) => "z",
        (3, 5) => "ad",
        (3, 4) => "cd",
        _ => "rcode",
    }
}

fn byte_mutants(h: &[u8], out: &mut Vec<Mutant>) {
    let reg = Regions::of(h);
    for i in 0..h.len() {
        for bit in 0..8u8 {
            let mut b = h.to_vec();
            b[i] ^= 1 << bit;
            let r = reg.at(i);
            let class = if r == "header.flags" { format!("bit-flip@header.flags.{}", flag_bit_name(i, bit)) } else { format!("bit-flip@{r}") };
            out.push(Mutant { class, bytes: b });
        }
        for v in [0x00u8, 0x01, 0x7f, 0x80, 0xff] {
            if h[i] != v {
                let mut b = h.to_vec();
                b[i] = v;
                out.push(Mutant { class: format!("byte-sub@{}", reg.at(i)), bytes: b });
            }
        }
    }
    for n in 0..h.len() {
        out.push(Mutant { class: format!("truncate@{}", reg.at(n)), bytes: h[..n].to_vec() });
    }
    for ext in [vec![0u8], vec![0xff], vec![0u8; 11]] {
        let mut b = h.to_vec();
        b.extend_from_slice(&ext);
        out.push(Mutant { class: "extend:bytes-after-tsig".into(), bytes: b });
    }
    for (ci, name) in ["qdcount", "ancount", "nscount", "arcount"].iter().enumerate() {
        let p = 4 + 2 * ci;
        let cur = u16::from_be_bytes([h[p], h[p + 1]]);
        for v in [cur.wrapping_sub(1), cur.wrapping_add(1), 0, 65535] {
            if v != cur {
                let mut b = h.to_vec();
                b[p..p + 2].copy_from_slice(&v.to_be_bytes());
                out.push(Mutant { class: format!("count-edit@{name}"), bytes: b });
            }
        }
    }
}

fn a_record_wire(name: &str) -> Vec<u8> {
    vupd::rr_wire(&a(name, 60, 9))
}

/// Structural TSIG edits (re-encoded with the ORIGINAL MAC) and MACs recomputed the wrong way.
fn structural_mutants(h: &[u8], alg: Alg, fudge: u16, time: u64, out: &mut Vec<Mutant>) {
    let s = rt::split(h).expect("honest splits");
    let unsigned = rt::strip(h, &s);
    let t0 = s.tsig.clone();
    let mut edit = |class: &str, f: &dyn Fn(&mut rt::TsigRr)| {
        let mut t = t0.clone();
        f(&mut t);
        out.push(Mutant { class: format!("tsig-edit:{class}"), bytes: rt::attach(&unsigned, &t) });
    };
    edit("key-name=k2(configured-elsewhere)", &|t| t.name = rt::labels_of("k2."));
    edit("key-name=unknown", &|t| t.name = rt::labels_of("kx."));
    edit("key-name=case-variant", &|t| t.name = t.name.iter().map(|l| l.to_ascii_uppercase()).collect());
    edit("algorithm=hmac-sha1", &|t| t.alg_name = rt::labels_of("hmac-sha1."));
    edit("algorithm=other-supported", &|t| t.alg_name = other_alg(alg).labels());
    edit("algorithm=unknown", &|t| t.alg_name = rt::labels_of("hmac-foo."));
    edit("algorithm=case-variant", &|t| t.alg_name = t.alg_name.iter().map(|l| l.to_ascii_uppercase()).collect());
    for d in [1u64, fudge as u64, fudge as u64 + 1] {
        if d == 0 {
            continue;
        }
        edit("time-shifted", &|t| t.time = t.time.wrapping_add(d) & 0xffff_ffff_ffff);
        edit("time-shifted", &|t| t.time = t.time.wrapping_sub(d) & 0xffff_ffff_ffff);
    }
    edit("fudge=0", &|t| t.fudge = 0);
    edit("fudge=65535", &|t| t.fudge = 65535);
    let full = t0.mac.len();
    for n in 0..=full + 2 {
        if n == full {
            continue;
        }
        let class = if n < full { "mac-truncated" } else { "mac-extended" };
        edit(class, &|t| {
            t.mac.resize(n, 0);
        });
    }
    edit("original-id+1", &|t| t.orig_id = t.orig_id.wrapping_add(1));
    edit("original-id-1", &|t| t.orig_id = t.orig_id.wrapping_sub(1));
    for e in [16u16, 17, 18] {
        edit("error-set", &|t| t.error = e);
    }
    edit("other-data-added", &|t| t.other = vec![0, 0, 0x65, 0x53, 0xf1, 0x00]);
    edit("rr-ttl=1", &|t| t.ttl = 1);
    edit("rr-class=IN", &|t| t.class = 1);
    // the RFC 8945 names of the truncated-MAC variants, with a MAC cut to that length
    edit("algorithm=hmac-sha256-128+mac-cut-to-16", &|t| {
        t.alg_name = rt::labels_of("hmac-sha256-128.");
        t.mac.truncate(16);
    });
    edit("algorithm=hmac-sha384-192+mac-cut-to-24", &|t| {
        t.alg_name = rt::labels_of("hmac-sha384-192.");
        t.mac.truncate(24);
    });
    edit("algorithm=hmac-sha512-256+mac-cut-to-32", &|t| {
        t.alg_name = rt::labels_of("hmac-sha512-256.");
        t.mac.truncate(32);
    });
    // placement
    {
        // a record after the TSIG
        let mut b = h.to_vec();
        b.extend_from_slice(&a_record_wire("c.z."));
        let ar = u16::from_be_bytes([b[10], b[11]]) + 1;
        b[10..12].copy_from_slice(&ar.to_be_bytes());
        out.push(Mutant { class: "tsig-placement:record-after-tsig".into(), bytes: b });
        // a second TSIG
        let mut b = h.to_vec();
        b.extend_from_slice(&t0.encode());
        let ar = u16::from_be_bytes([b[10], b[11]]) + 1;
        b[10..12].copy_from_slice(&ar.to_be_bytes());
        out.push(Mutant { class: "tsig-placement:second-tsig".into(), bytes: b });
        // the TSIG counted as the last answer/prerequisite record instead of an additional one
        let mut b = h.to_vec();
        let ar = u16::from_be_bytes([b[10], b[11]]);
        let ns_ = u16::from_be_bytes([b[8], b[9]]);
        if ar == 1 {
            b[10..12].copy_from_slice(&0u16.to_be_bytes());
            b[8..10].copy_from_slice(&(ns_ + 1).to_be_bytes());
            out.push(Mutant { class: "tsig-placement:tsig-in-authority-section".into(), bytes: b });
        }
        // no TSIG at all
        out.push(Mutant { class: "unsigned:tsig-stripped".into(), bytes: unsigned.clone() });
    }
    // SIG(0) (RFC 2931) instead of / next to the TSIG: only a TSIG authorises (hickory dropped SIG(0))
    {
        let sig0 = sig0_record_wire();
        let bump = |b: &mut Vec<u8>| {
            let ar = u16::from_be_bytes([b[10], b[11]]).wrapping_add(1);
            b[10..12].copy_from_slice(&ar.to_be_bytes());
        };
        let mut b = unsigned.clone();
        b.extend_from_slice(&sig0);
        bump(&mut b);
        out.push(Mutant { class: "unsigned:tsig-replaced-by-sig0".into(), bytes: b });
        let mut b = h.to_vec();
        b.extend_from_slice(&sig0);
        bump(&mut b);
        out.push(Mutant { class: "tsig-placement:sig0-after-tsig".into(), bytes: b });
    }
    // MAC recomputed
    let k1n = rt::labels_of(k1_name());
    let k1 = Key::new(k1_name(), alg, &key1());
    let k2 = Key::new("k2.", Alg::Sha256, vupd::KEY2);
    // the TSIG owner name with its compression toggled (pointer to the question name <-> spelled out)
    if k1n == s.walk.questions.first().map(|q| wire::lower(&q.name)).unwrap_or_default() {
        let start = s.tsig_start;
        let compressed = h[start] & 0xc0 == 0xc0;
        let old_len = if compressed { 2 } else { wire::read_name(h, start).map(|(_, p)| p - start).unwrap_or(0) };
        let mut new_name = vec![];
        if compressed {
            wire::emit_name(&k1n, &mut new_name);
        } else {
            new_name.extend_from_slice(&[0xc0, 12]);
        }
        let mut b = h[..start].to_vec();
        b.extend_from_slice(&new_name);
        b.extend_from_slice(&h[start + old_len..]);
        out.push(Mutant { class: format!("tsig-owner-name-{}(valid)", if compressed { "spelled-out-instead-of-compressed" } else { "compressed-against-the-question" }), bytes: b });
    }
    out.push(Mutant { class: "resigned:by-k2-as-k2".into(), bytes: rt::sign(&unsigned, &k2, &rt::labels_of("k2."), time, fudge, None) });
    out.push(Mutant { class: "resigned:by-k2-claiming-k1".into(), bytes: rt::sign(&unsigned, &Key { name: k1n.clone(), ..k2.clone() }, &k1n, time, fudge, None) });
    out.push(Mutant { class: "resigned:by-k1-with-response-style-mac-chaining".into(), bytes: rt::sign(&unsigned, &k1, &k1n, time, fudge, Some(&t0.mac)) });
    out.push(Mutant { class: "resigned:by-k1-reference-signer(valid)".into(), bytes: rt::sign(&unsigned, &k1, &k1n, time, fudge, None) });
    out.push(Mutant { class: "resigned:by-k1-key-name-upper-case(valid)".into(), bytes: rt::sign(&unsigned, &k1, &k1n.iter().map(|l| l.to_ascii_uppercase()).collect(), time, fudge, None) });
    // the holder of k1 announces ANOTHER algorithm than the one k1 is configured with and computes
    // the MAC over exactly those variables with k1's own HMAC (full length, and cut / padded to the
    // announced algorithm's output length): the key is identified by name AND algorithm
    // (RFC 8945 5.2.1), so every one of these is BADKEY. (An edited algorithm name under the
    // ORIGINAL MAC, above, fails the MAC comparison anyway and cannot tell the two rules apart.)
    for a2 in [Alg::Sha256, Alg::Sha384, Alg::Sha512] {
        if a2 == alg {
            continue;
        }
        let mut shape = t0.clone();
        shape.alg_name = a2.labels();
        let full = rt::sign_shaped(&unsigned, &k1, &shape, None, false);
        out.push(Mutant { class: format!("resigned:by-k1-own-hmac-announcing-{}", a2.name()), bytes: full.clone() });
        if let Ok(sf) = rt::split(&full) {
            let mut t = sf.tsig.clone();
            t.mac.resize(a2.output_len(), 0);
            out.push(Mutant { class: format!("resigned:by-k1-own-hmac-announcing-{}+mac-resized-to-announced-length", a2.name()), bytes: rt::attach(&unsigned, &t) });
        }
        let mut shape_uc = shape.clone();
        shape_uc.alg_name = shape_uc.alg_name.iter().map(|l| l.to_ascii_uppercase()).collect();
        out.push(Mutant { class: format!("resigned:by-k1-own-hmac-announcing-{}-upper-case", a2.name()), bytes: rt::sign_shaped(&unsigned, &k1, &shape_uc, None, false) });
    }
    // other records in the additional section BEFORE the TSIG, covered by a recomputed MAC (valid)
    for (what, extra) in [("a-record", a_record_wire("n1.o.")), ("opt", vec![0, 0, 41, 0x04, 0xd0, 0, 0, 0, 0, 0, 0]), ("sig0", sig0_record_wire())] {
        let mut b = unsigned.clone();
        b.extend_from_slice(&extra);
        let ar = u16::from_be_bytes([b[10], b[11]]).wrapping_add(1);
        b[10..12].copy_from_slice(&ar.to_be_bytes());
        out.push(Mutant { class: format!("resigned:by-k1-with-{what}-before-the-tsig(valid)"), bytes: rt::sign(&b, &k1, &k1n, time, fudge, None) });
    }
}

/// A SIG(0) record (RFC 2931): owner root, TYPE SIG (24), CLASS ANY, TTL 0, type covered 0,
/// algorithm 13, signer k1., an arbitrary 64-octet signature.
fn sig0_record_wire() -> Vec<u8> {
    let mut rd = vec![];
    rd.extend_from_slice(&0u16.to_be_bytes()); // type covered
    rd.push(13); // algorithm
    rd.push(0); // labels
    rd.extend_from_slice(&0u32.to_be_bytes()); // original TTL
    rd.extend_from_slice(&((T0 + 300) as u32).to_be_bytes()); // expiration
    rd.extend_from_slice(&((T0 - 300) as u32).to_be_bytes()); // inception
    rd.extend_from_slice(&0x1234u16.to_be_bytes()); // key tag
    wire::emit_name(&rt::labels_of("k1."), &mut rd);
    rd.extend_from_slice(&[0x42; 64]);
    let mut v = vec![0u8];
    v.extend_from_slice(&24u16.to_be_bytes());
    v.extend_from_slice(&255u16.to_be_bytes());
    v.extend_from_slice(&0u32.to_be_bytes());
    v.extend_from_slice(&(rd.len() as u16).to_be_bytes());
    v.extend_from_slice(&rd);
    v
}

// ------------------------------------------------------------------------------------------
// execution

struct Worker {
    rt: tokio::runtime::Runtime,
    envs: HashMap<(usize, Alg, u8, Var), (Env, RecordMap, Snap)>,
    /// running digest of everything observed (determinism self-test)
    dig: u64,
}

fn policy_of(p: u8) -> AxfrPolicy {
    match p {
        0 => AxfrPolicy::Deny,
        1 => AxfrPolicy::AllowAll,
        _ => AxfrPolicy::AllowSigned,
    }
}

const POLICY_NAMES: [&str; 3] = ["Deny", "AllowAll", "AllowSigned"];

impl Worker {
    fn new() -> Worker {
        Worker { rt: vsim::rt(), envs: HashMap::new(), dig: 0 }
    }
    fn ensure_env(&mut self, ks: usize, alg: Alg, policy: u8) {
        if !self.envs.contains_key(&(ks, alg, policy, var())) {
            let mut zone = base_zone();
            if var().big_zone {
                for i in 0..10 {
                    zone.push(txt(&format!("r{i}.z."), 60, &"x".repeat(200)));
                }
            }
            let env = self.rt.block_on(Env::new(&zone, EnvOpts {
                signers: server_signers(ks, alg),
                axfr: policy_of(policy),
                allow_update: !var().updates_off,
                journal: var().journal,
                zone_type: if var().secondary { hickory_server::zone_handler::ZoneType::Secondary } else { hickory_server::zone_handler::ZoneType::Primary },
                inner_axfr: [AxfrPolicy::AllowAll, AxfrPolicy::Deny, AxfrPolicy::AllowSigned][var().inner_axfr as usize],
            }));
            let saved = self.rt.block_on(env.save());
            let snap = self.rt.block_on(env.snapshot());
            self.envs.insert((ks, alg, policy, var()), (env, saved, snap));
        }
    }
}

#[derive(Clone, Debug)]
struct Obs {
    panic: Option<(String, String)>,
    replies: Option<Vec<Vec<u8>>>,
    changed: bool,
}

fn run_request(w: &mut Worker, ks: usize, alg: Alg, policy: u8, now: u64, bytes: &[u8]) -> Obs {
    w.ensure_env(ks, alg, policy);
    vsim::set_unix(now);
    let (env, saved, base) = w.envs.get(&(ks, alg, policy, var())).unwrap();
    let rt = &w.rt;
    let proto = if var().udp { Protocol::Udp } else { Protocol::Tcp };
    let res = catch(|| rt.block_on(vsim::serve(&env.catalog, bytes, proto)));
    let post = rt.block_on(env.snapshot());
    let changed = post != *base;
    if changed {
        rt.block_on(env.restore(saved));
    }
    match res {
        Err(p) => Obs { panic: Some((p.msg, p.loc)), replies: None, changed },
        Ok(r) => Obs { panic: None, replies: r, changed },
    }
}

fn slug(s: &str) -> String {
    let mut out = String::new();
    for c in s.chars() {
        if c.is_ascii_alphanumeric() {
            out.push(c.to_ascii_lowercase());
        } else if !out.ends_with('-') {
            out.push('-');
        }
    }
    out.trim_matches('-').chars().take(60).collect()
}

fn panic_key(side: &str, msg: &str, loc: &str) -> String {
    let l = vcore::short_loc(loc);
    let file = l.rfind(':').map(|i| l[..i].to_string()).unwrap_or(l);
    if msg.contains("subtract with overflow") && file.ends_with("crates/proto/src/rr/tsig.rs") {
        // `tsig.time - tsig.fudge` in TSigner::verify_message_byte
        return "panic:tsig-time-minus-fudge-underflow".into();
    }
    format!("panic:{side}:{}@{}", slug(msg), file)
}

#[derive(Clone, Debug)]
struct Case {
    kind: Kind,
    alg: Alg,
    fudge: u16,
    time: u64,
    now: u64,
    ks: usize,
    policy: u8,
    class: String,
    bytes: Vec<u8>,
    var: Var,
}

impl Case {
    fn json(&self) -> Value {
        json!({
            "kind": self.kind.name(), "alg": alg_name(self.alg), "fudge": self.fudge, "time_signed": self.time, "server_now": self.now,
            "now_minus_time_signed": self.now as i128 - self.time as i128,
            "keyset": KEYSETS[self.ks], "keyset_index": self.ks, "axfr_policy": POLICY_NAMES[self.policy as usize], "policy_index": self.policy,
            "mutation": self.class, "request_hex": hex::enc(&self.bytes),
            "variant": self.var.to_json(), "variant_label": self.var.label(),
        })
    }
    fn from_json(v: &Value) -> Case {
        Case {
            kind: Kind::from_name(v["kind"].as_str().unwrap_or("")),
            alg: alg_from(v["alg"].as_str().unwrap_or("")),
            fudge: v["fudge"].as_u64().unwrap_or(300) as u16,
            time: v["time_signed"].as_u64().unwrap_or(0),
            now: v["server_now"].as_u64().unwrap_or(0),
            ks: v["keyset_index"].as_u64().unwrap_or(0) as usize,
            policy: v["policy_index"].as_u64().unwrap_or(2) as u8,
            class: v["mutation"].as_str().unwrap_or("").to_string(),
            bytes: hex::dec(v["request_hex"].as_str().unwrap_or("")).unwrap_or_default(),
            var: if v["variant"].is_object() { Var::from_json(&v["variant"]) } else { Var::from_json(v) },
        }
    }
}

fn is_plain(class: &str) -> bool {
    class == "identity"
}

/// The part of a mutation class that goes into a finding key: the byte region for byte-level
/// mutants (whatever the kind of edit), the edit itself for structural ones.
fn key_scene(class: &str) -> String {
    if let Some(i) = class.find('@') {
        return format!("bytes-changed@{}", &class[i + 1..]);
    }
    match class {
        "tsig-edit:rr-class=IN" => "bytes-changed@tsig.class".into(),
        "tsig-edit:rr-ttl=1" => "bytes-changed@tsig.ttl".into(),
        "extend:bytes-after-tsig" => "bytes-appended-after-tsig".into(),
        c => c.to_string(),
    }
}

/// Where the clock sits relative to the window (for keys and outcome classes).
fn time_scene(now: u64, time: u64, fudge: u16) -> &'static str {
    let d = now as i128 - time as i128;
    let f = fudge as i128;
    if d.abs() <= f {
        "inside-window"
    } else if d.abs() <= f + 2 {
        "just-outside-window"
    } else if d.abs() >= 1 << 15 {
        "far-outside-window(>=2^15)"
    } else {
        "outside-window"
    }
}

/// Execute one case and judge it. Returns the reply of an accepted exchange (for the reply side).
fn run_case(w: &mut Worker, c: &Case, l: &mut Local) -> Option<(Vec<u8>, Vec<u8>)> {
    set_var(c.var);
    l.eval();
    let keys = ref_keys(c.ks, c.alg);
    let verdict = rt::verify_request(&c.bytes, &keys, c.now);
    let obs = run_request(w, c.ks, c.alg, c.policy, c.now, &c.bytes);
    w.dig = vupd::digest(&(w.dig, obs.changed, &obs.replies, obs.panic.is_some()));
    let scene = format!("{}:{}", if c.kind.is_update() { "update" } else { "axfr" }, c.class);
    if let Some((msg, loc)) = &obs.panic {
        l.violation(&panic_key("server", msg, loc), &format!("the server panicked on a {} request ({}; now - time signed = {}, fudge {}): {msg} at {}", c.kind.name(), c.class, c.now as i128 - c.time as i128, c.fudge, vcore::short_loc(loc)), || c.json());
        return None;
    }
    // (A) reply-signing policy, for EVERY request of every family: the server computes a MAC over a
    // reply (whose digest starts with the request's MAC FIELD, attacker-chosen octets) only after
    // that request's MAC verified under a configured key. RFC 8945 5.3.2: BADKEY / BADSIG replies
    // are unsigned; BADTIME is signed, and is reached only after the MAC verified (5.2.3). So:
    // reply carries a MAC valid under key k  =>  the reference verifies the request's MAC under k
    // (its time may lie outside the window).
    {
        let kc = match c.kind {
            Kind::Axfr => "axfr",
            Kind::Notify => "notify",
            Kind::QuerySoa => "query",
            _ => "update",
        };
        let rsplit = rt::split(&c.bytes).ok();
        let req_mac = rsplit.as_ref().map(|s| s.tsig.mac.clone()).unwrap_or_default();
        let mac_ok_under = |k: &Key| matches!(rt::verify_request(&c.bytes, std::slice::from_ref(k), c.now), Ok(_) | Err(rt::Reject::BadTime));
        let any_ok = keys.iter().any(|k| mac_ok_under(k));
        let fresh = rsplit.as_ref().map(|s| (c.now as i128 - s.tsig.time as i128).abs() <= s.tsig.fudge as i128);
        let quadrant = format!("{}:{}", if rsplit.is_none() { "no-tsig" } else if any_ok { "mac-good" } else { "mac-bad" }, match fresh { None => "-", Some(true) => "fresh", Some(false) => "stale" });
        let mut signed_reply = false;
        for r in obs.replies.iter().flatten() {
            let Ok(rs) = rt::split(r) else { continue };
            if rs.tsig.mac.is_empty() {
                continue;
            }
            for k in &keys {
                // the digest of a reply starts with the request MAC as found on the wire; a MAC over
                // the reply with an empty or without any prefix is a signature all the same
                let ok = |x: Result<(), rt::Reject>| matches!(x, Ok(()) | Err(rt::Reject::BadTime));
                if ok(rt::verify_response(r, k, c.now, &req_mac)) || ok(rt::verify_response(r, k, c.now, &[])) || ok(rt::verify_request(r, std::slice::from_ref(k), c.now).map(|_| ())) {
                    signed_reply = true;
                    if !mac_ok_under(k) {
                        let err = match rs.tsig.error {
                            0 => "noerror".to_string(),
                            16 => "badsig".into(),
                            17 => "badkey".into(),
                            18 => "badtime".into(),
                            e => format!("error{e}"),
                        };
                        l.violation(
                            &format!("reply-signed-for-a-request-whose-mac-does-not-verify:{kc}:{err}-reply:{quadrant}"),
                            &format!("the reply carries a TSIG whose MAC is valid under the configured key {} (digest: request MAC field | reply | TSIG variables) although the request's own MAC does not verify under that key ({}): the server MACed attacker-chosen octets without authentication (RFC 8945 5.3.2: such a response is unsigned); {scene}", vupd::name_str(&k.name), match rt::verify_request(&c.bytes, std::slice::from_ref(k), c.now) { Err(e) => format!("{e:?}"), Ok(_) => "ok".into() }),
                            || {
                                let mut j = c.json();
                                j["reply_hex"] = json!(hex::enc(r));
                                j
                            },
                        );
                    }
                }
            }
        }
        l.outcome(&format!("signing:{kc}:{quadrant}:{}", if signed_reply { "reply-signed" } else { "reply-not-signed" }));
    }
    if !c.kind.judged() {
        // NOTIFY / ordinary query with a TSIG: outside the statement; only "no panic" (above) and
        // "the zone does not change"
        if obs.changed {
            l.violation("zone-changed-by-a-request-that-is-no-update", &format!("a {} request changed the zone ({})", c.kind.name(), c.class), || c.json());
        }
        l.outcome(&format!("obs:{}:{}", c.kind.name(), if verdict.is_ok() { "tsig-valid" } else { "tsig-invalid" }));
        if let Some(rs) = &obs.replies {
            for r in rs {
                if let Ok(h) = wire::read_header(r) {
                    l.outcome(&format!("obs:{}:answered-{}", c.kind.name(), ru::rcode_name(h.rcode_low())));
                }
            }
        }
        return None;
    }
    // what is the mutated request, as far as an independent reader can tell?
    let walk = wire::walk(&c.bytes).ok();
    let opcode = walk.as_ref().map(|w| w.header.opcode());
    let is_axfr = walk.as_ref().map(|w| w.header.opcode() == 0 && !w.header.qr() && w.questions.first().map(|q| q.qtype == 252).unwrap_or(false)).unwrap_or(false);
    let answers: usize = obs.replies.iter().flatten().map(|r| wire::read_header(r).map(|h| h.an as usize).unwrap_or(0)).sum();
    let parsed_tsig = rt::split(&c.bytes).is_ok();
    if parsed_tsig {
        l.nontrivial(vcore::fnv64(&c.bytes) ^ (c.ks as u64) << 56 ^ c.now.wrapping_mul(0x9e3779b97f4a7c15));
    }
    let accepted_by_ref = verdict.is_ok();
    l.outcome(match (&verdict, obs.changed || (is_axfr && answers > 0 && c.policy == 2)) {
        (Ok(_), true) => "reference-accepts:took-effect",
        (Ok(_), false) => "reference-accepts:no-effect(allowed)",
        (Err(_), false) => "reference-rejects:no-effect",
        (Err(_), true) => "reference-rejects:TOOK-EFFECT",
    });
    if let Err(r) = &verdict {
        l.outcome(&format!(
            "ref:{}",
            match r {
                rt::Reject::Malformed(_) => "malformed",
                rt::Reject::NoTrailingTsig => "no-trailing-tsig",
                rt::Reject::MisplacedTsig => "misplaced-tsig",
                rt::Reject::BadTsigRdata => "bad-tsig-rdata",
                rt::Reject::BadKey => "bad-key",
                rt::Reject::MacLength(_) => "mac-length",
                rt::Reject::BadSig => "bad-sig",
                rt::Reject::BadTime => "bad-time",
            }
        ));
    }
    let why = || format!("reference verifier: {:?}; keys configured {}; now - time signed = {}, fudge {}", verdict, KEYSETS[c.ks], c.now as i128 - c.time as i128, c.fudge);
    // E1: the zone changed
    if obs.changed && !accepted_by_ref {
        let key = if is_plain(&c.class) || c.class.ends_with("(valid)") {
            format!("update-took-effect-without-valid-tsig:{}:{}", c.class, time_scene(c.now, c.time, c.fudge))
        } else {
            format!("update-took-effect-without-valid-tsig:{}", key_scene(&c.class))
        };
        l.violation(&key, &format!("the zone changed although the request does not carry a valid, timely TSIG of a configured key ({scene}); {}", why()), || c.json());
    }
    // knobs: a zone that does not take updates at all
    if obs.changed && (c.var.updates_off || c.var.secondary) {
        let which = if c.var.updates_off { "updates-are-disabled(allow_update=false)" } else { "the-zone-is-secondary" };
        l.violation(&format!("update-took-effect-although-{which}"), &format!("the zone changed although {which} ({scene}); {}", why()), || c.json());
    }
    // E2: zone data in the reply
    if answers > 0 {
        if is_axfr {
            match c.policy {
                0 => l.violation("axfr-data-under-deny-policy", &format!("{answers} answer records returned for an AXFR although the policy is Deny ({scene})"), || c.json()),
                2 if !accepted_by_ref => {
                    let key = if is_plain(&c.class) || c.class.ends_with("(valid)") {
                        format!("axfr-data-without-valid-tsig:{}:{}", c.class, time_scene(c.now, c.time, c.fudge))
                    } else {
                        format!("axfr-data-without-valid-tsig:{}", key_scene(&c.class))
                    };
                    l.violation(&key, &format!("{answers} zone records returned under the signed-only policy although the request does not carry a valid, timely TSIG of a configured key ({scene}); {}", why()), || c.json());
                }
                _ => {}
            }
        } else if opcode == Some(0) {
            // the mutation turned the request into an ordinary query: public data, not judged
            l.outcome("obs:mutant-is-an-ordinary-query-and-was-answered");
        } else {
            l.violation("zone-data-in-reply-to-a-non-query", &format!("{answers} answer records in the reply to a request with opcode {opcode:?} ({scene})"), || c.json());
        }
    }
    if let Some(rs) = &obs.replies {
        for r in rs {
            if let Ok(h) = wire::read_header(r) {
                l.outcome(&format!("rcode:{}", ru::rcode_name(h.rcode_low())));
            }
        }
    } else {
        l.outcome("request-bytes-not-a-request");
    }
    // E4: an accepted exchange is answered with a verifiable signature
    let took_effect = obs.changed || (is_axfr && c.policy == 2 && answers > 0);
    if took_effect && accepted_by_ref && c.now < (1u64 << 48) - 400 {
        let rs = obs.replies.clone().unwrap_or_default();
        let Some(reply) = rs.first().cloned() else {
            l.violation("accepted-request-not-answered", "the request took effect but no reply was sent", || c.json());
            return None;
        };
        let req_mac = rt::split(&c.bytes).map(|s| s.tsig.mac).unwrap_or_default();
        let key = &keys[verdict.clone().unwrap()];
        let truncated = wire::read_header(&reply).map(|h| h.tc()).unwrap_or(false);
        // a request with an OPT raises the UDP limit: the truncated reply then has room for the OPT
        // but not for the TSIG (keyed apart from truncation at 512 octets)
        let edns_request = wire::walk(&c.bytes).map(|w| w.additionals.iter().any(|r| r.rtype == 41)).unwrap_or(false);
        let tscene = if truncated && edns_request { ":truncated-reply:edns-request" } else if truncated { ":truncated-reply" } else { "" };
        if truncated {
            l.outcome("accepted:reply-truncated");
        }
        match rt::verify_response(&reply, key, c.now, &req_mac) {
            Ok(()) => l.outcome("accepted:reply-verifies-with-reference"),
            Err(e) => l.violation(
                &format!("accepted-reply-not-verifiable:{}{tscene}", slug(&format!("{e:?}")).split('-').take(2).collect::<Vec<_>>().join("-")),
                &format!("the reply to an accepted request does not verify with the reference verifier: {e:?} ({scene})"),
                || {
                    let mut j = c.json();
                    j["reply_hex"] = json!(hex::enc(&reply));
                    j
                },
            ),
        }
        // the honest client's verifier (it knows the honest request's MAC and time)
        let honest_mac = rt::split(&honest(c.kind, c.alg, c.fudge, c.time)).map(|s| s.tsig.mac).unwrap_or_default();
        if honest_mac == req_mac && key.name == rt::labels_of(k1_name()) && (c.now as i128 - c.time as i128).abs() > server_fudge_of(c.var) as i128 {
            // the server signs its reply with its own configured fudge: a client whose clock
            // is further away cannot accept it whatever the server does (not judged)
            l.outcome("obs:accepted-with-client-clock-beyond-the-server-fudge");
        } else if honest_mac == req_mac && key.name == rt::labels_of(k1_name()) {
            let mut v = client_verifier(c.kind, c.alg, c.fudge, c.time);
            match catch(|| v.verify(&reply)) {
                Err(p) => l.violation(&panic_key("client", &p.msg, &p.loc), &format!("the client-side verifier panicked on the server's reply: {}", p.msg), || c.json()),
                Ok(Ok(_)) => l.outcome("accepted:reply-verifies-with-client-verifier"),
                Ok(Err(e)) => l.violation(&format!("accepted-reply-rejected-by-client-verifier:{}", if truncated { "truncated-reply" } else if c.time as i128 == c.now as i128 + server_fudge_of(c.var) as i128 { "server-clock=time-signed-minus-fudge" } else { "elsewhere-in-window" }), &format!("the client-side TSigVerifier rejects the server's reply to an accepted request: {e} ({scene}; now - time signed = {})", c.now as i128 - c.time as i128), || {
                    let mut j = c.json();
                    j["reply_hex"] = json!(hex::enc(&reply));
                    j
                }),
            }
            return Some((reply, req_mac));
        }
    }
    None
}

/// One way of tampering with a reply (positions refer to the honest reply, whose length does not
/// depend on the message id).
#[derive(Clone, Debug)]
enum Recipe {
    Identity,
    Flip(usize, u8),
    Sub(usize, u8),
    Trunc(usize),
    Extend,
    /// section count `ci` (0 = qd .. 3 = ar) set to variant 0: -1, 1: +1, 2: 0, 3: 65535
    Count(usize, u8),
    /// the TSIG RR removed, ARCOUNT lowered
    StripTsig,
    /// the TSIG RR appended a second time
    SecondTsig,
    /// a fabricated unsigned NOERROR reply with the right id and question
    ForgedUnsigned,
}

fn recipes(len: usize) -> Vec<Recipe> {
    let mut v = vec![Recipe::Identity];
    for i in 0..len {
        for bit in 0..8 {
            v.push(Recipe::Flip(i, bit));
        }
        for x in [0x00u8, 0xff] {
            v.push(Recipe::Sub(i, x));
        }
    }
    for n in 0..len {
        v.push(Recipe::Trunc(n));
    }
    v.push(Recipe::Extend);
    for ci in 0..4 {
        for var in 0..4 {
            v.push(Recipe::Count(ci, var));
        }
    }
    v.extend([Recipe::StripTsig, Recipe::SecondTsig, Recipe::ForgedUnsigned]);
    v
}

/// The tampered reply and its mutation class; None if the recipe changes nothing.
fn apply_recipe(r: &Recipe, reply: &[u8], request: &[u8], reg: &Regions) -> Option<(String, Vec<u8>)> {
    let mut b = reply.to_vec();
    match r {
        Recipe::Identity => Some(("identity".into(), b)),
        Recipe::Flip(i, bit) => {
            b[*i] ^= 1 << bit;
            let rg = reg.at(*i);
            Some((if rg == "header.flags" { format!("bit-flip@header.flags.{}", flag_bit_name(*i, *bit)) } else { format!("bit-flip@{rg}") }, b))
        }
        Recipe::Sub(i, v) => {
            if b[*i] == *v {
                return None;
            }
            b[*i] = *v;
            Some((format!("byte-sub@{}", reg.at(*i)), b))
        }
        Recipe::Trunc(n) => Some((format!("truncate@{}", reg.at(*n)), reply[..*n].to_vec())),
        Recipe::Extend => {
            b.push(0);
            Some(("extend:bytes-after-tsig".into(), b))
        }
        Recipe::Count(ci, var) => {
            let p = 4 + 2 * ci;
            let cur = u16::from_be_bytes([b[p], b[p + 1]]);
            let v = match var {
                0 => cur.wrapping_sub(1),
                1 => cur.wrapping_add(1),
                2 => 0,
                _ => 65535,
            };
            if v == cur {
                return None;
            }
            b[p..p + 2].copy_from_slice(&v.to_be_bytes());
            // lowering ARCOUNT by one turns the TSIG RR into trailing bytes: the reply has no TSIG
            let name = ["qdcount", "ancount", "nscount", "arcount"][*ci];
            Some((if *ci == 3 && *var == 0 { "arcount-lowered:tsig-becomes-trailing-bytes".to_string() } else { format!("count-edit@header.{name}") }, b))
        }
        Recipe::StripTsig => {
            let s = rt::split(reply).ok()?;
            Some(("tsig-stripped".into(), rt::strip(reply, &s)))
        }
        Recipe::SecondTsig => {
            let s = rt::split(reply).ok()?;
            b.extend_from_slice(&s.tsig.encode());
            let ar = u16::from_be_bytes([b[10], b[11]]) + 1;
            b[10..12].copy_from_slice(&ar.to_be_bytes());
            Some(("second-tsig".into(), b))
        }
        Recipe::ForgedUnsigned => {
            // the request echoed without its TSIG, turned into a NOERROR response
            let s = rt::split(request).ok()?;
            let mut f = rt::strip(request, &s);
            f[2] |= 0x80;
            f[3] &= 0xf0;
            Some(("forged-unsigned-reply".into(), f))
        }
    }
}

/// Reply side, direct family: every tampered reply to an honest, accepted exchange is fed to a
/// fresh client-side `TSigVerifier`.
fn run_reply_mutants(c: &Case, reply: &[u8], req_mac: &[u8], l: &mut Local) {
    let key = Key::new(k1_name(), c.alg, &key1());
    let reg = Regions::of(reply);
    for r in recipes(reply.len()) {
        let Some((class, bytes)) = apply_recipe(&r, reply, &c.bytes, &reg) else { continue };
        if class == "identity" {
            continue;
        }
        l.eval();
        let mut v = client_verifier(c.kind, c.alg, c.fudge, c.time);
        let got = catch(|| v.verify(&bytes).is_ok());
        let want = rt::verify_response(&bytes, &key, c.time, req_mac);
        let wit = || {
            let mut j = c.json();
            j["reply_mutation"] = json!(class);
            j["reply_hex"] = json!(hex::enc(&bytes));
            j
        };
        match got {
            Err(p) => l.violation(&panic_key("client", &p.msg, &p.loc), &format!("the client-side verifier panicked on a modified reply ({class}): {}", p.msg), wit),
            Ok(true) if want.is_err() => l.violation(
                &format!("modified-reply-accepted:{}:{}", if c.kind.is_update() { "update" } else { "axfr" }, key_scene(&class)),
                &format!("the client-side TSigVerifier accepts a modified reply ({class}) that the reference verifier rejects: {want:?}"),
                wit,
            ),
            Ok(true) => l.outcome("reply-mutant:accepted-by-both"),
            Ok(false) if want.is_ok() => l.outcome("reply-mutant:rejected-by-client-only(allowed)"),
            Ok(false) => l.outcome("reply-mutant:rejected"),
        }
    }
}

/// Reply side through the REAL client transports (`path` = "multiplexer" | "udp-client"): the
/// transport signs the request itself; for every recipe the real server answers exactly those
/// bytes and the tampered reply is delivered from the server's address. The caller may get
/// `Ok(response)` only if the reference verifier accepts the delivered bytes.
fn run_client_path(w: &mut Worker, kind: Kind, alg: Alg, fudge: u16, path: &str, reply_shape: Option<&shapes::Shape>, l: &mut Local) {
    let handle = w.rt.handle().clone();
    let _guard = handle.enter();
    vsim::set_unix(T0);
    let signer = vupd::signer("k1.", vupd::KEY1, alg_h(alg), fudge);
    let mut cp = if path == "multiplexer" { clientpath::ClientPath::Mux(clientpath::MuxPath::new(signer)) } else { clientpath::ClientPath::Udp(clientpath::UdpPath::new(signer)) };
    let key = Key::new("k1.", alg, vupd::KEY1);
    let kname = if kind.is_update() { "update" } else { "axfr" };
    let case = |class: &str, request: &[u8], reply: &[u8]| {
        let mut j = json!({"client_path": path, "kind": kind.name(), "alg": alg_name(alg), "fudge": fudge, "time_signed": T0, "reply_mutation": class,
               "request_hex": hex::enc(request), "delivered_reply_hex": hex::enc(reply)});
        if let Some(sh) = reply_shape {
            j["reply_signed_by_reference_in_shape"] = json!(sh.label());
            j["shape_other_len"] = json!(sh.other_len);
            j["shape_error"] = json!(sh.error);
            j["shape_oid_differs"] = json!(sh.oid_differs);
            j["shape_fudge"] = json!(sh.fudge);
            j["shape_name_style"] = json!(sh.name_style);
        }
        j
    };
    // one honest exchange: the transport's own signed request, answered by the real server
    let exchange = |w: &mut Worker, cp: &mut clientpath::ClientPath| -> Result<(Vec<u8>, Vec<u8>), String> {
        vsim::set_unix(T0);
        let request = cp.send(unsigned_message(kind))?;
        if let Some(sh) = reply_shape {
            // the reply is signed by the reference signer in that shape (e.g. a BADTIME reply with
            // 6 octets of Other Data, which hickory's server never produces)
            let mac = rt::split(&request).map(|s| s.tsig.mac).map_err(|e| format!("{e:?}"))?;
            return Ok((request.clone(), shapes::ref_reply(&request, alg, sh, &mac, false)));
        }
        let obs = run_request(w, 0, alg, 2, T0, &request);
        if let Some((m, _)) = obs.panic {
            return Err(format!("server panic: {m}"));
        }
        let reply = obs.replies.and_then(|r| r.into_iter().next()).ok_or("no reply from the server")?;
        let answers = wire::read_header(&reply).map(|h| h.an).unwrap_or(0);
        if !(obs.changed || answers > 0) {
            return Err("the transport's own signed request was not accepted by the server".into());
        }
        Ok((request, reply))
    };
    let (_, probe) = match exchange(w, &mut cp) {
        Ok(x) => x,
        Err(e) => {
            l.violation(&format!("honest-request-via-{path}-not-accepted"), &e, || case("identity", &[], &[]));
            return;
        }
    };
    let reg = Regions::of(&probe);
    for r in recipes(probe.len()) {
        let (request, reply) = match exchange(w, &mut cp) {
            Ok(x) => x,
            Err(e) => {
                l.outcome(&format!("machinery:client-path-exchange-failed:{e}"));
                continue;
            }
        };
        if reply.len() != probe.len() {
            l.outcome("machinery:honest-reply-length-varies");
            continue;
        }
        let Some((class, bytes)) = apply_recipe(&r, &reply, &request, &reg) else { continue };
        l.eval();
        let req_mac = rt::split(&request).map(|s| s.tsig.mac).unwrap_or_default();
        let want = rt::verify_response(&bytes, &key, T0, &req_mac);
        let got = catch(|| cp.deliver(&bytes));
        match got {
            Err(p) => l.violation(&panic_key(path, &p.msg, &p.loc), &format!("the client transport panicked on a delivered reply ({class}): {}", p.msg), || case(&class, &request, &bytes)),
            Ok(clientpath::Delivered::Ok) if want.is_err() => l.violation(
                &format!("modified-reply-accepted-via-{path}:{kname}:{}", key_scene(&class)),
                &format!("a signing client ({path}) hands a reply to its caller as Ok although the reference verifier rejects the delivered bytes ({class}): {want:?}"),
                || case(&class, &request, &bytes),
            ),
            Ok(clientpath::Delivered::Ok) => l.outcome(&format!("via-{path}:delivered-and-reference-accepts")),
            Ok(d) => {
                if class == "identity" && reply_shape.map(|s| s.fudge == 0).unwrap_or(false) {
                    l.outcome(&format!("via-{path}:not-delivered"));
                } else if class == "identity" {
                    let key = match reply_shape {
                        Some(sh) => format!("reference-signed-reply-not-accepted-via-{path}:{}", sh.dims()),
                        None => format!("honest-reply-not-accepted-via-{path}"),
                    };
                    l.violation(&key, &format!("the genuine signed reply did not reach the caller as Ok: {d:?}"), || case(&class, &request, &bytes));
                } else if want.is_ok() {
                    l.outcome(&format!("via-{path}:not-delivered-although-reference-accepts(allowed)"));
                } else {
                    l.outcome(&format!("via-{path}:not-delivered"));
                }
            }
        }
    }
}

// ------------------------------------------------------------------------------------------
// the declared space

const T0: u64 = 1_700_000_000;

fn window_offsets(f: u16) -> Vec<i128> {
    let f = f as i128;
    let mut v = vec![-f - 2, -f - 1, -f, -f + 1, -1, 0, 1, f - 1, f, f + 1, f + 2];
    v.sort();
    v.dedup();
    v
}

/// Offsets at the arithmetic boundaries of every integer width involved.
fn boundary_offsets(f: u16) -> Vec<i128> {
    let f = f as i128;
    let mut v = vec![];
    for base in [1i128 << 15, 1 << 16, 1 << 17, 1 << 31, 1 << 32, 1 << 33] {
        for d in [0, 1, -1, f, -f, f + 1, -f - 1] {
            v.push(base + d);
            v.push(-(base + d));
        }
    }
    v.sort();
    v.dedup();
    v
}

/// (time signed, server now) pairs for honest requests with a VALID MAC.
fn clock_grid(f: u16, thorough: bool) -> Vec<(u64, u64)> {
    let mut v: Vec<(u64, u64)> = vec![];
    let mut push = |t: i128, n: i128| {
        if t >= 0 && t < (1i128 << 48) && n >= 0 && n < (1i128 << 63) {
            v.push((t as u64, n as u64));
        }
    };
    let ff = f as i128;
    // ordinary time and a time above 2^33 (so that every negative boundary offset fits)
    for t in [T0 as i128, (1i128 << 33) + 12_345] {
        for o in window_offsets(f).into_iter().chain(boundary_offsets(f)) {
            push(t, t + o);
        }
    }
    // time signed near 0 (time - fudge underflows), near 2^16, 2^32 and the 48-bit maximum
    let mut ts: Vec<i128> = vec![0, 1, ff - 1, ff, ff + 1, 2 * ff + 1, (1 << 16) - 1, 1 << 16, (1 << 32) - 1, 1 << 32, (1 << 32) + 1, (1 << 48) - 1, (1 << 48) - 1 - ff, (1 << 48) - 2 - ff];
    if thorough {
        ts.extend([(1 << 31) - 1, 1 << 31, (1 << 47) - 1, 1 << 47]);
    }
    for t in ts {
        let mut offs = window_offsets(f);
        offs.extend([1 << 16, -(1 << 16), 1 << 32, -(1 << 32), (1 << 32) + ff, -(1 << 32) - ff]);
        if thorough {
            offs.extend(boundary_offsets(f));
        }
        for o in offs {
            push(t, t + o);
        }
        // the server clock at 0 / at the time itself whatever the window
        push(t, 0);
    }
    v.sort();
    v.dedup();
    v
}

struct Group {
    kind: Kind,
    alg: Alg,
    fudge: u16,
}

fn main() {
    // a stack overflow / abort in the code under test must become a verdict, not a dead check
    vcore::supervise("C13");
    vcore::install_log_evaluation(); // logging is part of the environment: log arguments are evaluated as under a real subscriber
    let ctx = Ctx::from_args("C13", "fault_enumeration");
    let thorough = !ctx.quick();

    if let Some((_key, case)) = ctx.replay_case() {
        let mut w = Worker::new();
        if let Some(path) = case["client_path"].as_str() {
            // the whole reply family of that honest exchange through that transport
            let (kind, alg, fudge) = (Kind::from_name(case["kind"].as_str().unwrap_or("")), alg_from(case["alg"].as_str().unwrap_or("")), case["fudge"].as_u64().unwrap_or(300) as u16);
            let sh = if case["shape_other_len"].is_u64() { Some(shapes::shape_from_json(&case)) } else { None };
            ctx.with_local(|l| run_client_path(&mut w, kind, alg, fudge, path, sh.as_ref(), l));
            ctx.finish(false);
        }
        if case["lifecycle"].as_bool() == Some(true) {
            let cfg = vupd::lifecycle::Cfg { axfr: case["axfr"].as_u64().unwrap_or(1) as u8, allow_update: case["allow_update"].as_bool().unwrap_or(true), dnssec: false };
            ctx.with_local(|l| {
                l.eval();
                for f in vupd::lifecycle::run(&std::env::temp_dir().join(format!("verif-c13-{}-lifecycle-replay", std::process::id())), &cfg, || None, &w.rt) {
                    l.violation(&f.key, &f.what, || case.clone());
                }
            });
            ctx.finish(false);
        }
        if case["second_step"].as_bool() == Some(true) || case["two_step_closure"].as_bool() == Some(true) {
            ctx.with_local(|l| second::replay(&mut w, &case, l));
            ctx.finish(false);
        }
        if case["shape_family"].is_string() {
            let (kind, alg, sh) = (Kind::from_name(case["kind"].as_str().unwrap_or("")), alg_from(case["alg"].as_str().unwrap_or("")), shapes::shape_from_json(&case));
            ctx.with_local(|l| shapes::run_shape(&mut w, kind, alg, &sh, l));
            ctx.finish(false);
        }
        let c = Case::from_json(&case);
        ctx.with_local(|l| {
            let r = run_case(&mut w, &c, l);
            if let (Some((reply, mac)), Some(rm)) = (r, case["reply_mutation"].as_str()) {
                let _ = rm;
                run_reply_mutants(&c, &reply, &mac, l);
            }
        });
        ctx.finish(false);
    }

    let kinds = [Kind::UpdAdd, Kind::UpdDelName, Kind::UpdPrereq, Kind::Axfr];
    let mut groups: Vec<Group> = vec![];
    for kind in kinds {
        for fudge in [0u16, 1, 300] {
            groups.push(Group { kind, alg: Alg::Sha256, fudge });
        }
        // algorithm sub-grid
        for alg in [Alg::Sha384, Alg::Sha512] {
            if thorough || kind == Kind::UpdAdd || kind == Kind::Axfr {
                groups.push(Group { kind, alg, fudge: 300 });
            }
        }
        if thorough {
            groups.push(Group { kind, alg: Alg::Sha256, fudge: 65535 });
        }
    }
    ctx.set("groups", json!(groups.iter().map(|g| format!("{}/{}/fudge={}", g.kind.name(), alg_name(g.alg), g.fudge)).collect::<Vec<_>>()));
    ctx.set_rule(
        "honest requests = {UPDATE add A, UPDATE delete name, UPDATE with 2 prerequisites, AXFR} signed by the real client signer with key k1 \
         (HMAC-SHA256; sub-grid SHA384/SHA512), fudge in {0,1,300} (thorough: 65535). Part A (byte level, time signed = 1.7e9): EVERY single-bit \
         flip of every byte, every byte substituted by {00,01,7f,80,ff}, EVERY truncation, extensions, every section count set to {-1,+1,0,65535}, \
         structural TSIG edits re-encoded with the original MAC (key name, algorithm, time, fudge, every MAC length 0..len+2, original id, error, \
         other data, RR class/TTL, record after TSIG, second TSIG, TSIG outside the additional section, TSIG stripped) and MACs recomputed (by k2, \
         by k2 claiming k1, with response-style chaining, by an independent RFC 8945 signer) x server clock - time signed in {-F-2..-F+1,-1,0,1, \
         F-1..F+2} x configured key sets {k1},{k1,k2},{k2},{},{k1 with another algorithm} x AXFR policies {Deny, AllowAll, AllowSigned} (AXFR \
         requests; UPDATE-derived mutants run under AllowSigned). Part B (valid MAC, clock arithmetic): the unmodified requests x (time signed, \
         server clock) with time signed in {1.7e9, 2^33+k, 0, 1, F-1, F, F+1, 2F+1, 2^16-1, 2^16, 2^32-1, 2^32, 2^32+1, 2^48-1-F, 2^48-1, ...} and \
         clock - time signed in the window set plus +-(2^15, 2^16, 2^17, 2^31, 2^32, 2^33) +- {0, 1, F, F+1}. Part C (reply side): every single-bit \
         flip, byte substitution {00,ff}, truncation, extension, section-count edit {-1,+1,0,65535}, TSIG stripped, second TSIG and a forged \
         unsigned NOERROR reply with the right id, for the reply to every honest accepted exchange, fed to a fresh client-side TSigVerifier. \
         Part D: the same reply family through the real client transports - DnsMultiplexer::with_signer over a scripted DnsClientStream and \
         UdpClientStream::with_signer over a scripted socket: the transport signs the request itself, the real server answers exactly those \
         bytes (a fresh exchange per tampered reply), the tampered reply is delivered from the server's address; the caller may receive \
         Ok(response) only if vref::tsig (response variant, request-MAC chaining) accepts the delivered bytes, and must receive the genuine one. Part E (variants, SHA-256/fudge 300, identity + structural mutants x all 8 key sets x window offsets): the key named like the zone \
         (TSIG owner compressed against the question; compression toggled), requests over UDP, a zone big enough that the AXFR reply over UDP \
         is truncated, and their combinations; key sets now also: the key configured in upper case, the same key NAME configured twice with \
         different algorithm+secret (both orders); plus a signed NOTIFY and a signed ordinary SOA query (every byte mutant; not judged beyond \
         'no panic, zone unchanged'). Part F (the SHAPE of the signed message): requests, replies and second AXFR envelopes signed by the \
         independent reference signer with Other Data of length {0,1,6,16}, error {0,BADTIME}, original id != header id, fudge {0,300,65535}, key \
         name plain / upper case / compressed (quick: each dimension alone + 3 combinations; thorough: the full product of 144 shapes x 4 request \
         kinds): (i) the digest input and MAC hickory's signing functions produce for the shape equal RFC 8945 4.3.3 written out; (ii) the \
         reference-signed message verifies / takes effect / is accepted by TSigVerifier; (iii) every bit flip, byte substitution, truncation, \
         extension and count edit of the WHOLE reference-signed request through the server, of the reply and of a second envelope (timers-only \
         digest) through a fresh TSigVerifier, and of BADTIME-shaped replies through both client transports. Oracle: effect (zone changed / \
         AXFR answers under AllowSigned) only if vref::tsig accepts the mutated bytes under the \
         configured keys at that clock; no AXFR data under Deny; accepted => reply verifies with the reference and with the client verifier; \
         modified reply accepted by the client only if the reference accepts it; no panic. Non-trivial = distinct (bytes, key set, clock) that \
         still parse as a message with a correctly placed trailing TSIG. Audit round: structural mutants SIG(0) instead of / after / before the \
         TSIG, the RFC 8945 truncated-MAC algorithm names with a MAC cut to that length, an A record / OPT / SIG(0) in the additional section \
         before the TSIG with the MAC recomputed (valid); Part F also over the unsigned request HAND-ENCODED in 6 layouts (vupd::raw); Part G \
         (knobs, identity + structural mutants x 8 key sets x window offsets x all 3 outer AXFR policies): AXFR policy of the in-memory handler \
         inside {Deny, AllowSigned}, allow_update = false, zone type Secondary (the zone must not change whatever the TSIG), a journal \
         attached, server signers configured with fudge {0, 65535}, shared secret of {1, 64, 65, 200} octets, and two combinations; Part H \
         (second step, on ONE handler, x {plain, journal, UDP, key named like the zone}): every honest request after every kind of first \
         request (unsigned, bad MAC, unknown key, BADTIME, valid TSIG + prescan FORMERR, valid TSIG + failing prerequisite, cut short, \
         accepted update, accepted AXFR, signed NOTIFY / query, the same octets = replay, replay after the window, every honest kind) and after \
         every ordered PAIR of honest requests: reply octets and zone equal those of a fresh handler in the same zone state, accepted update \
         = RFC 2136 on the state the first left, signed AXFR lists exactly the current zone; the first request's TSIG on another body must \
         not take effect. REPLY-SIGNING POLICY (fifth seed round; judged for EVERY request of every part, incl. signed NOTIFY / query): a \
         reply carries a MAC that is valid under a configured key k (digest prefixed by the request's MAC field as on the wire, by an empty \
         MAC, or unprefixed) only if the reference verifies the REQUEST's MAC under k (its time may be outside the window) - RFC 8945 5.3.2: \
         BADKEY / BADSIG responses are unsigned, BADTIME is signed only after the MAC verified; the quadrants (MAC good / bad / no TSIG) x \
         (fresh / stale) x (reply signed / not) are counted per request kind. TWO-STEP CLOSURE: for 8 unauthenticated first requests (bad \
         MAC fresh / stale / time signed 1, unknown key, unsigned, MAC field = chosen octets stale / fresh, AXFR) the second request is \
         assembled from the reply's octets by a grammar (reply TSIG verbatim on an update / AXFR body; reply MAC + time + fudge [+ error + \
         other] with original id in {body id, 0, length of the first MAC field, the reply's}; the digest-collision layout with the reply \
         embedded as RDATA of a filler record; the first request's own TSIG): none may take effect, whatever a verifier says. Part I \
         (CONFIG-DRIVEN LIFECYCLE, vupd::lifecycle shared with C14): the zone built only through try_from_config (zone file, journal, key \
         file) for AXFR policy {Deny, AllowAll, AllowSigned} x allow_update {false, true}, started three times (the second and third start \
         take the journal-recovery branch): unsigned / bad-MAC / signed AXFR and UPDATE probes and a plain query give the same outcome class \
         at every start, no zone data against the policy, no update effect without a valid TSIG or with allow_update = false.",
    );
    ctx.assume("ring's HMAC is correct; vref::tsig (RFC 8945 4.3.3 digest from the raw bytes) is the reference for 'carries a valid, timely TSIG'");
    ctx.assume("the handler keeps no state besides the record store: the store content is put back after a request that changed it");
    ctx.assume("a mutant that an independent reader sees as an ordinary QUERY (opcode 0, not AXFR) is outside the statement's input class (public data may be answered)");

    // ---- part A + B: one task per (group, part, slice)
    struct Task {
        g: usize,
        part: u8,
        slice: usize,
        slices: usize,
    }
    let mut tasks = vec![];
    for (gi, _) in groups.iter().enumerate() {
        let slices = 16;
        for s in 0..slices {
            tasks.push(Task { g: gi, part: 0, slice: s, slices });
        }
        tasks.push(Task { g: gi, part: 1, slice: 0, slices: 1 });
    }
    // part E: variant dimensions (identity + structural mutants; SHA-256, fudge 300)
    let variants: Vec<Var> = vec![
        Var { key_named_like_zone: true, ..Var::DEFAULT },
        Var { udp: true, ..Var::DEFAULT },
        Var { udp: true, big_zone: true, ..Var::DEFAULT },
        Var { big_zone: true, ..Var::DEFAULT },
        Var { key_named_like_zone: true, udp: true, big_zone: true, ..Var::DEFAULT },
        // part G (audit round): every knob of the handler / the signers at a non-default value
        Var { inner_axfr: 1, ..Var::DEFAULT },
        Var { inner_axfr: 2, ..Var::DEFAULT },
        Var { updates_off: true, ..Var::DEFAULT },
        Var { secondary: true, ..Var::DEFAULT },
        Var { journal: true, ..Var::DEFAULT },
        Var { server_fudge: 1, ..Var::DEFAULT },
        Var { server_fudge: 2, ..Var::DEFAULT },
        Var { key_len: 1, ..Var::DEFAULT },
        Var { key_len: 2, ..Var::DEFAULT },
        Var { key_len: 3, ..Var::DEFAULT },
        Var { key_len: 4, ..Var::DEFAULT },
        Var { updates_off: true, journal: true, udp: true, ..Var::DEFAULT },
        Var { secondary: true, inner_axfr: 2, key_len: 4, server_fudge: 1, ..Var::DEFAULT },
    ];
    let e_kinds = [Kind::UpdAdd, Kind::UpdDelName, Kind::UpdPrereq, Kind::Axfr, Kind::Notify, Kind::QuerySoa];
    let n_ab = tasks.len();
    let mut e_tasks: Vec<(Kind, Var)> = vec![];
    for kind in e_kinds {
        e_tasks.push((kind, Var::default()));
        for v in &variants {
            e_tasks.push((kind, *v));
        }
    }
    ctx.set("variant_families", json!(e_tasks.len()));
    let accepted_honest: std::sync::Mutex<Vec<(Case, Vec<u8>, Vec<u8>)>> = std::sync::Mutex::new(vec![]);
    ctx.par_run_init(
        (tasks.len() + e_tasks.len()) as u64,
        1,
        |_| Worker::new(),
        |i, l, w| {
            set_var(Var::default());
            if i as usize >= n_ab {
                let (kind, v) = e_tasks[i as usize - n_ab];
                // the default variant is part A for the judged kinds
                if v == Var::default() && kind.judged() {
                    return;
                }
                set_var(v);
                let h = honest(kind, Alg::Sha256, 300, T0);
                let mut ms = vec![Mutant { class: "identity".into(), bytes: h.clone() }];
                structural_mutants(&h, Alg::Sha256, 300, T0, &mut ms);
                if !kind.judged() {
                    byte_mutants(&h, &mut ms);
                }
                let knob = v.inner_axfr != 0 || v.updates_off || v.secondary || v.journal || v.server_fudge != 0 || v.key_len != 0;
                let policies: Vec<u8> = if kind == Kind::Axfr { if knob { vec![0, 1, 2] } else { vec![0, 2] } } else { vec![2] };
                for m in &ms {
                    let byte_level = m.class.contains('@') || m.class.starts_with("extend");
                    let keysets: Vec<usize> = if byte_level { vec![0] } else { (0..KEYSETS.len()).collect() };
                    let offs: Vec<i128> = if byte_level { vec![0] } else { window_offsets(300) };
                    for &ks in &keysets {
                        for &p in &policies {
                            for o in &offs {
                                let now = (T0 as i128 + o) as u64;
                                let c = Case { kind, alg: Alg::Sha256, fudge: 300, time: T0, now, ks, policy: p, class: m.class.clone(), bytes: m.bytes.clone(), var: v };
                                l.outcome(&format!("variant:{}", v.label()));
                                run_case(w, &c, l);
                            }
                        }
                    }
                }
                set_var(Var::default());
                return;
            }
            let t = &tasks[i as usize];
            let g = &groups[t.g];
            let policies: Vec<u8> = if g.kind.is_update() { vec![2] } else { vec![0, 1, 2] };
            if t.part == 0 {
                let h = honest(g.kind, g.alg, g.fudge, T0);
                let mut ms = vec![Mutant { class: "identity".into(), bytes: h.clone() }];
                byte_mutants(&h, &mut ms);
                structural_mutants(&h, g.alg, g.fudge, T0, &mut ms);
                if t.slice == 0 {
                    l.outcome_sample("sample:honest-request", || json!({"group": format!("{}/{}/fudge={}", g.kind.name(), alg_name(g.alg), g.fudge), "bytes": hex::enc(&h), "mutants": ms.len()}));
                }
                let offs = window_offsets(g.fudge);
                for (mi, m) in ms.iter().enumerate() {
                    if mi % t.slices != t.slice {
                        continue;
                    }
                    // byte-level mutants of the sub-grid algorithms / quick tier: the two key sets that hold k1 plus one without
                    let keysets: Vec<usize> = if thorough || m.class.starts_with("tsig-") || m.class.starts_with("resigned") || m.class.starts_with("unsigned") || m.class == "identity" {
                        (0..KEYSETS.len()).collect()
                    } else {
                        vec![0, 1, 2]
                    };
                    for &ks in &keysets {
                        for &p in &policies {
                            for o in &offs {
                                let now = (T0 as i128 + o) as u64;
                                let c = Case { kind: g.kind, alg: g.alg, fudge: g.fudge, time: T0, now, ks, policy: p, class: m.class.clone(), bytes: m.bytes.clone(), var: var() };
                                if let Some((reply, mac)) = run_case(w, &c, l) {
                                    if m.class == "identity" && *o == 0 && ks == 0 {
                                        accepted_honest.lock().unwrap().push((c, reply, mac));
                                    }
                                }
                            }
                        }
                    }
                }
            } else {
                // part B: valid MAC, clock arithmetic; executed twice (determinism self-test)
                let mut digests = vec![];
                for pass in 0..2 {
                w.dig = 0;
                let mut scratch = Local::default();
                let l: &mut Local = if pass == 0 { &mut *l } else { &mut scratch };
                for (time, now) in clock_grid(g.fudge, thorough) {
                    let h = honest(g.kind, g.alg, g.fudge, time);
                    for &p in &policies {
                        if p == 1 {
                            continue;
                        }
                        for ks in [0usize, 1] {
                            let c = Case { kind: g.kind, alg: g.alg, fudge: g.fudge, time, now, ks, policy: p, class: "identity".into(), bytes: h.clone(), var: var() };
                            l.outcome(&format!("clock:{}", time_scene(now, time, g.fudge)));
                            run_case(w, &c, l);
                        }
                    }
                }
                digests.push(w.dig);
                }
                l.outcome("selftest-rerun");
                if digests[0] != digests[1] {
                    l.outcome("machinery:selftest-mismatch");
                }
            }
        },
    );

    // ---- part C: reply side
    let mut acc = accepted_honest.into_inner().unwrap();
    acc.sort_by_key(|(c, _, _)| (c.kind.name(), alg_name(c.alg), c.fudge, c.policy));
    ctx.set("honest_accepted_exchanges_for_reply_mutation", json!(acc.len()));
    ctx.par_run(acc.len() as u64, 1, |i, l| {
        let (c, reply, mac) = &acc[i as usize];
        run_reply_mutants(c, reply, mac, l);
        l.outcome_sample("sample:honest-reply", || json!({"case": c.json(), "reply": hex::enc(reply)}));
    });

    // ---- part D: the same reply family through the real client transports
    let mut paths: Vec<(Kind, Alg, u16, &str)> = vec![];
    for (c, _, _) in &acc {
        if c.policy == 2 {
            for p in ["multiplexer", "udp-client"] {
                paths.push((c.kind, c.alg, c.fudge, p));
            }
        }
    }
    ctx.set("client_path_families", json!(paths.len()));
    ctx.par_run_init(paths.len() as u64, 1, |_| Worker::new(), |i, l, w| {
        let (kind, alg, fudge, p) = paths[i as usize];
        run_client_path(w, kind, alg, fudge, p, None, l);
    });

    // ---- part F: the shape of the signed message as a dimension
    let f_shapes = shapes::shapes(thorough);
    let f_kinds: Vec<Kind> = if thorough { vec![Kind::UpdAdd, Kind::UpdDelName, Kind::UpdPrereq, Kind::Axfr] } else { vec![Kind::UpdAdd, Kind::Axfr] };
    let mut f_tasks: Vec<(Kind, Alg, shapes::Shape)> = vec![];
    for k in &f_kinds {
        for sh in &f_shapes {
            if sh.layout != 0 && !k.is_update() {
                continue;
            }
            f_tasks.push((*k, Alg::Sha256, sh.clone()));
        }
    }
    if !thorough {
        // quick: the hand-encoded layouts also for the request with prerequisites (three sections)
        for sh in f_shapes.iter().filter(|s| s.layout != 0) {
            f_tasks.push((Kind::UpdPrereq, Alg::Sha256, sh.clone()));
        }
    }
    // the algorithm sub-grid with the BADTIME shape
    for alg in [Alg::Sha384, Alg::Sha512] {
        f_tasks.push((Kind::UpdAdd, alg, shapes::Shape { other_len: 6, error: 18, ..shapes::Shape::DEFAULT }));
    }
    ctx.set("shape_families", json!(f_tasks.len()));
    ctx.set("shapes", json!(f_shapes.iter().map(|s| s.label()).collect::<Vec<_>>()));
    ctx.par_run_init(f_tasks.len() as u64, 1, |_| Worker::new(), |i, l, w| {
        let (kind, alg, sh) = &f_tasks[i as usize];
        shapes::run_shape(w, *kind, *alg, sh, l);
    });
    // reference-signed replies in non-default shapes through the real client transports
    let mut t_shapes = vec![shapes::Shape { other_len: 6, error: 18, ..shapes::Shape::DEFAULT }, shapes::Shape { other_len: 16, ..shapes::Shape::DEFAULT }, shapes::Shape { oid_differs: true, ..shapes::Shape::DEFAULT }];
    if thorough {
        t_shapes.extend([shapes::Shape { other_len: 1, error: 18, fudge: 65535, ..shapes::Shape::DEFAULT }, shapes::Shape { name_style: 1, ..shapes::Shape::DEFAULT }, shapes::Shape::DEFAULT]);
    }
    let mut tp: Vec<(Kind, shapes::Shape, &str)> = vec![];
    for k in [Kind::UpdAdd, Kind::Axfr] {
        for sh in &t_shapes {
            for p in ["multiplexer", "udp-client"] {
                tp.push((k, sh.clone(), p));
            }
        }
    }
    ctx.set("shaped_reply_transport_families", json!(tp.len()));
    ctx.par_run_init(tp.len() as u64, 1, |_| Worker::new(), |i, l, w| {
        let (kind, sh, p) = &tp[i as usize];
        run_client_path(w, *kind, Alg::Sha256, 300, p, Some(sh), l);
    });

    // ---- part I (sixth seed round): config-driven lifecycle - the zone built only through
    // try_from_config, started three times (zone file, then twice from the journal): the AXFR policy,
    // allow_update and the TSIG keys must mean after a restart what they meant at the first start
    {
        let cfgs = vupd::lifecycle::Cfg::all(false);
        ctx.set("lifecycle_configurations", json!(cfgs.iter().map(|c| c.name()).collect::<Vec<_>>()));
        ctx.par_run_init(cfgs.len() as u64, 1, |_| Worker::new(), |i, l, w| {
            let cfg = cfgs[i as usize];
            l.eval();
            let dir = std::env::temp_dir().join(format!("verif-c13-{}-lifecycle-{i}", std::process::id()));
            let fs = vupd::lifecycle::run(&dir, &cfg, || None, &w.rt);
            if fs.is_empty() {
                l.outcome("lifecycle:three-starts-agree");
            }
            for f in fs {
                l.violation(&f.key, &f.what, || json!({"lifecycle": true, "configuration": cfg.name(), "axfr": cfg.axfr, "allow_update": cfg.allow_update, "dnssec": cfg.dnssec}));
            }
        });
    }

    // ---- part H: the second step (state carried between requests)
    let h_vars = [Var::DEFAULT, Var { journal: true, ..Var::DEFAULT }, Var { udp: true, ..Var::DEFAULT }, Var { key_named_like_zone: true, ..Var::DEFAULT }];
    ctx.par_run_init(h_vars.len() as u64, 1, |_| Worker::new(), |i, l, w| {
        set_var(h_vars[i as usize]);
        second::run(w, l);
        second::closure(w, l);
        set_var(Var::DEFAULT);
    });

    for class in [
        "signing:update:mac-bad:stale:reply-not-signed",
        "signing:update:mac-bad:fresh:reply-not-signed",
        "signing:update:mac-good:stale:reply-signed",
        "signing:update:mac-good:fresh:reply-signed",
        "signing:axfr:mac-bad:stale:reply-not-signed",
        "signing:axfr:mac-good:stale:reply-signed",
        "signing:query:mac-bad:stale:reply-not-signed",
        "signing:notify:mac-bad:stale:reply-not-signed",
        "two-step-closure:no-effect",
        "lifecycle:three-starts-agree",
        "second-step:same-as-fresh-handler",
        "second-step:second-rejected:no-effect",
        "second-step:update-applied-on-top-of-the-first",
        "second-step:update-left-the-zone-as-the-first-left-it",
        "second-step:axfr-lists-the-zone-the-first-left",
        "shape:request-digest-equals-rfc8945",
        "shape:response-digest-equals-rfc8945",
        "shape:reference-signed-request-verifies",
        "shape:reference-signed-request-takes-effect",
        "shape:reply-mutant:rejected",
        "shape:second-envelope-mutant:rejected",
        "shape:second-envelope-mutant:accepted-by-both",
        "variant:key=z./tcp",
        "variant:key=k1./udp/big-zone",
        "variant:key=k1./tcp/inner-axfr=Deny",
        "variant:key=k1./tcp/allow_update=false",
        "variant:key=k1./tcp/zone-type=Secondary",
        "variant:key=k1./tcp/journal",
        "variant:key=k1./tcp/server-fudge=0",
        "variant:key=k1./tcp/key-length=200",
        "obs:notify:tsig-valid",
        "obs:query:SOA:tsig-invalid",
        "accepted:reply-truncated",
        "via-multiplexer:delivered-and-reference-accepts",
        "via-multiplexer:not-delivered",
        "via-udp-client:delivered-and-reference-accepts",
        "via-udp-client:not-delivered",
        "reference-accepts:took-effect",
        "reference-rejects:no-effect",
        "ref:bad-sig",
        "ref:bad-time",
        "ref:bad-key",
        "ref:mac-length",
        "ref:misplaced-tsig",
        "ref:no-trailing-tsig",
        "accepted:reply-verifies-with-reference",
        "accepted:reply-verifies-with-client-verifier",
        "reply-mutant:rejected",
        "clock:far-outside-window(>=2^15)",
        "clock:inside-window",
    ] {
        if ctx.outcome_count(class) == 0 {
            ctx.machinery_failure(&format!("vacuous run: outcome class {class} never exercised"));
        }
    }
    if ctx.outcome_count("machinery:selftest-mismatch") > 0 || ctx.outcome_count("selftest-rerun") == 0 {
        ctx.machinery_failure("determinism self-test failed or did not run");
    }
    if acc.is_empty() {
        ctx.machinery_failure("vacuous run: no honest exchange was accepted");
    }
    ctx.finish(true);
}
