//! The real client transports that decide whether the TSIG verifier is consulted at all:
//! `DnsMultiplexer` (with a signer) over a scripted `DnsClientStream`, and `UdpClientStream` (with
//! a signer) over a scripted UDP socket. The transport itself signs the request; the harness
//! captures exactly those bytes, lets the real server answer them, and delivers a (mutated) reply.

use std::collections::VecDeque;
use std::future::Future;
use std::io;
use std::net::SocketAddr;
use std::pin::Pin;
use std::sync::{Arc, Mutex};
use std::task::{Context, Poll, Waker};
use std::time::Duration;

use futures_util::{Stream, StreamExt};
use hickory_net::runtime::{DnsUdpSocket, RuntimeProvider, TokioHandle, TokioRuntimeProvider};
use hickory_net::udp::UdpClientStream;
use hickory_net::xfer::{DnsClientStream, DnsMultiplexer, DnsRequestSender, DnsResponseStream, StreamReceiver};
use hickory_net::{BufDnsStreamHandle, NetError};
use hickory_proto::op::{DnsRequest, Message, SerialMessage};
use hickory_proto::rr::TSigner;
use vsim::SimTime;

pub fn server_addr() -> SocketAddr {
    "192.0.2.53:53".parse().unwrap()
}

fn cx_noop<R>(f: impl FnOnce(&mut Context<'_>) -> R) -> R {
    let mut cx = Context::from_waker(Waker::noop());
    f(&mut cx)
}

/// What the caller of the transport got.
#[derive(Debug)]
#[allow(dead_code)]
pub enum Delivered {
    /// `Ok(response)`: the reply reached the caller as authentic
    Ok,
    Err(String),
    /// nothing (the datagram / frame was ignored and the caller keeps waiting)
    Nothing,
}

fn poll_response(resp: &mut DnsResponseStream) -> Delivered {
    match cx_noop(|cx| resp.poll_next_unpin(cx)) {
        Poll::Ready(Some(Ok(_))) => Delivered::Ok,
        Poll::Ready(Some(Err(e))) => Delivered::Err(e.to_string()),
        Poll::Ready(None) => Delivered::Err("response stream ended".into()),
        Poll::Pending => Delivered::Nothing,
    }
}

// ------------------------------------------------------------------------------------------
// DnsMultiplexer over a scripted stream

struct ScriptStream {
    inbox: Arc<Mutex<VecDeque<Vec<u8>>>>,
}

impl Stream for ScriptStream {
    type Item = Result<SerialMessage, NetError>;
    fn poll_next(self: Pin<&mut Self>, _cx: &mut Context<'_>) -> Poll<Option<Self::Item>> {
        match self.inbox.lock().unwrap().pop_front() {
            Some(b) => Poll::Ready(Some(Ok(SerialMessage::new(b, server_addr())))),
            None => Poll::Pending,
        }
    }
}

impl DnsClientStream for ScriptStream {
    type Time = SimTime;
    fn name_server_addr(&self) -> SocketAddr {
        server_addr()
    }
}

pub struct MuxPath {
    mux: DnsMultiplexer<ScriptStream>,
    inbox: Arc<Mutex<VecDeque<Vec<u8>>>>,
    outbox: StreamReceiver,
    pending: Option<DnsResponseStream>,
}

impl MuxPath {
    /// Must be called inside the runtime context (`rt.enter()`).
    pub fn new(signer: TSigner) -> MuxPath {
        let inbox = Arc::new(Mutex::new(VecDeque::new()));
        let (handle, outbox) = BufDnsStreamHandle::new(server_addr());
        let mux = DnsMultiplexer::new(ScriptStream { inbox: inbox.clone() }, handle).with_signer(signer);
        MuxPath { mux, inbox, outbox, pending: None }
    }
}

// ------------------------------------------------------------------------------------------
// UdpClientStream over a scripted socket

#[derive(Default)]
struct UdpShared {
    sent: Vec<Vec<u8>>,
    inbox: VecDeque<Vec<u8>>,
    /// the task waiting in recv_from (UdpClientStream polls its request inside a
    /// FuturesUnordered, which only re-polls a child that was woken)
    waker: Option<Waker>,
}

#[derive(Clone)]
struct ScriptNet {
    sh: Arc<Mutex<UdpShared>>,
    inner: TokioRuntimeProvider,
}

struct ScriptUdp {
    sh: Arc<Mutex<UdpShared>>,
}

impl DnsUdpSocket for ScriptUdp {
    type Time = SimTime;
    fn poll_recv_from(&self, cx: &mut Context<'_>, buf: &mut [u8]) -> Poll<io::Result<(usize, SocketAddr)>> {
        let mut g = self.sh.lock().unwrap();
        match g.inbox.pop_front() {
            Some(b) => {
                let n = b.len().min(buf.len());
                buf[..n].copy_from_slice(&b[..n]);
                Poll::Ready(Ok((n, server_addr())))
            }
            None => {
                g.waker = Some(cx.waker().clone());
                Poll::Pending
            }
        }
    }
    fn poll_send_to(&self, _cx: &mut Context<'_>, buf: &[u8], _target: SocketAddr) -> Poll<io::Result<usize>> {
        self.sh.lock().unwrap().sent.push(buf.to_vec());
        Poll::Ready(Ok(buf.len()))
    }
}

impl RuntimeProvider for ScriptNet {
    type Handle = TokioHandle;
    type Timer = SimTime;
    type Udp = ScriptUdp;
    type Tcp = <TokioRuntimeProvider as RuntimeProvider>::Tcp;
    fn create_handle(&self) -> TokioHandle {
        self.inner.create_handle()
    }
    fn connect_tcp(&self, a: SocketAddr, b: Option<SocketAddr>, t: Option<Duration>) -> Pin<Box<dyn Send + Future<Output = io::Result<Self::Tcp>>>> {
        self.inner.connect_tcp(a, b, t)
    }
    fn bind_udp(&self, _local: SocketAddr, _server: SocketAddr) -> Pin<Box<dyn Send + Future<Output = io::Result<ScriptUdp>>>> {
        let sh = self.sh.clone();
        Box::pin(async move { Ok(ScriptUdp { sh }) })
    }
}

pub struct UdpPath {
    stream: UdpClientStream<ScriptNet>,
    sh: Arc<Mutex<UdpShared>>,
    pending: Option<DnsResponseStream>,
}

impl UdpPath {
    pub fn new(signer: TSigner) -> UdpPath {
        let sh = Arc::new(Mutex::new(UdpShared::default()));
        let net = ScriptNet { sh: sh.clone(), inner: TokioRuntimeProvider::default() };
        let stream = UdpClientStream::builder(server_addr(), net).with_signer(Some(signer)).with_max_retries(0).build();
        UdpPath { stream, sh, pending: None }
    }
}

// ------------------------------------------------------------------------------------------

pub enum ClientPath {
    Mux(MuxPath),
    Udp(UdpPath),
}

impl ClientPath {
    /// Hand `request` to the transport; returns the signed bytes it put on the wire.
    /// Must be called inside the runtime context.
    pub fn send(&mut self, request: Message) -> Result<Vec<u8>, String> {
        match self {
            ClientPath::Mux(m) => {
                m.pending = None;
                // lets the multiplexer forget the previous (dropped) request
                let _ = cx_noop(|cx| m.mux.poll_next_unpin(cx));
                m.inbox.lock().unwrap().clear();
                let resp = m.mux.send_message(DnsRequest::from(request));
                let out = match cx_noop(|cx| m.outbox.poll_next_unpin(cx)) {
                    Poll::Ready(Some(msg)) => msg.into_parts().0,
                    _ => return Err("the multiplexer did not put a request on the wire".into()),
                };
                m.pending = Some(resp);
                Ok(out)
            }
            ClientPath::Udp(u) => {
                u.pending = None;
                {
                    let mut g = u.sh.lock().unwrap();
                    g.sent.clear();
                    g.inbox.clear();
                    g.waker = None;
                }
                let mut resp = u.stream.send_message(DnsRequest::from(request));
                // first poll: sign, bind, send, then wait for a datagram
                match poll_response(&mut resp) {
                    Delivered::Nothing => {}
                    other => return Err(format!("the UDP client finished before any reply: {other:?}")),
                }
                let out = u.sh.lock().unwrap().sent.last().cloned().ok_or("the UDP client did not send a datagram")?;
                u.pending = Some(resp);
                Ok(out)
            }
        }
    }

    /// Deliver reply bytes from the server's address and report what the caller got.
    pub fn deliver(&mut self, reply: &[u8]) -> Delivered {
        match self {
            ClientPath::Mux(m) => {
                m.inbox.lock().unwrap().push_back(reply.to_vec());
                let _ = cx_noop(|cx| m.mux.poll_next_unpin(cx));
                let d = m.pending.as_mut().map(poll_response).unwrap_or(Delivered::Err("no pending request".into()));
                m.pending = None;
                d
            }
            ClientPath::Udp(u) => {
                let waker = {
                    let mut g = u.sh.lock().unwrap();
                    g.inbox.push_back(reply.to_vec());
                    g.waker.take()
                };
                if let Some(wk) = waker {
                    wk.wake();
                }
                let d = u.pending.as_mut().map(poll_response).unwrap_or(Delivered::Err("no pending request".into()));
                u.pending = None;
                d
            }
        }
    }
}
