//! Part F: the SHAPE of the signed message as a dimension.
//!
//! hickory's own signer always produces one TSIG shape (empty Other Data, error 0, original id =
//! header id, the configured fudge, key name as configured). A verifier has to cope with every
//! shape RFC 8945 allows, so requests and replies are signed here by the INDEPENDENT reference
//! signer `vref::tsig::sign_shaped` (MAC computed by the RFC's rules) with the TSIG variables at
//! non-default values: Other Data of length {0,1,6,16}, error {0, BADTIME}, original id != header
//! id, fudge {0,300,65535}, key name in another case / compressed against the question. For every
//! shape:
//!  * independent-MAC differential: the digest input (and MAC) hickory's signing functions
//!    (`message_tbs`, `TSigner::encode_response_tbs`, `TSigner::sign`) produce for that shape equals
//!    the one written out from RFC 8945 4.3.3 - catches "signer and verifier agree on the wrong
//!    digest" without any tampering;
//!  * completeness: the reference-signed request verifies with `TSigner::verify_message_byte` and (in
//!    window, key configured) takes effect on the real server; the reference-signed reply / second
//!    AXFR envelope is accepted by `TSigVerifier`;
//!  * tamper families: every bit flip, byte substitution, truncation, extension and count edit of the
//!    WHOLE reference-signed message through the server (effect only if the reference accepts), of
//!    the reference-signed reply and of a reference-signed second envelope (timers-only digest)
//!    through a fresh `TSigVerifier`, and of a BADTIME-shaped reply through the real transports.

use super::*;
use hickory_proto::rr::rdata::tsig::{message_tbs, TsigError, TSIG};

#[derive(Clone, Debug, PartialEq, Eq, Hash)]
pub struct Shape {
    pub other_len: usize,
    pub error: u16,
    pub oid_differs: bool,
    pub fudge: u16,
    /// 0 = as configured, 1 = upper case, 2 = compressed against the question (key named `z.`)
    pub name_style: u8,
    /// how the UNSIGNED message is encoded: 0 = by hickory's encoder, n > 0 = by hand in
    /// `vupd::raw::equivalent_layouts()[n-1]` (UPDATE kinds; no compression / compressed against
    /// the zone name / upper case / a record or an OPT in the additional section before the TSIG)
    pub layout: u8,
}

impl Shape {
    pub const DEFAULT: Shape = Shape { other_len: 0, error: 0, oid_differs: false, fudge: 300, name_style: 0, layout: 0 };
    /// The dimensions at a non-default value (goes into finding keys).
    pub fn dims(&self) -> String {
        let mut v = vec![];
        if self.other_len != 0 {
            v.push("other-data");
        }
        if self.error != 0 {
            v.push("error");
        }
        if self.oid_differs {
            v.push("original-id");
        }
        if self.fudge != 300 {
            v.push(if self.fudge == 0 { "fudge=0" } else { "fudge=65535" });
        }
        match self.name_style {
            1 => v.push("key-name-upper-case"),
            2 => v.push("key-name-compressed"),
            _ => {}
        }
        if self.layout != 0 {
            v.push("hand-encoded-layout");
        }
        if v.is_empty() {
            "default-shape".into()
        } else {
            v.join("+")
        }
    }
    pub fn label(&self) -> String {
        let lay = if self.layout == 0 { String::new() } else { format!(" layout={}", vupd::raw::equivalent_layouts()[self.layout as usize - 1].name) };
        format!("other={} error={} oid={} fudge={} name={}{lay}", self.other_len, self.error, if self.oid_differs { "differs" } else { "same" }, self.fudge, ["plain", "upper", "compressed"][self.name_style as usize])
    }
    pub fn var(&self) -> Var {
        Var { key_named_like_zone: self.name_style == 2, ..Var::DEFAULT }
    }
    fn other(&self) -> Vec<u8> {
        (0..self.other_len).map(|i| 0xa0 + i as u8).collect()
    }
    /// The TSIG RR template (MAC empty) for a message with header id `id`.
    pub fn rr(&self, alg: Alg, id: u16) -> rt::TsigRr {
        let mut name = rt::labels_of(k1_name());
        if self.name_style == 1 {
            name = name.iter().map(|l| l.to_ascii_uppercase()).collect();
        }
        rt::TsigRr { name, class: 255, ttl: 0, alg_name: alg.labels(), time: T0, fudge: self.fudge, mac: vec![], orig_id: if self.oid_differs { id ^ 0x5555 } else { id }, error: self.error, other: self.other() }
    }
}

pub fn shapes(thorough: bool) -> Vec<Shape> {
    let d = Shape::DEFAULT;
    let mut v = vec![];
    if thorough {
        for other_len in [0usize, 1, 6, 16] {
            for error in [0u16, 18] {
                for oid_differs in [false, true] {
                    for fudge in [0u16, 300, 65535] {
                        for name_style in [0u8, 1, 2] {
                            v.push(Shape { other_len, error, oid_differs, fudge, name_style, layout: 0 });
                        }
                    }
                }
            }
        }
    } else {
        v.push(d.clone());
        for other_len in [1usize, 6, 16] {
            v.push(Shape { other_len, ..d.clone() });
        }
        v.push(Shape { error: 18, ..d.clone() });
        v.push(Shape { oid_differs: true, ..d.clone() });
        v.push(Shape { fudge: 0, ..d.clone() });
        v.push(Shape { fudge: 65535, ..d.clone() });
        v.push(Shape { name_style: 1, ..d.clone() });
        v.push(Shape { name_style: 2, ..d.clone() });
        // the BADTIME shape of RFC 8945 5.2.3 and everything at once
        v.push(Shape { other_len: 6, error: 18, ..d.clone() });
        v.push(Shape { other_len: 16, error: 18, oid_differs: true, fudge: 65535, name_style: 1, layout: 0 });
        v.push(Shape { other_len: 1, error: 18, oid_differs: true, fudge: 0, name_style: 2, layout: 0 });
    }
    // hand-encoded layouts of the unsigned message: each alone, and with the all-at-once TSIG shape
    for layout in 1..=vupd::raw::equivalent_layouts().len() as u8 {
        v.push(Shape { layout, ..d.clone() });
        v.push(Shape { other_len: 16, error: 18, oid_differs: true, fudge: 65535, name_style: 1, layout });
    }
    v
}

/// The unsigned request of `kind` in the shape's layout.
pub fn unsigned_in_layout(kind: Kind, shape: &Shape) -> Vec<u8> {
    match (shape.layout, kind_msg(kind)) {
        (n, Some(m)) if n > 0 => vupd::raw::encode_update(0x1234, &m, &vupd::raw::equivalent_layouts()[n as usize - 1]),
        _ => unsigned_message(kind).to_vec().expect("encode"),
    }
}

/// Replace the (spelled out) owner name of the trailing TSIG RR by a pointer to the question name.
fn compress_owner(msg: &[u8]) -> Vec<u8> {
    let Ok(s) = rt::split(msg) else { return msg.to_vec() };
    let start = s.tsig_start;
    let Ok((_, end)) = wire::read_name(msg, start) else { return msg.to_vec() };
    let mut b = msg[..start].to_vec();
    b.extend_from_slice(&[0xc0, 12]);
    b.extend_from_slice(&msg[end..]);
    b
}

fn ref_key(alg: Alg) -> Key {
    Key::new(k1_name(), alg, vupd::KEY1)
}

/// The request of `kind`, signed by the reference signer in `shape`.
pub fn ref_request(kind: Kind, alg: Alg, shape: &Shape) -> Vec<u8> {
    let unsigned = unsigned_in_layout(kind, shape);
    let id = u16::from_be_bytes([unsigned[0], unsigned[1]]);
    let signed = rt::sign_shaped(&unsigned, &ref_key(alg), &shape.rr(alg, id), None, false);
    if shape.name_style == 2 {
        compress_owner(&signed)
    } else {
        signed
    }
}

/// A reply to `request` (its echo without TSIG, QR set, NOERROR), signed by the reference signer in
/// `shape`: first message of a response (`prior` = the request MAC) or, with `timers_only`, a later
/// envelope (`prior` = the MAC of the message before).
pub fn ref_reply(request: &[u8], alg: Alg, shape: &Shape, prior: &[u8], timers_only: bool) -> Vec<u8> {
    let s = rt::split(request).expect("signed request");
    let mut unsigned = rt::strip(request, &s);
    unsigned[2] |= 0x80;
    unsigned[3] &= 0xf0;
    let id = u16::from_be_bytes([unsigned[0], unsigned[1]]);
    let signed = rt::sign_shaped(&unsigned, &ref_key(alg), &shape.rr(alg, id), Some(prior), timers_only);
    if shape.name_style == 2 {
        compress_owner(&signed)
    } else {
        signed
    }
}

fn hickory_stub(alg: Alg, shape: &Shape, id: u16) -> TSIG {
    TSIG::new(alg_h(alg), T0, shape.fudge, vec![], id, if shape.error == 0 { None } else { Some(TsigError::from(shape.error)) }, shape.other())
}

fn shape_json(kind: Kind, alg: Alg, shape: &Shape, what: &str, bytes: &[u8]) -> Value {
    json!({"shape_family": what, "kind": kind.name(), "alg": alg_name(alg), "shape": shape.label(), "shape_other_len": shape.other_len, "shape_error": shape.error,
           "shape_oid_differs": shape.oid_differs, "shape_fudge": shape.fudge, "shape_name_style": shape.name_style, "shape_layout": shape.layout, "bytes_hex": hex::enc(bytes)})
}

pub fn shape_from_json(v: &Value) -> Shape {
    Shape {
        other_len: v["shape_other_len"].as_u64().unwrap_or(0) as usize,
        error: v["shape_error"].as_u64().unwrap_or(0) as u16,
        oid_differs: v["shape_oid_differs"].as_bool().unwrap_or(false),
        fudge: v["shape_fudge"].as_u64().unwrap_or(300) as u16,
        name_style: v["shape_name_style"].as_u64().unwrap_or(0) as u8,
        layout: v["shape_layout"].as_u64().unwrap_or(0) as u8,
    }
}

/// Everything of part F for one (kind, shape).
pub fn run_shape(w: &mut Worker, kind: Kind, alg: Alg, shape: &Shape, l: &mut Local) {
    set_var(shape.var());
    let key = ref_key(alg);
    let dims = shape.dims();
    let unsigned_msg = unsigned_message(kind);
    let unsigned = unsigned_msg.to_vec().expect("encode");
    let id = u16::from_be_bytes([unsigned[0], unsigned[1]]);
    let hsigner = vupd::signer(k1_name(), vupd::KEY1, alg_h(alg), shape.fudge);

    // ---- (b) independent-MAC differential (hickory's signing API has original id = header id)
    if !shape.oid_differs && shape.layout == 0 {
        let rr = shape.rr(alg, id);
        let stub = hickory_stub(alg, shape, id);
        let kname = vupd::hname(&if shape.name_style == 1 { k1_name().to_uppercase() } else { k1_name().to_string() });
        l.eval();
        match catch(|| message_tbs(&unsigned_msg, &stub, &kname)) {
            Ok(Ok(tbs)) => {
                let want = rt::shaped_digest_input(&unsigned, &rr, None, false);
                if tbs != want || hsigner.sign(&tbs).ok() != Some(key.mac(&want)) {
                    l.violation(&format!("digest-input-differs-from-rfc8945:request:{dims}"), &format!("message_tbs() digests {} octets, RFC 8945 4.3.3 gives {} (shape {})", tbs.len(), want.len(), shape.label()), || {
                        let mut j = shape_json(kind, alg, shape, "differential", &tbs);
                        j["rfc_digest_input_hex"] = json!(hex::enc(&want));
                        j
                    });
                } else {
                    l.outcome("shape:request-digest-equals-rfc8945");
                }
            }
            _ => l.outcome("shape:hickory-cannot-build-this-request-digest"),
        }
        let prev = [0x77u8; 32];
        l.eval();
        match catch(|| hsigner.encode_response_tbs(&prev, &unsigned, &stub)) {
            Ok(Ok(tbs)) => {
                let want = rt::shaped_digest_input(&unsigned, &rr, Some(&prev), false);
                if tbs != want || hsigner.sign(&tbs).ok() != Some(key.mac(&want)) {
                    l.violation(&format!("digest-input-differs-from-rfc8945:response:{dims}"), &format!("encode_response_tbs() digests {} octets, RFC 8945 4.3.3 gives {} (shape {})", tbs.len(), want.len(), shape.label()), || {
                        let mut j = shape_json(kind, alg, shape, "differential", &tbs);
                        j["rfc_digest_input_hex"] = json!(hex::enc(&want));
                        j
                    });
                } else {
                    l.outcome("shape:response-digest-equals-rfc8945");
                }
            }
            _ => l.outcome("shape:hickory-cannot-build-this-response-digest"),
        }
    }

    // ---- completeness + tamper family on the server side
    let req = ref_request(kind, alg, shape);
    debug_assert!(rt::verify_request(&req, std::slice::from_ref(&key), T0).is_ok());
    l.eval();
    match catch(|| hsigner.verify_message_byte(&req, None, true).is_ok()) {
        Ok(true) => l.outcome("shape:reference-signed-request-verifies"),
        Ok(false) => l.violation(&format!("reference-signed-request-mac-rejected:{dims}"), &format!("TSigner::verify_message_byte rejects a request signed by the RFC 8945 reference signer (shape {})", shape.label()), || shape_json(kind, alg, shape, "completeness", &req)),
        Err(p) => l.violation(&panic_key("verify", &p.msg, &p.loc), &format!("verify_message_byte panicked on a reference-signed request (shape {}): {}", shape.label(), p.msg), || shape_json(kind, alg, shape, "completeness", &req)),
    }
    let mut ms = vec![Mutant { class: "identity(valid)".into(), bytes: req.clone() }];
    byte_mutants(&req, &mut ms);
    let policy = 2u8;
    let before_effects = l.outcomes.get("reference-accepts:took-effect").cloned().unwrap_or(0);
    for (mi, m) in ms.iter().enumerate() {
        let c = Case { kind, alg, fudge: shape.fudge, time: T0, now: T0, ks: 0, policy, class: format!("shape[{}]:{}", shape.label(), m.class), bytes: m.bytes.clone(), var: shape.var() };
        run_case(w, &c, l);
        if mi == 0 && shape.fudge >= 1 {
            // in window, key configured, MAC by the RFC's rules: the request has to take effect
            let after = l.outcomes.get("reference-accepts:took-effect").cloned().unwrap_or(0);
            if after == before_effects {
                l.violation(&format!("reference-signed-request-not-accepted:{dims}"), &format!("the server does not act on a request signed by the RFC 8945 reference signer, in window, key configured (shape {})", shape.label()), || c.json());
            } else {
                l.outcome("shape:reference-signed-request-takes-effect");
            }
        }
    }

    if shape.layout != 0 {
        // a hand-encoded layout only changes the unsigned request: the rest is the layout-0 family
        set_var(Var::DEFAULT);
        return;
    }

    // ---- the same shape signed through hickory's OWN signing functions (TSIG::new + message_tbs +
    // TSigner::sign): signer and verifier share their digest code, so only tampering shows a
    // component both leave out
    if !shape.oid_differs {
        let stub = hickory_stub(alg, shape, id);
        let kname = vupd::hname(k1_name());
        if let Ok(Ok(tbs)) = catch(|| message_tbs(&unsigned_msg, &stub, &kname)) {
            if let Ok(mac) = hsigner.sign(&tbs) {
                let mut rr = shape.rr(alg, id);
                rr.mac = mac;
                let mut hk = rt::attach(&unsigned, &rr);
                if shape.name_style == 2 {
                    hk = compress_owner(&hk);
                }
                let mut ms = vec![Mutant { class: "identity".into(), bytes: hk.clone() }];
                byte_mutants(&hk, &mut ms);
                for m in &ms {
                    let c = Case { kind, alg, fudge: shape.fudge, time: T0, now: T0, ks: 0, policy, class: format!("hickory-signed-shape[{}]:{}", shape.label(), m.class), bytes: m.bytes.clone(), var: shape.var() };
                    l.outcome("shape:hickory-signed-tamper-case");
                    run_case(w, &c, l);
                }
            }
        }
    }

    // ---- client side: reference-signed reply and second envelope through a fresh TSigVerifier
    set_var(shape.var());
    let hreq = honest(kind, alg, 300, T0);
    let req_mac = rt::split(&hreq).map(|s| s.tsig.mac).unwrap_or_default();
    let kscene = if kind.is_update() { "update" } else { "axfr" };
    // first message of the response
    let reply = ref_reply(&hreq, alg, shape, &req_mac, false);
    // a second envelope after an ordinary first one
    let first = ref_reply(&hreq, alg, &Shape { name_style: shape.name_style, ..Shape::DEFAULT }, &req_mac, false);
    let first_mac = rt::split(&first).map(|s| s.tsig.mac).unwrap_or_default();
    let second = ref_reply(&hreq, alg, shape, &first_mac, true);
    for (family, base, chained) in [("reply", &reply, false), ("second-envelope", &second, true)] {
        let reg = Regions::of(base);
        for r in recipes(base.len()) {
            let Some((class, bytes)) = apply_recipe(&r, base, &hreq, &reg) else { continue };
            l.eval();
            let mut v = client_verifier(kind, alg, 300, T0);
            let got = catch(|| {
                if chained && v.verify(&first).is_err() {
                    return None;
                }
                Some(v.verify(&bytes).is_ok())
            });
            let want = if chained { rt::verify_subsequent(&bytes, &key, T0, &first_mac) } else { rt::verify_response(&bytes, &key, T0, &req_mac) };
            let wit = || {
                let mut j = shape_json(kind, alg, shape, family, &bytes);
                j["reply_mutation"] = json!(class);
                j["request_hex"] = json!(hex::enc(&hreq));
                if chained {
                    j["first_envelope_hex"] = json!(hex::enc(&first));
                }
                j
            };
            match got {
                Err(p) => l.violation(&panic_key("client", &p.msg, &p.loc), &format!("the client-side verifier panicked on a {family} ({class}, shape {}): {}", shape.label(), p.msg), wit),
                Ok(None) => l.violation("reference-signed-first-envelope-rejected-by-client-verifier", "TSigVerifier rejects an ordinary reference-signed first envelope", wit),
                Ok(Some(true)) if want.is_err() => l.violation(
                    &format!("modified-{family}-accepted:{kscene}:{}", key_scene(&class)),
                    &format!("the client-side TSigVerifier accepts a modified {family} ({class}; shape {}) that the reference verifier rejects: {want:?}", shape.label()),
                    wit,
                ),
                Ok(Some(true)) => l.outcome(&format!("shape:{family}-mutant:accepted-by-both")),
                Ok(Some(false)) if class == "identity" && shape.fudge >= 1 => l.violation(
                    &format!("reference-signed-{family}-rejected-by-client-verifier:{dims}"),
                    &format!("TSigVerifier rejects a {family} signed by the RFC 8945 reference signer (shape {})", shape.label()),
                    wit,
                ),
                Ok(Some(false)) => l.outcome(&format!("shape:{family}-mutant:rejected")),
            }
        }
    }
    set_var(Var::default());
}
