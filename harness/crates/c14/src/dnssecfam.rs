//! Audit round, knob `is_dnssec_enabled = true`: a journal-backed zone that is SIGNED.
//!
//! What the server binary does (bin/src/config, bin/src/dnssec.rs `load_keys`): build the handler
//! with `enable_dnssec`, attach the journal and persist the zone (first start) or recover from
//! the journal (later starts), THEN add the zone signing key and call `secure_zone()` - which
//! re-signs and bumps the serial, without journaling. Every accepted update then runs
//! `secure_zone()` inside `update_records` (the other arm of the serial bump) and journals the SOA
//! it produced. Because every start bumps the serial once more, "the state as of a message
//! boundary" cannot be compared serial for serial; judged here, at every message boundary of
//! every history of <= 2 (quick) / <= 3 (thorough) events:
//!  * recovery (+ load_keys) succeeds;
//!  * the recovered content (without RRSIG / NSEC / DNSKEY, which every start re-derives) is the live content
//!    at that boundary;
//!  * the recovered serial is not below (RFC 1982) any serial the first life had answered with;
//!  * one further event gives the same rcode and the same content as on the never-stopped handler.
//! Stops inside a message are the other families' (the row sequence is the same code).
//! KINDS part (seed C14-4): the replay context differs from the live one - replay runs BEFORE the
//! keys are loaded, so it sees no NSEC / RRSIG RRsets where the live zone has them at every name.
//! Every kind of `vupd::kinds` (incl. CNAME re-target, host -> CNAME and CNAME -> host in one
//! message) as single event and as ordered pair on the kinds zone, signed with NSEC and with NSEC3:
//! the whole unsigned content after a restart at every message boundary must be the live content.

use std::time::Duration;

use hickory_proto::dnssec::crypto::Ed25519SigningKey;
use hickory_proto::dnssec::rdata::DNSKEY;
use hickory_proto::dnssec::{DnssecSigner, SigningKey};
use hickory_server::dnssec::NxProofKind;
use hickory_server::store::in_memory::InMemoryZoneHandler;
use hickory_server::zone_handler::{DnssecZoneHandler, ZoneType};
use vsim::SimProvider;

use super::*;

pub fn zone_signer() -> DnssecSigner {
    let seed = [0x5au8; 32];
    let kp = ring::signature::Ed25519KeyPair::from_seed_unchecked(&seed).expect("ed25519 seed");
    let k: Box<dyn SigningKey> = Box::new(Ed25519SigningKey::from_ed25519(kp));
    let pk = k.to_public_key().expect("public key");
    DnssecSigner::new(DNSKEY::from_key(&pk), k, vupd::hname(vupd::ORIGIN), Duration::from_secs(86400))
}

/// Types every start derives again from the configured keys: RRSIG, NSEC, NSEC3, NSEC3PARAM and the
/// DNSKEY RRset (its TTL follows the SOA minimum at the time of the start).
thread_local! {
    /// the zone of the current history is signed with NSEC3 (salt abcd, 2 iterations) instead of NSEC
    static NSEC3: std::cell::Cell<bool> = const { std::cell::Cell::new(false) };
}

fn nx_kind() -> NxProofKind {
    if NSEC3.with(|c| c.get()) {
        NxProofKind::Nsec3 { algorithm: Default::default(), salt: vec![0xab, 0xcd].into(), iterations: 2, opt_out: false }
    } else {
        NxProofKind::Nsec
    }
}

fn derived(t: u16) -> bool {
    matches!(t, 46 | 47 | 48 | 50 | 51)
}

struct DLife {
    env: Arc<Env>,
    /// per event: (rcode, content without derived types, real serial, answered serial, durable rows)
    acks: Vec<(Option<u8>, std::collections::BTreeSet<Rr>, Option<u32>, Option<u32>, usize)>,
}

fn content(w: &Worker, env: &Env) -> (std::collections::BTreeSet<Rr>, Option<u32>) {
    let mut s = w.rt.block_on(env.snapshot());
    s.rrs.retain(|r| !derived(r.rtype));
    s.empty_keys.retain(|(_, t)| !derived(*t));
    (s.content(), s.serial())
}

/// load_keys(): add the key, sign.
fn load_keys(w: &Worker, h: &Handler) -> Result<(), String> {
    w.rt.block_on(async {
        h.add_zone_signing_key(zone_signer()).await.map_err(|e| format!("add_zone_signing_key: {e}"))?;
        h.secure_zone().await.map_err(|e| format!("secure_zone: {e}"))
    })
}

impl DLife {
    fn start(w: &Worker, store: &Rc<Store>, zone: Option<&[Rr]>, rows: &[JournalRow]) -> Result<DLife, String> {
        let serial = zone.and_then(|z| z.iter().find(|r| r.rtype == ru::T_SOA)).and_then(|r| ru::soa_serial(&r.rdata)).unwrap_or(0);
        let mut z = InMemoryZoneHandler::<SimProvider>::empty(vupd::hname(vupd::ORIGIN), ZoneType::Primary, AxfrPolicy::AllowAll, Some(nx_kind()));
        for rr in zone.unwrap_or(&[]) {
            z.upsert_mut(vupd::to_record(rr), serial);
        }
        let mut h = Handler::new(z, AxfrPolicy::AllowAll, true, true);
        h.set_tsig_signers(vec![w.signer.clone()]);
        let journal = store.journal_with(rows);
        if zone.is_some() {
            w.rt.block_on(h.set_journal(journal));
            w.rt.block_on(h.persist_to_journal()).map_err(|e| format!("persist_to_journal: {e}"))?;
        } else {
            catch(|| w.rt.block_on(h.recover_with_journal(&journal))).map_err(|p| format!("panic:{}", p.msg))?.map_err(|e| format!("recover_with_journal: {e}"))?;
            w.rt.block_on(h.set_journal(journal));
        }
        catch(|| load_keys(w, &h)).map_err(|p| format!("panic:{}", p.msg))??;
        let env = Arc::new(Env::from_handler(h));
        let (c, s) = content(w, &env);
        let answered = answered_serial(&env);
        let durable = store.durable();
        Ok(DLife { env, acks: vec![(None, c, s, answered, durable)] })
    }

    fn apply(&mut self, w: &Worker, store: &Rc<Store>, t: &MsgT) -> Result<(), String> {
        let cur = self.acks.last().unwrap().2.unwrap_or(0);
        if t.persist {
            catch(|| w.rt.block_on(self.env.h.persist_to_journal())).map_err(|p| format!("panic:{}", p.msg))?.map_err(|e| e.to_string())?;
            let (c, s) = content(w, &self.env);
            self.acks.push((None, c, s, answered_serial(&self.env), store.durable()));
            return Ok(());
        }
        let bytes = vupd::signed_update(300 + self.acks.len() as u16, &(t.build)(cur), &w.signer, vupd::NOW);
        let env = self.env.clone();
        let r = catch(|| w.rt.block_on(env.exchange(&bytes))).map_err(|p| format!("panic:{}", p.msg))??;
        let (c, s) = content(w, &self.env);
        self.acks.push((Some(r.rcode), c, s, answered_serial(&self.env), store.durable()));
        Ok(())
    }
}

pub const DNSSEC_ALPHABET: [&str; 8] = [
    "add b.z A1",
    "replace a.z A: delete RRset, add A2",
    "delete name b.z",
    "replace SOA serial cur+10",
    "rejected: prereq b.z in use, add b.z TXT",
    "no-op: delete RRset a.a.z A",
    "add SOA at a non-apex name",
    "re-persist: dump the zone into the existing journal again",
];

pub fn histories(alpha: &[MsgT], max: usize) -> Vec<Vec<usize>> {
    let idx: Vec<usize> = DNSSEC_ALPHABET.iter().map(|n| alpha.iter().position(|m| m.name == *n).unwrap_or_else(|| panic!("no event {n}"))).collect();
    let mut v = vec![vec![]];
    v.extend(seqs(idx.len(), max).into_iter().map(|s| s.into_iter().map(|i| idx[i]).collect::<Vec<usize>>()));
    v
}

/// The events of the KINDS part of this family: every update-RR kind of `vupd::kinds` (incl. CNAME
/// re-target, host -> CNAME and CNAME -> host in one message) on the kinds zone.
pub fn kinds_events(alpha: &[MsgT]) -> Vec<usize> {
    (FIRST_KIND..alpha.len()).collect()
}

/// The kinds crossed pairwise in the quick tier (thorough: all of them): everything that touches
/// a CNAME or removes / adds the data a CNAME competes with, and the SOA replacement.
pub const QUICK_PAIR_KINDS: [&str; 8] = [
    "re-target an existing CNAME",
    "add a CNAME at a new name",
    "replace a host's A RRset by a CNAME in one message",
    "replace a CNAME by an A RR in one message",
    "add CNAME over existing data",
    "add data over an existing CNAME",
    "delete an RRset (class ANY)",
    "replace the apex SOA (higher serial)",
];

pub fn run(w: &mut Worker, alpha: &[MsgT], zone: &[Rr], zone_name: &str, hist: &[usize], nsec3: bool, with_cont: bool, l: &mut Local) {
    NSEC3.with(|c| c.set(nsec3));
    run_inner(w, alpha, zone, zone_name, hist, nsec3, with_cont, l);
    NSEC3.with(|c| c.set(false));
}

fn run_inner(w: &mut Worker, alpha: &[MsgT], zone: &[Rr], zone_name: &str, hist: &[usize], nsec3: bool, with_cont: bool, l: &mut Local) {
    let case = |k: Option<usize>, cont: Option<usize>| json!({"dnssec_family": true, "dnssec_zone": zone_name, "nsec3": nsec3, "with_continuations": with_cont, "history": hist, "history_text": hist.iter().map(|i| alpha[*i].name).collect::<Vec<_>>(), "k": k, "continuation": cont.map(|c| vec![c]).unwrap_or_default()});
    let store1 = w.stores[0].clone();
    let store2 = w.stores[1].clone();
    l.eval();
    let mut life = match DLife::start(w, &store1, Some(zone), &[]) {
        Ok(x) => x,
        Err(e) => {
            l.violation("dnssec:first-start-failed", &e, || case(None, None));
            return;
        }
    };
    for i in hist {
        if let Err(e) = life.apply(w, &store1, &alpha[*i]) {
            l.violation(&format!("dnssec:crash-free-run-failed:{}", if e.starts_with("panic") { "panic" } else { "no-reply" }), &e, || case(None, None));
            return;
        }
    }
    let rows = w.rt.block_on(life.env.journal_rows());
    let idx: Vec<usize> = DNSSEC_ALPHABET.iter().filter_map(|n| alpha.iter().position(|m| m.name == *n)).collect();
    for j in 0..life.acks.len() {
        let k = life.acks[j].4;
        if j + 1 < life.acks.len() && life.acks[j + 1].4 == k {
            // the next event wrote nothing: the same journal, judged at the later boundary
            continue;
        }
        l.eval();
        let rec = DLife::start(w, &store2, None, &rows[..k]);
        let rec = match rec {
            Ok(r) => r,
            Err(e) => {
                l.violation(&format!("dnssec:recovery-failed:{}", if e.starts_with("panic") { "panic" } else { "error" }), &format!("restart from the {k} rows durable after event {j} failed: {e}"), || case(Some(k), None));
                continue;
            }
        };
        let (_, rc, rs, _, _) = &rec.acks[0];
        if *rc != life.acks[j].1 {
            // which RR types differ goes into the key (an apex SOA difference is the unjournaled
            // start-up serial bump showing; anything else is another matter)
            let mut types: Vec<String> = rc.symmetric_difference(&life.acks[j].1).map(|r| vupd::type_name(r.rtype)).collect();
            types.sort();
            types.dedup();
            l.violation(
                &format!("dnssec:boundary-state-wrong:content[{}]", types.join(",")),
                &format!("restart after event {j} ({k} rows): recovered {:?}, the live zone was {:?}", rc.iter().map(vupd::rr_text).collect::<Vec<_>>(), life.acks[j].1.iter().map(vupd::rr_text).collect::<Vec<_>>()),
                || case(Some(k), None),
            );
            continue;
        }
        l.outcome(if nsec3 { "dnssec:nsec3:boundary-content-recovered" } else { "dnssec:boundary-content-recovered" });
        if j > 0 {
            l.nontrivial(vupd::digest(&("dnssec", hist, k)));
        }
        match rs {
            None => l.violation("dnssec:recovered-zone-without-soa", "no SOA after the restart", || case(Some(k), None)),
            Some(rser) => {
                for a in life.acks.iter().take(j + 1) {
                    if let Some(ans) = a.3 {
                        if ru::serial_cmp(*rser, ans) == ru::SerialOrd::Less {
                            l.violation("dnssec:serial-below-answered:k-at-message-boundary", &format!("serial {rser} after the restart at event {j} is lower than {ans}, which the server had answered with"), || case(Some(k), None));
                            break;
                        }
                    }
                }
            }
        }
        drop(rec);
        // one further event: the restarted handler vs. the never-stopped one in the same state
        if hist.len() > 2 || !with_cont {
            continue;
        }
        for c in &idx {
            l.eval();
            let mut a = match DLife::start(w, &store2, None, &rows[..k]) {
                Ok(x) => x,
                Err(_) => break,
            };
            // the never-stopped handler: the history up to j again, on the third store
            let store3 = w.stores[2].clone();
            let Ok(mut b) = DLife::start(w, &store3, Some(zone), &[]) else { break };
            let mut ok = true;
            for i in &hist[..j] {
                ok &= b.apply(w, &store3, &alpha[*i]).is_ok();
            }
            if !ok {
                break;
            }
            let (ra, rb) = (a.apply(w, &store2, &alpha[*c]), b.apply(w, &store3, &alpha[*c]));
            match (ra, rb) {
                (Ok(()), Ok(())) => {
                    let (x, y) = (a.acks.last().unwrap(), b.acks.last().unwrap());
                    let adv = |l0: &DLife| {
                        let n = l0.acks.len();
                        (l0.acks[n - 1].1 != l0.acks[n - 2].1, l0.acks[n - 1].2 != l0.acks[n - 2].2)
                    };
                    if x.0 != y.0 || x.1 != y.1 || adv(&a) != adv(&b) {
                        l.violation(
                            &format!("dnssec:continuation-diverges:{}", if x.0 != y.0 { "rcode" } else if x.1 != y.1 { "content" } else { "serial-advance" }),
                            &format!("after a restart at event {j}, '{}' gives rcode {:?} and {:?}; never stopped: rcode {:?} and {:?}", alpha[*c].name, x.0, x.1.iter().map(vupd::rr_text).collect::<Vec<_>>(), y.0, y.1.iter().map(vupd::rr_text).collect::<Vec<_>>()),
                            || case(Some(k), Some(*c)),
                        );
                    } else {
                        l.outcome("dnssec:continuation-step-agrees");
                    }
                }
                (ra, rb) => {
                    if ra.is_err() != rb.is_err() {
                        l.violation("dnssec:continuation-failed", &format!("'{}' after a restart: {ra:?}; never stopped: {rb:?}", alpha[*c].name), || case(Some(k), Some(*c)));
                    }
                }
            }
        }
    }
}
