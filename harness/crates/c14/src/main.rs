//! C14 — journal-backed zones survive a stop at any point.
//!
//! E-FAULT. One "life" of a server = a real `SqliteZoneHandler` with a file-backed SQLite journal
//! (tmpfs), fed signed UPDATE messages through the real `Catalog`. While it runs, a second
//! read-only SQLite connection is asked at EVERY journal write point (hook point
//! "journal_insert_record") and at every acknowledgement how many rows are durable (committed and
//! visible to another connection). Every distinct durable row count k seen at a point where the
//! process may stop is a crash point: a fresh journal holding exactly the first k rows is
//! recovered with the real `recover_with_journal` (what `try_from_config` does) and compared with
//! the crash-free run: recovered zone = a whole-message boundary state (the state before or after
//! the in-flight message), serial not lower than any serial answered before the stop (SOA
//! queries after every message and in-flight at every journal write point), recovery Ok, and every
//! continuation on the recovered handler behaves like on the never-crashed handler in that
//! state; thorough: second crash inside the continuation.

mod dnssecfam;

use std::cell::RefCell;
use std::collections::HashMap;
use std::future::Future;
use std::path::PathBuf;
use std::rc::Rc;
use std::sync::Arc;
use std::task::{Context, Poll, Waker};

use hickory_proto::rr::{RecordType, TSigner};
use hickory_server::store::sqlite::Journal;
use hickory_server::zone_handler::AxfrPolicy;
use serde_json::{json, Value};
use vcore::{catch, Ctx, Local};
use vref::update as ru;
use vupd::{a, cname, empty, ns, soa, txt, with_class, Env, Handler, JournalRow, Msg, Rr, Snap};

// ------------------------------------------------------------------------------------------
// alphabet

#[derive(Clone, Copy)]
struct MsgT {
    name: &'static str,
    build: fn(u32) -> Msg,
    /// not an UPDATE: `persist_to_journal()` is called again on the running handler (a second
    /// full dump, AXFR marker first, into the existing journal)
    persist: bool,
}

/// Index of the re-persist event in the alphabet (used only by its own slice of histories).
const RE_PERSIST: usize = 12;
/// The kinds of `vupd::kinds` follow the 13 hand-made events.
const FIRST_KIND: usize = 13;
/// Start zone of the kinds family (index into `start_zones`).
const KINDS_ZONE: usize = 8;

fn upd(us: Vec<Rr>) -> Msg {
    Msg { prereqs: vec![], updates: us }
}

fn alphabet() -> Vec<MsgT> {
    vec![
        MsgT { name: "add b.z A1", build: |_| upd(vec![a("b.z.", 60, 1)]), persist: false },
        MsgT { name: "add b.z A1,A2", build: |_| upd(vec![a("b.z.", 60, 1), a("b.z.", 60, 2)]), persist: false },
        MsgT { name: "add a.z A2; a.z TXT; b.z A1", build: |_| upd(vec![a("a.z.", 60, 2), txt("a.z.", 60, "t"), a("b.z.", 60, 1)]), persist: false },
        MsgT { name: "delete RR a.z A1", build: |_| upd(vec![with_class(a("a.z.", 0, 1), ru::CLASS_NONE)]), persist: false },
        MsgT { name: "replace a.z A: delete RRset, add A2", build: |_| upd(vec![empty("a.z.", ru::T_A, ru::CLASS_ANY, 0), a("a.z.", 60, 2)]), persist: false },
        MsgT { name: "delete name b.z", build: |_| upd(vec![empty("b.z.", ru::T_ANY, ru::CLASS_ANY, 0)]), persist: false },
        MsgT {
            name: "rejected: prereq b.z in use, add b.z TXT",
            build: |_| Msg { prereqs: vec![empty("b.z.", ru::T_ANY, ru::CLASS_ANY, 0)], updates: vec![txt("b.z.", 60, "t")] },
            persist: false,
        },
        MsgT { name: "no-op: delete RRset a.a.z A", build: |_| upd(vec![empty("a.a.z.", ru::T_A, ru::CLASS_ANY, 0)]), persist: false },
        MsgT { name: "replace SOA serial cur+10", build: |cur| upd(vec![soa("z.", 60, cur.wrapping_add(10), 2)]), persist: false },
        MsgT { name: "add b.z CNAME a.z", build: |_| upd(vec![cname("b.z.", 60, "a.z.")]), persist: false },
        MsgT { name: "move b.z A1 -> A2", build: |_| upd(vec![with_class(a("b.z.", 0, 1), ru::CLASS_NONE), a("b.z.", 60, 2)]), persist: false },
        MsgT { name: "add z NS n2", build: |_| upd(vec![ns("z.", 60, "n2.o.")]), persist: false },
        MsgT { name: "re-persist: dump the zone into the existing journal again", build: |_| upd(vec![]), persist: true },
    ]
    .into_iter()
    // every update-RR kind the live handler treats specially (shared list, see vupd::kinds)
    .chain(vupd::kinds::all().into_iter().map(|k| MsgT { name: k.name, build: k.build, persist: false }))
    .collect()
}

fn start_zones(thorough: bool) -> Vec<(&'static str, Vec<Rr>)> {
    let z3 = vec![soa("z.", 60, 5, 1), ns("z.", 60, "n1.o."), a("a.z.", 60, 1)];
    let mut z6 = z3.clone();
    z6.extend([a("a.z.", 60, 2), a("b.z.", 60, 1), txt("a.a.z.", 60, "t")]);
    let _ = thorough;
    let mut v = vec![("zone3", z3), ("zone6", z6)];
    // serial regimes: histories of <= 3 effective updates cross 2^31 and the 2^32 wrap and pass
    // through serial 0
    for (name, s) in [
        ("zone3:serial=0", 0u32),
        ("zone3:serial=1", 1),
        ("zone3:serial=2^31-1", (1u32 << 31) - 1),
        ("zone3:serial=2^31", 1u32 << 31),
        ("zone3:serial=2^32-2", u32::MAX - 1),
        ("zone3:serial=2^32-1", u32::MAX),
    ] {
        v.push((name, vec![soa("z.", 60, s, 1), ns("z.", 60, "n1.o."), a("a.z.", 60, 1)]));
    }
    v.push(("kinds-zone", vupd::kinds::kinds_zone(5)));
    v
}

/// Indices of the first serial-regime start zone and of the messages used from those zones (a
/// reduced alphabet: three messages that are effective one after the other, the SOA replacement
/// and a two-row move).
const FIRST_SERIAL_ZONE: usize = 2;
const SERIAL_ZONE_ALPHABET: [usize; 5] = [0, 4, 5, 8, 10];

fn zone_alphabet(zone: usize, n: usize) -> Vec<usize> {
    if zone == KINDS_ZONE {
        return (FIRST_KIND..n).collect();
    }
    if zone >= FIRST_SERIAL_ZONE {
        SERIAL_ZONE_ALPHABET.to_vec()
    } else {
        (0..n).filter(|i| *i != RE_PERSIST && *i < FIRST_KIND).collect()
    }
}

/// The messages tried as continuation on a recovered handler (the history alphabet, except for
/// the kinds zone: one kind of every class).
fn cont_alphabet(zone: usize, n: usize, alpha: &[MsgT]) -> Vec<usize> {
    if zone != KINDS_ZONE {
        return zone_alphabet(zone, n);
    }
    let pick = ["add SOA at a non-apex name", "delete the apex NS RRset", "add an RR", "delete an RR (class NONE)", "replace the apex SOA (higher serial)", "ignored non-apex SOA add, then an effective add"];
    (FIRST_KIND..n).filter(|i| pick.contains(&alpha[*i].name)).collect()
}

// ------------------------------------------------------------------------------------------
// journal store on tmpfs + durable-row observer

struct Store {
    path: PathBuf,
    ro: rusqlite::Connection,
    /// a second writer: while it holds a write transaction the handler's next INSERT fails with
    /// SQLITE_BUSY at once (journal write error fault)
    rw: rusqlite::Connection,
}

impl Store {
    fn open(dir: &std::path::Path, name: &str) -> Store {
        let path = dir.join(name);
        let _ = std::fs::remove_file(&path);
        drop(Journal::from_file(&path).expect("create journal file"));
        let ro = rusqlite::Connection::open_with_flags(&path, rusqlite::OpenFlags::SQLITE_OPEN_READ_ONLY).expect("read-only connection");
        let rw = rusqlite::Connection::open(&path).expect("second writer");
        rw.busy_timeout(std::time::Duration::ZERO).expect("busy timeout");
        Store { path, ro, rw }
    }
    fn block_writes(&self) {
        self.rw.execute_batch("BEGIN IMMEDIATE").expect("take the write lock");
    }
    fn unblock_writes(&self) {
        self.rw.execute_batch("ROLLBACK").expect("release the write lock");
    }
    /// A journal on this store's file holding exactly `rows` (a disk image after a stop).
    fn journal_with(&self, rows: &[JournalRow]) -> Journal {
        let j = Journal::from_file(&self.path).expect("open journal file");
        {
            let c = j.conn();
            // a locked database is reported to the server at once instead of after 5 s of retries
            c.busy_timeout(std::time::Duration::ZERO).expect("busy timeout");
            // keep SQLite's rollback journal in memory and do not fsync: the check never kills the
            // process, a "stop" is what the second connection sees committed (saves two file
            // creations and an fsync per row on tmpfs; commits stay atomic and visible as before)
            c.execute_batch("PRAGMA journal_mode=MEMORY; PRAGMA synchronous=OFF;").expect("pragmas");
            c.execute_batch("BEGIN; DELETE FROM records;").expect("clear");
            for r in rows {
                c.execute("INSERT INTO records (client_id, soa_serial, timestamp, record) VALUES (?1,?2,?3,?4)", rusqlite::params![r.0, r.1, r.2, r.3])
                    .expect("insert row");
            }
            c.execute_batch("COMMIT;").expect("commit");
        }
        j
    }
    /// As `journal_with`, with explicit rowids (None = assigned by SQLite).
    fn journal_with_ids(&self, rows: &[(Option<i64>, JournalRow)]) -> Journal {
        let j = Journal::from_file(&self.path).expect("open journal file");
        {
            let c = j.conn();
            c.busy_timeout(std::time::Duration::ZERO).expect("busy timeout");
            // keep SQLite's rollback journal in memory and do not fsync: the check never kills the
            // process, a "stop" is what the second connection sees committed (saves two file
            // creations and an fsync per row on tmpfs; commits stay atomic and visible as before)
            c.execute_batch("PRAGMA journal_mode=MEMORY; PRAGMA synchronous=OFF;").expect("pragmas");
            c.execute_batch("BEGIN; DELETE FROM records;").expect("clear");
            for (id, r) in rows {
                match id {
                    Some(id) => c.execute("INSERT INTO records (_rowid_, client_id, soa_serial, timestamp, record) VALUES (?1,?2,?3,?4,?5)", rusqlite::params![id, r.0, r.1, r.2, r.3]),
                    None => c.execute("INSERT INTO records (client_id, soa_serial, timestamp, record) VALUES (?1,?2,?3,?4)", rusqlite::params![r.0, r.1, r.2, r.3]),
                }
                .expect("insert row");
            }
            c.execute_batch("COMMIT;").expect("commit");
        }
        j
    }
    /// Rows another connection can see right now = rows that survive a stop right now.
    fn durable(&self) -> usize {
        self.ro.query_row("SELECT count(*) FROM records", [], |r| r.get::<_, i64>(0)).expect("count") as usize
    }
}

#[derive(Clone, Debug)]
struct Point {
    durable: usize,
    inflight_serial: Option<u32>,
}

struct ObsState {
    store: Rc<Store>,
    env: Option<Arc<Env>>,
    points: Vec<Point>,
    /// the journal write at this point index (within the current message) fails
    fail_at: Option<usize>,
    blocked: bool,
}

thread_local! {
    static OBS: RefCell<Option<ObsState>> = const { RefCell::new(None) };
}

fn poll_once<F: Future>(f: F) -> Option<F::Output> {
    let mut f = std::pin::pin!(f);
    let mut cx = Context::from_waker(Waker::noop());
    match f.as_mut().poll(&mut cx) {
        Poll::Ready(v) => Some(v),
        Poll::Pending => None,
    }
}

fn soa_serial_of(reply: &vupd::Reply) -> Option<u32> {
    reply.answers.iter().find(|r| r.rtype == ru::T_SOA).and_then(|r| ru::soa_serial(&r.rdata))
}

/// A SOA query answered by the real catalog right now (also from inside a journal write point).
fn answered_serial(env: &Env) -> Option<u32> {
    let q = vupd::query_bytes(9, vupd::ORIGIN, RecordType::SOA);
    poll_once(env.exchange(&q)).and_then(|r| r.ok()).and_then(|r| soa_serial_of(&r))
}

fn on_point(name: &'static str) {
    if name != "journal_insert_record" {
        return;
    }
    OBS.with(|o| {
        let (store, env) = {
            let g = o.borrow();
            match g.as_ref() {
                Some(s) => (s.store.clone(), s.env.clone()),
                None => return,
            }
        };
        let durable = store.durable();
        let inflight_serial = env.and_then(|e| answered_serial(&e));
        if let Some(s) = o.borrow_mut().as_mut() {
            if s.fail_at == Some(s.points.len()) && !s.blocked {
                s.store.block_writes();
                s.blocked = true;
            }
            s.points.push(Point { durable, inflight_serial });
        }
    });
}

// ------------------------------------------------------------------------------------------
// one life

#[derive(Clone, Debug)]
struct Ack {
    durable: usize,
    rcode: Option<u8>,
    snap: Snap,
    answered: Option<u32>,
    /// journal write points seen while this message (or the initial persist) was processed
    points: Vec<Point>,
    /// the event was a re-persist (second dump), not an UPDATE
    persist: bool,
}

struct Life {
    env: Arc<Env>,
    store: Rc<Store>,
    /// acks[0] = the start of the life (after persist / after recovery)
    acks: Vec<Ack>,
    recovery: Option<Result<(), String>>,
}

struct Worker {
    rt: tokio::runtime::Runtime,
    signer: TSigner,
    stores: Vec<Rc<Store>>,
    /// crash-free behaviour cache: (zone id, history digest) -> per-message (rcode, content+serial digest)
    cache: HashMap<u64, Vec<(Option<u8>, u64)>>,
}

fn tmp_root() -> PathBuf {
    let base = if std::path::Path::new("/dev/shm").is_dir() { PathBuf::from("/dev/shm") } else { std::env::temp_dir() };
    base.join(format!("verif-c14-{}", std::process::id()))
}

impl Worker {
    fn new(id: usize) -> Worker {
        vsim::reset_clocks(vupd::NOW);
        hickory_proto::verif::set_point_callback(Some(on_point));
        let dir = tmp_root().join(format!("w{id}"));
        std::fs::create_dir_all(&dir).expect("tmp dir");
        let stores = (0..6).map(|i| Rc::new(Store::open(&dir, &format!("life{i}.db")))).collect();
        Worker { rt: vsim::rt(), signer: vupd::signer1(), stores, cache: HashMap::new() }
    }
}

fn cs_digest(s: &Snap) -> u64 {
    vupd::digest(&(s.content(), s.serial()))
}

fn same_state(x: &Snap, y: &Snap) -> bool {
    x.serial() == y.serial() && x.content() == y.content()
}

impl Life {
    fn observe<T>(store: &Rc<Store>, env: Option<Arc<Env>>, f: impl FnOnce() -> T) -> (T, Vec<Point>) {
        Life::observe_failing(store, env, None, f)
    }

    fn observe_failing<T>(store: &Rc<Store>, env: Option<Arc<Env>>, fail_at: Option<usize>, f: impl FnOnce() -> T) -> (T, Vec<Point>) {
        OBS.with(|o| *o.borrow_mut() = Some(ObsState { store: store.clone(), env, points: vec![], fail_at, blocked: false }));
        let r = f();
        let st = OBS.with(|o| o.borrow_mut().take());
        if st.as_ref().map(|s| s.blocked).unwrap_or(false) {
            store.unblock_writes();
        }
        (r, st.map(|s| s.points).unwrap_or_default())
    }

    /// First life: the zone is loaded, a new journal is attached and the zone persisted into it.
    fn fresh(w: &Worker, store: &Rc<Store>, zone: &[Rr]) -> Life {
        let mut h = Handler::new(vupd::in_memory_zone(zone), AxfrPolicy::AllowAll, true, false);
        h.set_tsig_signers(vec![w.signer.clone()]);
        let journal = store.journal_with(&[]);
        w.rt.block_on(h.set_journal(journal));
        let (res, points) = Life::observe(store, None, || w.rt.block_on(h.persist_to_journal()));
        res.expect("persist_to_journal");
        let env = Arc::new(Env::from_handler(h));
        let snap = w.rt.block_on(env.snapshot());
        let answered = answered_serial(&env);
        Life { env, store: store.clone(), acks: vec![Ack { durable: store.durable(), rcode: None, snap, answered, points, persist: false }], recovery: None }
    }

    /// A later life: the journal file holds `rows`; the zone is recovered from it.
    fn recovered(w: &Worker, store: &Rc<Store>, rows: &[JournalRow]) -> Result<Life, String> {
        Life::recovered_from(w, store, store.journal_with(rows))
    }

    /// Recovery from a journal file prepared by the caller.
    fn recovered_from(w: &Worker, store: &Rc<Store>, journal: Journal) -> Result<Life, String> {
        let mut h = Handler::new(vupd::empty_zone(), AxfrPolicy::AllowAll, true, false);
        h.set_tsig_signers(vec![w.signer.clone()]);
        let res = catch(|| w.rt.block_on(h.recover_with_journal(&journal))).map_err(|p| format!("panic:{}", p.msg))?;
        let recovery = Some(res.map_err(|e| e.to_string()));
        w.rt.block_on(h.set_journal(journal));
        let env = Arc::new(Env::from_handler(h));
        let snap = w.rt.block_on(env.snapshot());
        let answered = answered_serial(&env);
        Ok(Life { env, store: store.clone(), acks: vec![Ack { durable: store.durable(), rcode: None, snap, answered, points: vec![], persist: false }], recovery })
    }

    fn cur_serial(&self) -> u32 {
        self.acks.last().unwrap().snap.serial().unwrap_or(0)
    }

    fn apply(&mut self, w: &Worker, t: &MsgT) -> Result<(), String> {
        self.apply_failing(w, t, None)
    }

    /// As `apply`; with `fail_at = Some(p)` the p-th journal write of this message fails.
    fn apply_failing(&mut self, w: &Worker, t: &MsgT, fail_at: Option<usize>) -> Result<(), String> {
        if t.persist {
            let env = self.env.clone();
            let (res, points) = Life::observe_failing(&self.store, Some(env.clone()), fail_at, || catch(|| w.rt.block_on(env.h.persist_to_journal())));
            match res {
                Err(p) => return Err(format!("panic:{}", p.msg)),
                Ok(r) => {
                    if fail_at.is_none() {
                        r.map_err(|e| e.to_string())?;
                    }
                }
            }
            let snap = w.rt.block_on(self.env.snapshot());
            let answered = answered_serial(&self.env);
            self.acks.push(Ack { durable: self.store.durable(), rcode: None, snap, answered, points, persist: true });
            return Ok(());
        }
        let msg = (t.build)(self.cur_serial());
        let bytes = vupd::signed_update(200 + self.acks.len() as u16, &msg, &w.signer, vupd::NOW);
        let env = self.env.clone();
        let (res, points) = Life::observe_failing(&self.store, Some(env.clone()), fail_at, || catch(|| w.rt.block_on(env.exchange(&bytes))));
        let rcode = match res {
            Err(p) => return Err(format!("panic:{}", p.msg)),
            Ok(Err(e)) => return Err(e),
            Ok(Ok(r)) => Some(r.rcode),
        };
        let snap = w.rt.block_on(self.env.snapshot());
        let answered = answered_serial(&self.env);
        self.acks.push(Ack { durable: self.store.durable(), rcode, snap, answered, points, persist: false });
        Ok(())
    }

    fn rows(&self, w: &Worker) -> Vec<JournalRow> {
        w.rt.block_on(self.env.journal_rows())
    }

    /// Every durable row count at which the process may stop, ascending.
    fn crash_points(&self) -> Vec<usize> {
        let mut ks: Vec<usize> = vec![0];
        for a in &self.acks {
            ks.push(a.durable);
            ks.extend(a.points.iter().map(|p| p.durable));
        }
        ks.sort();
        ks.dedup();
        ks
    }
}

// ------------------------------------------------------------------------------------------
// oracle for one crash point

#[derive(Clone, Debug)]
struct Finding {
    key: String,
    what: String,
}

/// Where a durable row count lies relative to the message boundaries of a life.
enum Pos {
    /// before the life's start state was durable (inside the initial dump)
    InsideInitialDump,
    /// exactly the durable count at acknowledgement `j`
    Boundary(usize),
    /// strictly inside the rows of message `m` (= acks index); `offset` rows of it are durable,
    /// `update_rows` of its rows are Update RRs (the rest is the post-update SOA row)
    Inside { m: usize, offset: usize, update_rows: usize },
}

fn position(life: &Life, k: usize) -> Pos {
    if k < life.acks[0].durable {
        return Pos::InsideInitialDump;
    }
    let mut j = 0;
    for (i, a) in life.acks.iter().enumerate() {
        if a.durable <= k {
            j = i;
        }
    }
    if life.acks[j].durable == k {
        return Pos::Boundary(j);
    }
    let m = j + 1;
    let group = life.acks[m].durable - life.acks[j].durable;
    let changed = !same_state(&life.acks[m].snap, &life.acks[j].snap);
    let update_rows = if changed { group.saturating_sub(1) } else { group };
    Pos::Inside { m, offset: k - life.acks[j].durable, update_rows }
}

/// Serials answered before a stop that leaves `k` rows durable: after every acknowledged message
/// and in-flight at every journal write point reached with <= k durable rows.
fn answered_before(life: &Life, k: usize, earlier: &[u32]) -> Vec<(u32, &'static str)> {
    let mut v: Vec<(u32, &'static str)> = earlier.iter().map(|s| (*s, "earlier-life")).collect();
    for (i, a) in life.acks.iter().enumerate() {
        if a.durable <= k {
            if let Some(s) = a.answered {
                v.push((s, "after-acknowledgement"));
            }
        }
        for p in &a.points {
            if p.durable <= k && i > 0 {
                if let Some(s) = p.inflight_serial {
                    v.push((s, "in-flight"));
                }
            }
        }
    }
    v
}

/// Judge the zone recovered from the first `k` rows of `life`'s journal. Returns the findings and,
/// if the recovered zone is a boundary state, the index of that boundary.
fn judge_recovery(life: &Life, k: usize, rec: &Result<Life, String>, earlier_answers: &[u32], prefix: &str, l: &mut Local) -> (Vec<Finding>, Option<usize>) {
    let mut out = vec![];
    let pos = position(life, k);
    let scene = match &pos {
        Pos::InsideInitialDump => "k-inside-initial-dump",
        Pos::Boundary(_) => "k-at-message-boundary",
        Pos::Inside { offset, update_rows, .. } if offset < update_rows => "k-inside-row-group",
        Pos::Inside { .. } => "k-before-soa-row",
    };
    let rec = match rec {
        Err(p) => {
            let slug: String = p.chars().map(|c| if c.is_ascii_alphanumeric() { c.to_ascii_lowercase() } else { '-' }).take(60).collect();
            out.push(Finding { key: format!("{prefix}recovery-{slug}:{scene}"), what: format!("recovery of the first {k} rows panicked: {p}") });
            return (out, None);
        }
        Ok(r) => r,
    };
    let rs = &rec.acks[0].snap;
    if let Some(Err(e)) = &rec.recovery {
        if matches!(pos, Pos::InsideInitialDump) {
            // refusing a journal whose initial dump is incomplete is fine: the zone file is
            // still authoritative
            l.outcome("recovery-refused-incomplete-initial-dump");
            return (out, None);
        }
        let in_re_dump = match pos {
            Pos::Inside { m, .. } => life.acks[m].persist,
            Pos::Boundary(j) => life.acks[j].persist,
            _ => false,
        };
        let key = if in_re_dump { format!("{prefix}partial-re-dump:recovery-failed") } else { format!("{prefix}recovery-failed:{scene}") };
        out.push(Finding { key, what: format!("recover_with_journal failed on the first {k} rows the server itself wrote: {e}") });
        return (out, None);
    }
    let mut boundary = None;
    match pos {
        Pos::InsideInitialDump => {
            if same_state(rs, &life.acks[0].snap) {
                boundary = Some(0);
            } else {
                out.push(Finding {
                    key: format!("{prefix}partial-initial-dump:{}", if k == 0 { "empty-journal" } else { "k-inside-dump" }),
                    what: format!(
                        "a stop inside the initial dump ({k} of {} rows durable) recovers Ok to a partial zone that would be served as complete: {:?}",
                        life.acks[0].durable,
                        rs.text()
                    ),
                });
            }
        }
        Pos::Boundary(j) => {
            if same_state(rs, &life.acks[j].snap) {
                boundary = Some(j);
            } else {
                let what_differs = match (rs.content() == life.acks[j].snap.content(), rs.serial() == life.acks[j].snap.serial()) {
                    (true, false) => "serial",
                    (false, true) => "content",
                    _ => "content-and-serial",
                };
                out.push(Finding {
                    key: format!("{prefix}boundary-state-wrong:{what_differs}"),
                    what: format!(
                        "stop exactly after message {j} was made durable ({k} rows): recovered {:?} serial {:?}, crash-free state {:?} serial {:?}",
                        rs.text(),
                        rs.serial(),
                        life.acks[j].snap.text(),
                        life.acks[j].snap.serial()
                    ),
                });
            }
        }
        Pos::Inside { m, offset, update_rows } => {
            let before = &life.acks[m - 1].snap;
            let after = &life.acks[m].snap;
            if same_state(rs, before) {
                boundary = Some(m - 1);
                l.outcome("in-flight-message-absent");
            } else if same_state(rs, after) {
                boundary = Some(m);
                l.outcome("in-flight-message-complete");
            } else if life.acks[m].persist {
                out.push(Finding {
                    key: format!("{prefix}partial-re-dump:k-inside-dump"),
                    what: format!(
                        "stop with {offset} of {} rows of a second persist_to_journal() durable: the AXFR marker clears the zone on replay and only part of the dump follows: recovered {:?}; the zone is {:?}",
                        life.acks[m].durable - life.acks[m - 1].durable,
                        rs.text(),
                        after.text()
                    ),
                });
            } else if rs.content() == after.content() && rs.serial() == before.serial() && after.content() != before.content() {
                out.push(Finding {
                    key: format!("{prefix}content-new-serial-old"),
                    what: format!(
                        "stop with {offset} of {} rows of a message durable: recovered the message's content {:?} under the OLD serial {:?} (after the message: {:?}) - no whole-message boundary",
                        life.acks[m].durable - life.acks[m - 1].durable,
                        rs.text(),
                        rs.serial(),
                        after.serial()
                    ),
                });
            } else if offset < update_rows {
                out.push(Finding {
                    key: format!("{prefix}half-applied:k-inside-row-group"),
                    what: format!(
                        "stop with {offset} of {update_rows} update rows of a message durable: recovered {:?} serial {:?}; before the message {:?}, after it {:?} - the message is half-applied",
                        rs.text(),
                        rs.serial(),
                        before.text(),
                        after.text()
                    ),
                });
            } else {
                out.push(Finding {
                    key: format!("{prefix}in-flight-state-wrong:k-before-soa-row"),
                    what: format!(
                        "stop with all update rows but not the SOA row durable: recovered {:?} serial {:?}; before {:?}/{:?}, after {:?}/{:?}",
                        rs.text(),
                        rs.serial(),
                        before.text(),
                        before.serial(),
                        after.text(),
                        after.serial()
                    ),
                });
            }
        }
    }
    // serial never lower than any answered one
    if let Some(rser) = rs.serial() {
        let mut worst: Option<(u32, &'static str)> = None;
        for (s, how) in answered_before(life, k, earlier_answers) {
            if ru::serial_cmp(rser, s) == ru::SerialOrd::Less && worst.map(|w| ru::serial_cmp(w.0, s) == ru::SerialOrd::Less).unwrap_or(true) {
                worst = Some((s, how));
            }
        }
        if let Some((s, how)) = worst {
            out.push(Finding {
                key: format!("{prefix}serial-below-answered:{how}:{scene}"),
                what: format!("recovered serial {rser} is lower than serial {s} the server had answered with ({how}) before the stop at {k} durable rows"),
            });
        }
    } else if !matches!(position(life, k), Pos::InsideInitialDump) {
        out.push(Finding { key: format!("{prefix}recovered-zone-without-soa:{scene}"), what: format!("recovered zone has no SOA: {:?}", rs.text()) });
    }
    (out, boundary)
}

// ------------------------------------------------------------------------------------------
// one case = (zone, history, k [, continuation [, k2]])

struct Plan<'a> {
    /// recovered handlers (journal content + boundary state) whose continuations were already
    /// compared with the never-crashed handler: the recovered object is a function of the rows
    done: &'a std::sync::Mutex<std::collections::HashSet<u64>>,
    zones: &'a [(&'static str, Vec<Rr>)],
    alpha: &'a [MsgT],
    /// continuation length after histories of <= 2 messages / of more messages
    cont_len_short: usize,
    cont_len_long: usize,
    /// a second crash is enumerated after histories of at most this many messages
    second_crash_max_hist: Option<usize>,
    /// a third lifetime (message + stop + third recovery) after histories of at most this length
    third_life_max_hist: Option<usize>,
    /// journal variants at every message boundary of the history (else: at its end only)
    variants_every_boundary: bool,
}

impl Plan<'_> {
    fn cont_len(&self, hist_len: usize) -> usize {
        if hist_len <= 2 {
            self.cont_len_short
        } else {
            self.cont_len_long
        }
    }
    fn third_life(&self, hist_len: usize) -> bool {
        self.third_life_max_hist.map(|m| hist_len <= m).unwrap_or(false)
    }
    fn second_crash(&self, hist_len: usize) -> bool {
        self.second_crash_max_hist.map(|m| hist_len <= m).unwrap_or(false)
    }
}

fn case_json(plan: &Plan, zone: usize, hist: &[usize], k: Option<usize>, cont: &[usize], k2: Option<usize>) -> Value {
    json!({
        "zone": zone,
        "zone_text": plan.zones[zone].1.iter().map(vupd::rr_text).collect::<Vec<_>>(),
        "history": hist,
        "history_text": hist.iter().map(|i| plan.alpha[*i].name).collect::<Vec<_>>(),
        "k": k,
        "continuation": cont,
        "continuation_text": cont.iter().map(|i| plan.alpha[*i].name).collect::<Vec<_>>(),
        "k2": k2,
    })
}

/// Crash-free behaviour of `hist` from `zone`: per message (rcode, state digest).
fn crash_free(w: &mut Worker, plan: &Plan, zone: usize, hist: &[usize]) -> Vec<(Option<u8>, u64)> {
    let key = vupd::digest(&(zone, hist));
    if let Some(v) = w.cache.get(&key) {
        return v.clone();
    }
    let store = w.stores[3].clone();
    let mut life = Life::fresh(w, &store, &plan.zones[zone].1);
    for i in hist {
        if life.apply(w, &plan.alpha[*i]).is_err() {
            break;
        }
    }
    let v: Vec<(Option<u8>, u64)> = life.acks.iter().skip(1).map(|a| (a.rcode, cs_digest(&a.snap))).collect();
    if w.cache.len() > 200_000 {
        w.cache.clear();
    }
    w.cache.insert(key, v.clone());
    v
}

/// All sequences of length 1..=max over 0..n.
fn seqs(n: usize, max: usize) -> Vec<Vec<usize>> {
    let mut out = vec![];
    let mut last: Vec<Vec<usize>> = vec![vec![]];
    for _ in 0..max {
        let mut next = vec![];
        for s in &last {
            for i in 0..n {
                let mut t = s.clone();
                t.push(i);
                next.push(t);
            }
        }
        out.extend(next.iter().cloned());
        last = next;
    }
    out
}

// ------------------------------------------------------------------------------------------
// audit round (b): journals NOT laid out the way this hickory lays them out

/// Ways of writing the SAME journal that the schema permits: recovery reads `record` in rowid
/// order and nothing else, so each of them has to recover exactly like the original rows.
const JOURNAL_VARIANTS: [&str; 11] = [
    "client-ids-differ",
    "timestamps-reversed",
    "timestamps-all-equal",
    "soa-serial-column=0",
    "soa-serial-column-reversed",
    "soa-serial-column=2^40",
    "rowids-with-gaps",
    "rowids-start-at-1000",
    "records-reencoded-uncompressed-upper-case",
    "records-reencoded-uncompressed",
    "axfr-marker-with-another-owner-ttl-class",
];

fn reencode(bytes: &[u8], upper: bool) -> Vec<u8> {
    let Ok(raw) = vref::wire::read_record(bytes, 0) else { return bytes.to_vec() };
    let Ok(rdata) = ru::canonical_rdata(bytes, raw.rtype, raw.rdata_start, raw.rdata_end) else { return bytes.to_vec() };
    let rr = Rr { name: vref::wire::lower(&raw.name), rtype: raw.rtype, class: raw.class, ttl: raw.ttl, rdata };
    vupd::raw::encode_rr(&rr, upper)
}

fn journal_variant(rows: &[JournalRow], v: &str) -> Vec<(Option<i64>, JournalRow)> {
    let n = rows.len();
    rows.iter()
        .enumerate()
        .map(|(i, r)| {
            let mut id = None;
            let mut r = r.clone();
            match v {
                "client-ids-differ" => r.0 = [7, -1, i64::MAX][i % 3],
                "timestamps-reversed" => r.2 = rows[n - 1 - i].2.clone(),
                "timestamps-all-equal" => r.2 = rows[0].2.clone(),
                "soa-serial-column=0" => r.1 = 0,
                "soa-serial-column-reversed" => r.1 = rows[n - 1 - i].1,
                "soa-serial-column=2^40" => r.1 = 1 << 40,
                "rowids-with-gaps" => id = Some(1 + 3 * i as i64),
                "rowids-start-at-1000" => id = Some(1000 + i as i64),
                "records-reencoded-uncompressed-upper-case" => r.3 = reencode(&r.3, true),
                "records-reencoded-uncompressed" => r.3 = reencode(&r.3, false),
                "axfr-marker-with-another-owner-ttl-class" => {
                    if vref::wire::read_record(&r.3, 0).map(|x| x.rtype == ru::T_AXFR).unwrap_or(false) {
                        r.3 = vupd::rr_wire(&Rr::new("z.", ru::T_AXFR, ru::CLASS_ANY, 60, vec![]));
                    }
                }
                _ => {}
            }
            (id, r)
        })
        .collect()
}

/// Every variant of the journal of this history, cut at every message boundary, must recover to
/// the state the original rows recover to.
fn run_journal_variants(w: &mut Worker, plan: &Plan, zone: usize, hist: &[usize], life: &Life, rows: &[JournalRow], only_variant: Option<&str>, l: &mut Local) {
    let store2 = w.stores[1].clone();
    let mut ks: Vec<usize> = life.acks.iter().map(|a| a.durable).collect();
    ks.dedup();
    if !plan.variants_every_boundary && only_variant.is_none() {
        ks = vec![*ks.last().unwrap()];
    }
    for k in ks {
        let base = Life::recovered(w, &store2, &rows[..k]);
        let base_state = base.as_ref().ok().map(|b| (b.recovery.clone(), b.acks[0].snap.clone()));
        drop(base);
        for v in JOURNAL_VARIANTS {
            if only_variant.map(|o| o != v).unwrap_or(false) {
                continue;
            }
            l.eval();
            let vr = journal_variant(&rows[..k], v);
            let rec = Life::recovered_from(w, &store2, store2.journal_with_ids(&vr));
            let got = rec.as_ref().ok().map(|b| (b.recovery.clone(), b.acks[0].snap.clone()));
            drop(rec);
            let same = match (&base_state, &got) {
                (Some((br, bs)), Some((gr, gs))) => br.is_some() == gr.is_some() && br.as_ref().map(|x| x.is_ok()) == gr.as_ref().map(|x| x.is_ok()) && same_state(bs, gs),
                (None, None) => true,
                _ => false,
            };
            if same {
                l.outcome(&format!("journal-variant-recovers-alike:{v}"));
                if k > life.acks[0].durable {
                    l.nontrivial(vupd::digest(&("jv", zone, hist, k, v)));
                }
            } else {
                let text = |x: &Option<(Option<Result<(), String>>, Snap)>| match x {
                    None => "panic".to_string(),
                    Some((r, s)) => format!("{:?} -> {:?} serial {:?}", r, s.text(), s.serial()),
                };
                l.violation(
                    &format!("journal-variant-recovers-differently:{v}"),
                    &format!("the first {k} rows of the journal recover to {}; the same rows written as '{v}' recover to {}", text(&base_state), text(&got)),
                    || {
                        let mut j = case_json(plan, zone, hist, Some(k), &[], None);
                        j["journal_variant"] = json!(v);
                        j
                    },
                );
            }
        }
    }
}

/// Audit round (c): the journal FILE at every point a stop during its creation can leave it
/// (`schema_up`: CREATE tdns_schema; INSERT version 0; UPDATE version; CREATE records; UPDATE
/// version = 1 - each its own commit), plus a schema version this build does not know. No update
/// was acknowledged yet, the zone file is still authoritative: opening may refuse, it must not
/// panic and must not serve a zone; an opened journal must work (persist + recover round trip).
fn run_schema_states(w: &mut Worker, zone: &[Rr], l: &mut Local) {
    let states: [(&str, &[&str]); 6] = [
        ("empty-file", &[]),
        ("after-create-tdns_schema(no-version-row)", &["CREATE TABLE tdns_schema (version INTEGER NOT NULL)"]),
        ("after-insert-version-0", &["CREATE TABLE tdns_schema (version INTEGER NOT NULL)", "INSERT INTO tdns_schema (version) VALUES (0)"]),
        (
            "after-create-records(version-still-0)",
            &["CREATE TABLE tdns_schema (version INTEGER NOT NULL)", "INSERT INTO tdns_schema (version) VALUES (0)", "CREATE TABLE records (client_id INTEGER NOT NULL, soa_serial INTEGER NOT NULL, timestamp TEXT NOT NULL, record BLOB NOT NULL)"],
        ),
        (
            "complete(version-1)",
            &["CREATE TABLE tdns_schema (version INTEGER NOT NULL)", "INSERT INTO tdns_schema (version) VALUES (1)", "CREATE TABLE records (client_id INTEGER NOT NULL, soa_serial INTEGER NOT NULL, timestamp TEXT NOT NULL, record BLOB NOT NULL)"],
        ),
        (
            "future(version-2)",
            &["CREATE TABLE tdns_schema (version INTEGER NOT NULL)", "INSERT INTO tdns_schema (version) VALUES (2)", "CREATE TABLE records (client_id INTEGER NOT NULL, soa_serial INTEGER NOT NULL, timestamp TEXT NOT NULL, record BLOB NOT NULL)"],
        ),
    ];
    let dir = tmp_root().join("schema");
    std::fs::create_dir_all(&dir).expect("tmp dir");
    for (name, sql) in states {
        l.eval();
        let path = dir.join("j.db");
        let _ = std::fs::remove_file(&path);
        {
            let c = rusqlite::Connection::open(&path).expect("open");
            for s in sql {
                c.execute_batch(s).expect("state sql");
            }
        }
        let case = || json!({"schema_state": name});
        let judged = !name.starts_with("future");
        let opened = catch(|| Journal::from_file(&path));
        let journal = match opened {
            Err(p) => {
                if judged {
                    l.violation(&format!("journal-file-after-a-stop-during-creation:open-panics:{name}"), &format!("Journal::from_file panicked: {} at {}", p.msg, vcore::short_loc(&p.loc)), case);
                } else {
                    l.outcome(&format!("obs:schema-state[{name}]:open-panics"));
                }
                continue;
            }
            Ok(Err(e)) => {
                l.outcome(&format!("schema-state[{name}]:open-refused"));
                let _ = e;
                continue;
            }
            Ok(Ok(j)) => j,
        };
        // opened: it has to work as a journal
        let round = catch(|| {
            let mut h = Handler::new(vupd::in_memory_zone(zone), AxfrPolicy::AllowAll, true, false);
            h.set_tsig_signers(vec![w.signer.clone()]);
            w.rt.block_on(h.set_journal(journal));
            let r = w.rt.block_on(h.persist_to_journal()).map_err(|e| e.to_string());
            let want = w.rt.block_on(async { Snap::from_map(&*h.records().await) });
            (r, want)
        });
        match round {
            Err(p) => {
                if judged {
                    l.violation(&format!("journal-file-after-a-stop-during-creation:persist-panics:{name}"), &format!("persist_to_journal on the opened journal panicked: {}", p.msg), case);
                } else {
                    l.outcome(&format!("obs:schema-state[{name}]:persist-panics"));
                }
            }
            Ok((Err(e), _)) => {
                if judged {
                    l.violation(&format!("journal-file-after-a-stop-during-creation:persist-fails:{name}"), &format!("the journal opened but persist_to_journal fails: {e}"), case);
                } else {
                    l.outcome(&format!("obs:schema-state[{name}]:persist-fails"));
                }
            }
            Ok((Ok(()), want)) => {
                let rec = catch(|| {
                    let j2 = Journal::from_file(&path).map_err(|e| e.to_string())?;
                    let mut h2 = Handler::new(vupd::empty_zone(), AxfrPolicy::AllowAll, true, false);
                    w.rt.block_on(h2.recover_with_journal(&j2)).map_err(|e| e.to_string())?;
                    Ok::<Snap, String>(w.rt.block_on(async { Snap::from_map(&*h2.records().await) }))
                });
                match rec {
                    Ok(Ok(got)) if same_state(&got, &want) => l.outcome(&format!("schema-state[{name}]:opens-and-round-trips")),
                    other => {
                        let what = match other {
                            Err(p) => format!("panic: {}", p.msg),
                            Ok(Err(e)) => e,
                            Ok(Ok(got)) => format!("recovered {:?}", got.text()),
                        };
                        if judged {
                            l.violation(&format!("journal-file-after-a-stop-during-creation:round-trip-fails:{name}"), &format!("persisted zone does not recover from the opened journal: {what}"), case);
                        } else {
                            l.outcome(&format!("obs:schema-state[{name}]:round-trip-fails"));
                        }
                    }
                }
            }
        }
    }
}

struct Only {
    k: Option<usize>,
    cont: Option<Vec<usize>>,
    k2: Option<usize>,
}

/// Returns a digest of the crash points and recovered states (for the determinism self-test;
/// continuations are compared with the crash-free run anyway).
fn run_history(w: &mut Worker, plan: &Plan, zone: usize, hist: &[usize], only: Option<&Only>, l: &mut Local) -> u64 {
    let mut dig = vupd::Fnv::new();
    let store1 = w.stores[0].clone();
    let mut life = Life::fresh(w, &store1, &plan.zones[zone].1);
    for i in hist {
        if let Err(e) = life.apply(w, &plan.alpha[*i]) {
            l.violation(&format!("crash-free-run-failed:{}", if e.starts_with("panic") { "panic" } else { "no-reply" }), &e, || case_json(plan, zone, hist, None, &[], None));
            return 1;
        }
    }
    let rows = life.rows(w);
    if rows.len() != life.acks.last().unwrap().durable {
        l.violation("journal-rows-not-durable-at-acknowledgement", &format!("{} rows written, {} durable at the last acknowledgement", rows.len(), life.acks.last().unwrap().durable), || {
            case_json(plan, zone, hist, None, &[], None)
        });
        return 2;
    }
    if life.acks.iter().skip(1).any(|a| a.points.iter().any(|p| p.inflight_serial.is_none())) {
        l.outcome("machinery:in-flight-soa-query-did-not-complete");
    }
    let za = cont_alphabet(zone, plan.alpha.len(), plan.alpha);
    let conts: Vec<Vec<usize>> = seqs(za.len(), plan.cont_len(hist.len())).into_iter().map(|s| s.into_iter().map(|i| za[i]).collect()).collect();
    for k in life.crash_points() {
        if only.map(|o| o.k.is_some() && o.k != Some(k)).unwrap_or(false) {
            continue;
        }
        l.eval();
        let store2 = w.stores[1].clone();
        let rec = Life::recovered(w, &store2, &rows[..k]);
        let (findings, boundary) = judge_recovery(&life, k, &rec, &[], "", l);
        dig.write(&(k as u64).to_be_bytes());
        dig.write(&rec.as_ref().map(|r| cs_digest(&r.acks[0].snap)).unwrap_or(7).to_be_bytes());
        for f in &findings {
            dig.write(f.key.as_bytes());
        }
        match position(&life, k) {
            Pos::InsideInitialDump => l.outcome("stop:inside-initial-dump"),
            Pos::Boundary(_) => l.outcome("stop:at-message-boundary"),
            Pos::Inside { .. } => l.outcome("stop:inside-message-row-group"),
        }
        let acked_changes = life.acks.iter().enumerate().skip(1).filter(|(i, a)| a.durable <= k && !same_state(&a.snap, &life.acks[i - 1].snap)).count();
        if matches!(position(&life, k), Pos::Inside { .. }) || acked_changes > 0 {
            l.nontrivial(vupd::digest(&(zone, hist, k)));
        }
        for f in &findings {
            l.violation(&f.key, &f.what, || case_json(plan, zone, hist, Some(k), &[], None));
        }
        drop(rec);
        let Some(j) = boundary else { continue };
        if !findings.is_empty() {
            continue;
        }
        // continuation on the recovered handler vs. the never-crashed handler in state S_j
        if only.is_none() {
            let ctx_digest = vupd::digest(&(zone, rows[..k].iter().map(|r| (&r.1, &r.3)).collect::<Vec<_>>(), cs_digest(&life.acks[j].snap)));
            if !plan.done.lock().unwrap().insert(ctx_digest) {
                l.outcome("continuations-already-checked-for-this-recovered-journal");
                continue;
            }
        }
        l.outcome("continuations-checked-for-a-recovered-journal");
        let answers_life1: Vec<u32> = answered_before(&life, k, &[]).into_iter().map(|x| x.0).collect();
        for cont in &conts {
            if only.map(|o| o.cont.as_ref().map(|c| c != cont).unwrap_or(false)).unwrap_or(false) {
                continue;
            }
            let mut full: Vec<usize> = hist[..j].to_vec();
            full.extend(cont.iter().cloned());
            let want = crash_free(w, plan, zone, &full);
            let want = &want[j.min(want.len())..];
            let mut life2 = match Life::recovered(w, &store2, &rows[..k]) {
                Ok(x) => x,
                Err(_) => continue,
            };
            let mut diverged = false;
            for (ci, c) in cont.iter().enumerate() {
                l.eval();
                match life2.apply(w, &plan.alpha[*c]) {
                    Err(e) => {
                        l.violation(&format!("continuation-failed:{}", if e.starts_with("panic") { "panic" } else { "no-reply" }), &e, || case_json(plan, zone, hist, Some(k), cont, None));
                        diverged = true;
                        break;
                    }
                    Ok(()) => {
                        let a = life2.acks.last().unwrap();
                        let got = (a.rcode, cs_digest(&a.snap));
                        match want.get(ci) {
                            Some(wv) if *wv == got => l.outcome("continuation-step-agrees"),
                            Some(wv) => {
                                let what = if wv.0 != got.0 { "rcode" } else { "state" };
                                l.violation(
                                    &format!("continuation-diverges:{what}"),
                                    &format!(
                                        "after recovery at {k} durable rows (boundary {j}) continuation message '{}' gives rcode {:?} / state {:?} serial {:?}; the never-crashed handler gives rcode {:?} and another {what}",
                                        plan.alpha[*c].name,
                                        got.0.map(ru::rcode_name),
                                        a.snap.text(),
                                        a.snap.serial(),
                                        wv.0.map(ru::rcode_name)
                                    ),
                                    || case_json(plan, zone, hist, Some(k), cont, None),
                                );
                                diverged = true;
                                break;
                            }
                            None => {
                                l.outcome("machinery:crash-free-run-shorter-than-continuation");
                                diverged = true;
                                break;
                            }
                        }
                    }
                }
            }
            if diverged || !plan.second_crash(hist.len()) {
                continue;
            }
            // second crash: every stop inside the continuation, recovered again
            let rows2 = life2.rows(w);
            for k2 in life2.crash_points() {
                if k2 <= k {
                    continue;
                }
                if only.map(|o| o.k2.is_some() && o.k2 != Some(k2)).unwrap_or(false) {
                    continue;
                }
                l.eval();
                let store3 = w.stores[2].clone();
                let rec2 = Life::recovered(w, &store3, &rows2[..k2]);
                let (f2, b2) = judge_recovery(&life2, k2, &rec2, &answers_life1, "second-crash:", l);
                l.outcome("second-crash-recovery");
                l.nontrivial(vupd::digest(&(zone, hist, k, cont, k2)));
                for f in &f2 {
                    l.violation(&f.key, &f.what, || case_json(plan, zone, hist, Some(k), cont, Some(k2)));
                }
                // third lifetime: one more message on the twice-recovered handler, compared with
                // the never-crashed handler, and every stop inside it recovered a third time
                let Some(j2) = b2 else { continue };
                if !f2.is_empty() || !plan.third_life(hist.len()) || only.is_some() {
                    continue;
                }
                drop(rec2);
                let answers_life2: Vec<u32> = answers_life1.iter().cloned().chain(answered_before(&life2, k2, &[]).into_iter().map(|x| x.0)).collect();
                let mut eff: Vec<usize> = hist[..j].to_vec();
                eff.extend(cont[..j2].iter().cloned());
                for c3 in &za {
                    let mut full = eff.clone();
                    full.push(*c3);
                    let want = crash_free(w, plan, zone, &full);
                    let Ok(mut life3) = Life::recovered(w, &store3, &rows2[..k2]) else { continue };
                    l.eval();
                    if life3.apply(w, &plan.alpha[*c3]).is_err() {
                        l.violation("third-life:continuation-failed", "a message on the twice-recovered handler failed", || case_json(plan, zone, hist, Some(k), cont, Some(k2)));
                        continue;
                    }
                    let a3 = life3.acks.last().unwrap();
                    match want.last() {
                        Some(wv) if *wv == (a3.rcode, cs_digest(&a3.snap)) => l.outcome("third-life-step-agrees"),
                        _ => {
                            l.violation(
                                "third-life:continuation-diverges",
                                &format!("after two stops and recoveries message '{}' gives rcode {:?} / state {:?}; the never-crashed handler reacts differently", plan.alpha[*c3].name, a3.rcode.map(ru::rcode_name), a3.snap.text()),
                                || case_json(plan, zone, hist, Some(k), cont, Some(k2)),
                            );
                            continue;
                        }
                    }
                    let rows3 = life3.rows(w);
                    for k3 in life3.crash_points() {
                        if k3 <= k2 {
                            continue;
                        }
                        l.eval();
                        let store4 = w.stores[4].clone();
                        let rec3 = Life::recovered(w, &store4, &rows3[..k3]);
                        let (f3, _) = judge_recovery(&life3, k3, &rec3, &answers_life2, "third-crash:", l);
                        l.outcome("third-crash-recovery");
                        l.nontrivial(vupd::digest(&(zone, hist, k, cont, k2, c3, k3)));
                        for f in &f3 {
                            l.violation(&f.key, &f.what, || {
                                let mut j = case_json(plan, zone, hist, Some(k), cont, Some(k2));
                                j["third_life_message"] = json!(plan.alpha[*c3].name);
                                j["k3"] = json!(k3);
                                j
                            });
                        }
                    }
                }
            }
        }
    }
    // audit round: the same journal written in the other ways the schema permits
    if only.is_none() && hist.len() <= 2 {
        run_journal_variants(w, plan, zone, hist, &life, &rows, None, l);
    }
    dig.0
}

/// Journal WRITE-ERROR faults: the p-th journal write of the LAST message of `hist` fails (the
/// database is locked by another writer at that moment), the server goes on running, and then the
/// process stops at every point from there on. The live (never restarted) handler that saw the
/// failure is the reference: the recovered zone must be one of its boundary states, and a further
/// message must behave the same on both.
fn run_write_failures(w: &mut Worker, plan: &Plan, zone: usize, hist: &[usize], l: &mut Local) {
    let Some((last, head)) = hist.split_last() else { return };
    let za = zone_alphabet(zone, plan.alpha.len());
    // the crash-free run tells how many journal writes the last message makes
    let (n_points, changed) = {
        let store = w.stores[0].clone();
        let mut life = Life::fresh(w, &store, &plan.zones[zone].1);
        for i in hist {
            if life.apply(w, &plan.alpha[*i]).is_err() {
                return;
            }
        }
        let m = life.acks.len() - 1;
        (life.acks[m].points.len(), !same_state(&life.acks[m].snap, &life.acks[m - 1].snap))
    };
    let build = |w: &mut Worker, store_i: usize, p: usize| -> Option<Life> {
        let store = w.stores[store_i].clone();
        let mut life = Life::fresh(w, &store, &plan.zones[zone].1);
        for i in head {
            life.apply(w, &plan.alpha[*i]).ok()?;
        }
        life.apply_failing(w, &plan.alpha[*last], Some(p)).ok()?;
        Some(life)
    };
    for p in 0..n_points {
        let row_class = if plan.alpha[*last].persist {
            "re-dump-row"
        } else if changed && p + 1 == n_points {
            "soa-row"
        } else if p == 0 {
            "first-update-row"
        } else {
            "later-update-row"
        };
        let prefix = format!("after-write-failure({row_class}):");
        let Some(life) = build(w, 0, p) else {
            l.violation(&format!("{prefix}server-failed"), "the server panicked or did not answer when a journal write failed", || {
                let mut j = case_json(plan, zone, hist, None, &[], None);
                j["failing_journal_write_of_last_message"] = json!(p);
                j
            });
            continue;
        };
        let m = life.acks.len() - 1;
        let rows = life.rows(w);
        l.outcome(&format!("write-failure:{row_class}:answered-{}", life.acks[m].rcode.map(ru::rcode_name).unwrap_or("-")));
        let wit = |k: Option<usize>, cont: &[usize]| {
            let mut j = case_json(plan, zone, hist, k, cont, None);
            j["failing_journal_write_of_last_message"] = json!(p);
            j
        };
        if rows.len() != life.acks[m].durable {
            l.violation(&format!("{prefix}journal-rows-not-durable"), "rows written but not durable after the failed message", || wit(None, &[]));
            continue;
        }
        // the stop comes any time after the server answered the failed message (stops inside the
        // message are the plain crash model, covered by the main family)
        for k in [life.acks[m].durable] {
            l.eval();
            let store2 = w.stores[1].clone();
            let rec = Life::recovered(w, &store2, &rows[..k]);
            let (findings, boundary) = judge_recovery(&life, k, &rec, &[], &prefix, l);
            l.outcome("write-failure:stop-recovered");
            l.nontrivial(vupd::digest(&(zone, hist, p, k)));
            for f in &findings {
                l.violation(&f.key, &f.what, || wit(Some(k), &[]));
            }
            drop(rec);
            if boundary != Some(m) || !findings.is_empty() {
                continue;
            }
            // one more message: recovered handler vs. the live handler that saw the failure
            for c in &za {
                let Some(mut live) = build(w, 2, p) else { continue };
                let Ok(mut life2) = Life::recovered(w, &store2, &rows[..k]) else { continue };
                l.eval();
                let (ra, rb) = (live.apply(w, &plan.alpha[*c]), life2.apply(w, &plan.alpha[*c]));
                if ra.is_err() || rb.is_err() {
                    l.violation(&format!("{prefix}continuation-failed"), "a message after the write failure failed", || wit(Some(k), &[*c]));
                    continue;
                }
                let (x, y) = (live.acks.last().unwrap(), life2.acks.last().unwrap());
                if x.rcode == y.rcode && same_state(&x.snap, &y.snap) {
                    l.outcome("write-failure:continuation-step-agrees");
                } else {
                    l.violation(
                        &format!("{prefix}continuation-diverges"),
                        &format!("message '{}' after the failed write: live handler rcode {:?} state {:?}; recovered handler rcode {:?} state {:?}", plan.alpha[*c].name, x.rcode.map(ru::rcode_name), x.snap.text(), y.rcode.map(ru::rcode_name), y.snap.text()),
                        || wit(Some(k), &[*c]),
                    );
                }
            }
        }
    }
}

fn main() {
    // a stack overflow / abort in the code under test must become a verdict, not a dead check
    vcore::supervise("C14");
    vcore::install_log_evaluation(); // logging is part of the environment: log arguments are evaluated as under a real subscriber
    let ctx = Ctx::from_args("C14", "fault_enumeration");
    let thorough = !ctx.quick();
    // one work unit is a few hundred real exchanges; leave room for a heavily loaded machine
    ctx.case_timeout_s.store(600, std::sync::atomic::Ordering::Relaxed);
    let zones = start_zones(true);
    let alpha = alphabet();
    let done = std::sync::Mutex::new(std::collections::HashSet::new());
    let plan = Plan {
        done: &done,
        zones: &zones,
        alpha: &alpha,
        cont_len_short: if thorough { 2 } else { 1 },
        cont_len_long: 1,
        second_crash_max_hist: Some(if thorough { 3 } else { 2 }),
        third_life_max_hist: Some(if thorough { 1 } else { 0 }),
        variants_every_boundary: thorough,
    };
    let _ = std::fs::remove_dir_all(tmp_root());

    if let Some((_key, case)) = ctx.replay_case() {
        let mut w = Worker::new(0);
        let idx = |k: &str| -> Vec<usize> { case[k].as_array().map(|a| a.iter().map(|x| x.as_u64().unwrap() as usize).collect()).unwrap_or_default() };
        let hist = idx("history");
        let cont = idx("continuation");
        let only = Only {
            k: case["k"].as_u64().map(|x| x as usize),
            cont: if cont.is_empty() { None } else { Some(cont.clone()) },
            k2: case["k2"].as_u64().map(|x| x as usize),
        };
        let rp = Plan {
            done: &done,
            zones: &zones,
            alpha: &alpha,
            cont_len_short: cont.len(),
            cont_len_long: cont.len(),
            second_crash_max_hist: if only.k2.is_some() { Some(usize::MAX) } else { None },
            third_life_max_hist: None,
            variants_every_boundary: true,
        };
        let zone_i = case["zone"].as_u64().unwrap_or(0) as usize;
        if case["lifecycle"].as_bool() == Some(true) {
            let cfg = vupd::lifecycle::Cfg { axfr: case["axfr"].as_u64().unwrap_or(1) as u8, allow_update: case["allow_update"].as_bool().unwrap_or(true), dnssec: case["dnssec"].as_bool().unwrap_or(false) };
            ctx.with_local(|l| {
                l.eval();
                for f in vupd::lifecycle::run(&tmp_root().join("lifecycle-replay"), &cfg, || Some(dnssecfam::zone_signer()), &w.rt) {
                    l.violation(&f.key, &f.what, || case.clone());
                }
            });
        } else if case["schema_state"].is_string() {
            ctx.with_local(|l| run_schema_states(&mut w, &zones[0].1, l));
        } else if case["dnssec_family"].as_bool() == Some(true) {
            let zi = if case["dnssec_zone"].as_str() == Some(zones[KINDS_ZONE].0) { KINDS_ZONE } else { 0 };
            ctx.with_local(|l| dnssecfam::run(&mut w, &alpha, &zones[zi].1, zones[zi].0, &hist, case["nsec3"].as_bool().unwrap_or(false), case["with_continuations"].as_bool().unwrap_or(true), l));
        } else if let Some(jv) = case["journal_variant"].as_str() {
            ctx.with_local(|l| {
                let store1 = w.stores[0].clone();
                let mut life = Life::fresh(&w, &store1, &zones[zone_i].1);
                for i in &hist {
                    let _ = life.apply(&w, &alpha[*i]);
                }
                let rows = life.rows(&w);
                run_journal_variants(&mut w, &rp, zone_i, &hist, &life, &rows, Some(jv), l);
            });
        } else if case["failing_journal_write_of_last_message"].is_u64() {
            // the whole write-failure family of that history
            ctx.with_local(|l| run_write_failures(&mut w, &rp, zone_i, &hist, l));
        } else if case["k3"].is_u64() {
            // the whole three-lifetime family of that history
            let rp3 = Plan { third_life_max_hist: Some(usize::MAX), second_crash_max_hist: Some(usize::MAX), ..rp };
            ctx.with_local(|l| {
                run_history(&mut w, &rp3, zone_i, &hist, None, l);
            });
        } else {
            ctx.with_local(|l| {
                run_history(&mut w, &rp, zone_i, &hist, Some(&only), l);
            });
        }
        drop(w);
        let _ = std::fs::remove_dir_all(tmp_root());
        ctx.finish(false);
    }

    // histories: zone3 with the full alphabet (<= 3 quick / <= 4 thorough), thorough also zone6
    // (<= 3), and the six serial-regime zones with the reduced alphabet (<= 3, both tiers)
    let mut cases: Vec<(Vec<usize>, usize)> = vec![];
    let mut hists_total = 0usize;
    for zone in 0..zones.len() {
        let max_len = match zone {
            0 => if thorough { 4 } else { 3 },
            1 => if thorough { 3 } else { continue },
            KINDS_ZONE => 2,
            _ => if thorough { 3 } else { 2 },
        };
        let za = zone_alphabet(zone, alpha.len());
        let mut hs: Vec<Vec<usize>> = vec![vec![]];
        hs.extend(seqs(za.len(), max_len).into_iter().map(|s| s.into_iter().map(|i| za[i]).collect::<Vec<usize>>()));
        if zone == KINDS_ZONE && !thorough {
            // quick: the four CNAME kinds added in the fourth seed round are crossed with each other
            // only (every kind still occurs as single event and in two-event histories); thorough
            // crosses all 30 kinds pairwise
            let newer = |i: &usize| dnssecfam::QUICK_PAIR_KINDS[..4].contains(&alpha[*i].name);
            hs.retain(|h| h.len() < 2 || newer(&h[0]) == newer(&h[1]));
        }
        hists_total += hs.len();
        cases.extend(hs.into_iter().map(|h| (h, zone)));
    }
    // re-persist slice: histories over {add b.z A1, replace a.z A, re-persist} that contain a
    // second persist_to_journal() (3-RR zone)
    let rp_alpha = [0usize, 4, RE_PERSIST];
    let rp_hists: Vec<Vec<usize>> = seqs(rp_alpha.len(), if thorough { 3 } else { 2 })
        .into_iter()
        .map(|s| s.into_iter().map(|i| rp_alpha[i]).collect::<Vec<usize>>())
        .filter(|h| h.contains(&RE_PERSIST))
        .collect();
    ctx.set("re_persist_histories", json!(rp_hists.len()));
    hists_total += rp_hists.len();
    cases.extend(rp_hists.into_iter().map(|h| (h, 0)));
    // journal write-error faults: every journal write of the last message of every history over a
    // 6-event sub-alphabet fails (3-RR zone)
    let wf_alpha = [0usize, 2, 4, 8, 10, RE_PERSIST];
    let wf_hists: Vec<Vec<usize>> = seqs(wf_alpha.len(), if thorough { 3 } else { 2 }).into_iter().map(|s| s.into_iter().map(|i| wf_alpha[i]).collect()).collect();
    ctx.set("write_failure_histories", json!(wf_hists.len()));
    let n_hist_cases = cases.len();
    let nz = cases.iter().map(|c| c.1).collect::<std::collections::BTreeSet<_>>().len();
    ctx.set("histories", json!(hists_total));
    ctx.set("history_x_start_zone_cases", json!(cases.len()));
    ctx.set("start_zones", json!(nz));
    ctx.set("alphabet", json!(alpha.iter().map(|m| m.name).collect::<Vec<_>>()));
    ctx.set("start_zone_names", json!(zones.iter().map(|z| z.0).collect::<Vec<_>>()));
    ctx.set("serial_zone_alphabet", json!(SERIAL_ZONE_ALPHABET.iter().map(|i| alpha[*i].name).collect::<Vec<_>>()));
    ctx.set("continuation_length_after_histories_up_to_2_messages", json!(plan.cont_len_short));
    ctx.set("continuation_length_after_longer_histories", json!(plan.cont_len_long));
    ctx.set("second_crash_after_histories_up_to", json!(plan.second_crash_max_hist));
    ctx.set_rule(
        "every history of <= L signed UPDATE messages over a 12-message alphabet (1-3 update RRs, a rejected update, a no-op, a SOA replacement; \
         L = 3 quick / 4 thorough) from a freshly persisted zone (3 RRs at serial 5; thorough also 6 RRs, histories <= 3), plus every history of <= 2 (quick) / <= 3 (thorough) \
         messages over a 5-message sub-alphabet from the 3-RR zone at serials 0, 1, 2^31-1, 2^31, 2^32-2 and 2^32-1 (the serial crosses 2^31, wraps \
         at 2^32 and passes through 0; all serial comparisons in RFC 1982 arithmetic, serials exactly 2^31 apart not judged), on the real Catalog -> \
         SqliteZoneHandler with a file-backed journal; for each history EVERY durable row count observed by a second connection at every \
         journal write point and acknowledgement (with per-row autocommit: every prefix 0..R, including every stop inside the initial dump) is \
         cut into a fresh journal and recovered with recover_with_journal; then, once per distinct recovered journal, every continuation of <= C \
         messages (C = 1; thorough C = 2 after histories of <= 2 messages) on the recovered handler is compared with the never-crashed handler, \
         and (after histories of <= 2 quick / <= 3 thorough messages) every stop inside the continuation is recovered again (second crash). \
         Oracle: recovery Ok; recovered zone = state before or after the in-flight message of the crash-free run (content + serial); recovered \
         serial not below any serial answered before the stop (SOA query after every message and in-flight at every journal write point); \
         continuation: same rcode and same state as never crashed. Kinds family (both tiers): every single event and every ordered PAIR of \
         events over the shared list vupd::kinds (30 events) - one message per update-RR kind the live handler treats specially (ignored adds: non-apex \
         SOA, apex SOA with lower / equal serial, CNAME over data, data over CNAME, duplicate RR, TTL-only change; skipped deletes: apex \
         SOA / NS RRset, apex SOA RR, last apex NS RR, delete-all at the apex, missing RR / RRset / name; the effective class IN / NONE / ANY \
         forms; messages mixing an ignored or skipped RR with an effective one) - from a zone with one apex NS, data at a.z. and a CNAME at \
         b.z., with the full crash-point enumeration (C12 asserts that every RR of the list is an atom of its alphabet). Further families: (a) histories that contain a second persist_to_journal() on \
         the running handler (re-dump into the existing journal); (b) journal WRITE-ERROR faults: for every history over a 6-event sub-alphabet \
         (<= 2 quick / <= 3 thorough) EVERY journal write of the last event fails in turn (database locked by another writer at that moment), the \
         server goes on, and the process then stops at every later point: the recovered zone must be a boundary state of the LIVE handler that saw \
         the failure and one further message must behave the same on both; (c) thorough: a THIRD lifetime (message on the twice-recovered \
         handler compared with never crashed, every stop inside it recovered a third time) after histories of <= 1 message. Non-trivial = distinct (history, k) with k inside a message's row group or \
         after >= 1 acknowledged content-changing update (and every second-crash case). Audit round: (d) the journal of every history of \
         <= 2 events, cut at its end (thorough: at every message boundary), written in 11 OTHER ways the schema permits (client ids differ, \
         timestamps reversed / all equal, soa_serial column 0 / reversed / 2^40, rowids with gaps / starting at 1000, every record re-encoded \
         by the reference uncompressed in lower / upper case, the AXFR marker with another owner, TTL and class) must recover exactly like the \
         rows hickory wrote; (e) the journal FILE at every point a stop during its creation leaves it (schema_up's five commits) and with an \
         unknown schema version: opening may refuse, must not panic, and an opened journal must round-trip a zone; (f) is_dnssec_enabled = \
         true with the key loaded after the start as the server binary does (load_keys: add key, secure_zone - every start re-signs and \
         bumps the serial): every history of <= 2 (thorough 3) events over an 8-event alphabet, a restart at every message boundary: restart \
         succeeds, content without RRSIG/NSEC/DNSKEY equals the live content, serial not below any answered serial, one further event gives \
         the same rcode, content and serial advance as never stopped; KINDS part of (f) (seed C14-4: replay runs before the keys are loaded, \
         so it sees no NSEC / RRSIG RRsets where the live zone has them): every kind of vupd::kinds incl. CNAME re-target, CNAME at a new \
         name, host -> CNAME and CNAME -> host in one message, as single event x {NSEC, NSEC3} and as ordered pair (quick: 8 CNAME-related \
         kinds x NSEC; thorough: all pairs x {NSEC, NSEC3}) on the kinds zone: the whole unsigned content after a restart at every message \
         boundary equals the live content (differences keyed by the RR types that differ). (g) CONFIG-DRIVEN LIFECYCLE (sixth seed round; \
         vupd::lifecycle, shared with C13): the zone built ONLY through SqliteZoneHandler::try_from_config (zone file, journal file and TSIG key \
         file in a temp dir; DNSSEC: key loaded and zone signed after every start like the binary) for every combination of AXFR policy {Deny, \
         AllowAll, AllowSigned} x allow_update {false, true} x DNSSEC {off, on}, started THREE times (zone file, then twice from the journal), \
         at every start the probes plain query / unsigned, bad-MAC, signed AXFR / unsigned, bad-MAC, signed UPDATE and two update kinds: the \
         outcome class of every probe (rcode, zone changed, zone data returned) equals the one at the first start, the zone after a restart \
         is the zone before the stop, no zone data against the AXFR policy, no update effect without a valid TSIG or with allow_update = false.",
    );
    ctx.assume("SQLite's atomic commit: a stop leaves exactly the rows a second connection can see at that moment (a prefix of the row sequence)");
    ctx.assume("the crash-free run of the same implementation is the reference for boundary states and continuations (C12 judges them against RFC 2136)");
    ctx.assume("queries do not change state, so one SOA query after every message (and in-flight at every journal write point) dominates every interleaving of queries");

    let total = (cases.len() + wf_hists.len()) as u64;
    ctx.par_run_init(
        total,
        1,
        |wid| Worker::new(wid),
        |i, l, w| {
            if i as usize >= n_hist_cases {
                run_write_failures(w, &plan, 0, &wf_hists[i as usize - n_hist_cases], l);
                return;
            }
            let (hist, zone) = &cases[i as usize];
            let zone = *zone;
            let d1 = run_history(w, &plan, zone, hist, None, l);
            // determinism self-test on a fixed slice: the same case again must look the same
            if i % 8 == 0 && (hist.len() <= 2 || i % 64 == 0) {
                let mut scratch = Local::default();
                let d2 = run_history(w, &plan, zone, hist, None, &mut scratch);
                l.outcome("selftest-rerun");
                if d1 != d2 {
                    l.outcome("machinery:selftest-mismatch");
                }
            }
            if i % 997 == 0 {
                l.sample(case_json(&plan, zone, hist, None, &[], None));
            }
        },
    );
    // sixth seed round: config-driven lifecycle (zone built only through try_from_config, three
    // starts, every knob combination)
    {
        let cfgs = vupd::lifecycle::Cfg::all(true);
        ctx.set("lifecycle_configurations", json!(cfgs.iter().map(|c| c.name()).collect::<Vec<_>>()));
        ctx.par_run_init(cfgs.len() as u64, 1, |wi| Worker::new(wi as usize), |i, l, w| {
            let cfg = cfgs[i as usize];
            l.eval();
            let dir = tmp_root().join(format!("lifecycle-{i}"));
            let fs = vupd::lifecycle::run(&dir, &cfg, || Some(dnssecfam::zone_signer()), &w.rt);
            if fs.is_empty() {
                l.outcome("lifecycle:three-starts-agree");
                l.nontrivial(vupd::digest(&("lifecycle", cfg.name())));
            }
            for f in fs {
                l.violation(&f.key, &f.what, || json!({"lifecycle": true, "configuration": cfg.name(), "axfr": cfg.axfr, "allow_update": cfg.allow_update, "dnssec": cfg.dnssec}));
            }
        });
    }
    // audit round: journal files as a stop during their creation leaves them
    {
        let mut w = Worker::new(9999);
        ctx.with_local(|l| run_schema_states(&mut w, &zones[0].1, l));
    }
    // audit round: the DNSSEC-enabled journal (is_dnssec_enabled = true, keys loaded after the start)
    {
        let dh = dnssecfam::histories(&alpha, if thorough { 3 } else { 2 });
        ctx.set("dnssec_journal_histories", json!(dh.len()));
        ctx.set("dnssec_journal_alphabet", json!(dnssecfam::DNSSEC_ALPHABET));
        // kinds part: singles x {NSEC, NSEC3}; ordered pairs: quick NSEC over the CNAME-related
        // sub-list, thorough every pair x {NSEC, NSEC3}
        let kev = dnssecfam::kinds_events(&alpha);
        let mut kt: Vec<(Vec<usize>, bool)> = vec![];
        for nsec3 in [false, true] {
            kt.push((vec![], nsec3));
            for a in &kev {
                kt.push((vec![*a], nsec3));
            }
        }
        let pair_kinds: Vec<usize> = if thorough { kev.clone() } else { kev.iter().cloned().filter(|i| dnssecfam::QUICK_PAIR_KINDS.contains(&alpha[*i].name)).collect() };
        for nsec3 in if thorough { vec![false, true] } else { vec![false] } {
            for a in &pair_kinds {
                for b in &pair_kinds {
                    kt.push((vec![*a, *b], nsec3));
                }
            }
        }
        ctx.set("dnssec_journal_kinds_histories", json!(kt.len()));
        let n_dh = dh.len();
        ctx.par_run_init((n_dh + kt.len()) as u64, 1, |wi| Worker::new(wi as usize), |i, l, w| {
            let i = i as usize;
            if i < n_dh {
                dnssecfam::run(w, &alpha, &zones[0].1, zones[0].0, &dh[i], false, true, l);
            } else {
                let (h, nsec3) = &kt[i - n_dh];
                dnssecfam::run(w, &alpha, &zones[KINDS_ZONE].1, zones[KINDS_ZONE].0, h, *nsec3, false, l);
            }
        });
    }
    let _ = std::fs::remove_dir_all(tmp_root());

    for class in ["lifecycle:three-starts-agree", "dnssec:boundary-content-recovered", "dnssec:nsec3:boundary-content-recovered", "dnssec:continuation-step-agrees", "journal-variant-recovers-alike:rowids-with-gaps", "journal-variant-recovers-alike:records-reencoded-uncompressed-upper-case", "stop:inside-initial-dump", "stop:at-message-boundary", "stop:inside-message-row-group", "continuation-step-agrees", "write-failure:stop-recovered", "write-failure:continuation-step-agrees"] {
        if ctx.outcome_count(class) == 0 {
            ctx.machinery_failure(&format!("vacuous run: outcome class {class} never exercised"));
        }
    }
    if ctx.outcome_count("second-crash-recovery") == 0 {
        ctx.machinery_failure("vacuous run: no second crash was exercised");
    }
    if ctx.outcome_count("machinery:in-flight-soa-query-did-not-complete") > 0 {
        ctx.machinery_failure("an in-flight SOA query at a journal write point did not complete in one poll");
    }
    if ctx.outcome_count("machinery:selftest-mismatch") > 0 || ctx.outcome_count("selftest-rerun") == 0 {
        ctx.machinery_failure("determinism self-test failed or did not run");
    }
    if ctx.outcome_count("machinery:crash-free-run-shorter-than-continuation") > 0 {
        ctx.machinery_failure("crash-free reference run ended early");
    }
    ctx.finish(true);
}
