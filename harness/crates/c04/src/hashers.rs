//! Hash oracle machinery: `Hash` must be consistent with `Eq` for EVERY `Hasher`. std's SipHash
//! is a pure byte-stream hasher (the value depends only on the concatenation of everything
//! written), so it cannot see how the octets are chunked across `write` / `write_u8` / ... calls.
//! The strongest portable formulation is therefore: equal values make the IDENTICAL sequence of
//! Hasher method calls (recorded here call by call, with the argument), checked next to three
//! concrete hashers: SipHash, the chunk-sensitive FxHasher 1.x algorithm and a length-prefixing
//! hasher (both implemented here, no dependency).

use std::hash::{BuildHasherDefault, Hash, Hasher};

/// Logs every stable `Hasher` method call: one tag octet per method, then the argument octets
/// (for `write`: an 8-octet length first, so that call boundaries are part of the log).
#[derive(Default, Clone)]
pub struct Recorder {
    pub log: Vec<u8>,
}

macro_rules! rec_int {
    ($name:ident, $t:ty, $tag:expr) => {
        fn $name(&mut self, i: $t) {
            self.log.push($tag);
            self.log.extend_from_slice(&i.to_le_bytes());
        }
    };
}

impl Hasher for Recorder {
    fn finish(&self) -> u64 {
        vcore::fnv64(&self.log)
    }
    fn write(&mut self, bytes: &[u8]) {
        self.log.push(0);
        self.log.extend_from_slice(&(bytes.len() as u64).to_le_bytes());
        self.log.extend_from_slice(bytes);
    }
    rec_int!(write_u8, u8, 1);
    rec_int!(write_u16, u16, 2);
    rec_int!(write_u32, u32, 3);
    rec_int!(write_u64, u64, 4);
    rec_int!(write_u128, u128, 5);
    rec_int!(write_usize, usize, 6);
    rec_int!(write_i8, i8, 7);
    rec_int!(write_i16, i16, 8);
    rec_int!(write_i32, i32, 9);
    rec_int!(write_i64, i64, 10);
    rec_int!(write_i128, i128, 11);
    rec_int!(write_isize, isize, 12);
}

/// Human-readable form of a recorded call log (for witnesses).
pub fn render(log: &[u8]) -> String {
    let names = ["write", "write_u8", "write_u16", "write_u32", "write_u64", "write_u128", "write_usize", "write_i8", "write_i16", "write_i32", "write_i64", "write_i128", "write_isize"];
    let sizes = [0usize, 1, 2, 4, 8, 16, std::mem::size_of::<usize>(), 1, 2, 4, 8, 16, std::mem::size_of::<isize>()];
    let mut out = vec![];
    let mut p = 0;
    while p < log.len() && out.len() < 40 {
        let t = log[p] as usize;
        p += 1;
        if t == 0 {
            let n = u64::from_le_bytes(log[p..p + 8].try_into().unwrap()) as usize;
            p += 8;
            out.push(format!("write({})", vcore::hex::enc(&log[p..p + n])));
            p += n;
        } else if t < names.len() {
            out.push(format!("{}({})", names[t], vcore::hex::enc(&log[p..p + sizes[t]])));
            p += sizes[t];
        } else {
            break;
        }
    }
    out.join(" ")
}

/// FxHasher 1.x: `hash = (hash.rotate_left(5) ^ word) * K`, a `write` call is consumed in 8/4/2/1
/// octet words — the result depends on the chunking of the input across calls.
#[derive(Default, Clone)]
pub struct Fx {
    hash: u64,
}

const FX_K: u64 = 0x51_7c_c1_b7_27_22_0a_95;

impl Fx {
    #[inline]
    fn add(&mut self, w: u64) {
        self.hash = (self.hash.rotate_left(5) ^ w).wrapping_mul(FX_K);
    }
}

impl Hasher for Fx {
    fn finish(&self) -> u64 {
        self.hash
    }
    fn write(&mut self, mut b: &[u8]) {
        while b.len() >= 8 {
            self.add(u64::from_le_bytes(b[..8].try_into().unwrap()));
            b = &b[8..];
        }
        if b.len() >= 4 {
            self.add(u32::from_le_bytes(b[..4].try_into().unwrap()) as u64);
            b = &b[4..];
        }
        if b.len() >= 2 {
            self.add(u16::from_le_bytes(b[..2].try_into().unwrap()) as u64);
            b = &b[2..];
        }
        if let Some(x) = b.first() {
            self.add(*x as u64);
        }
    }
    fn write_u8(&mut self, i: u8) {
        self.add(i as u64);
    }
    fn write_u16(&mut self, i: u16) {
        self.add(i as u64);
    }
    fn write_u32(&mut self, i: u32) {
        self.add(i as u64);
    }
    fn write_u64(&mut self, i: u64) {
        self.add(i);
    }
    fn write_usize(&mut self, i: usize) {
        self.add(i as u64);
    }
}

/// A hasher that mixes the LENGTH of every `write` call into the state before the octets (as
/// hashers with per-call finalisation do): `write(&[a, b])` differs from two one-octet writes.
#[derive(Clone)]
pub struct LenPrefix {
    h: u64,
}

impl Default for LenPrefix {
    fn default() -> Self {
        LenPrefix { h: 0xcbf29ce484222325 }
    }
}

impl Hasher for LenPrefix {
    fn finish(&self) -> u64 {
        self.h
    }
    fn write(&mut self, bytes: &[u8]) {
        for x in (bytes.len() as u64).to_le_bytes().iter().chain(bytes.iter()) {
            self.h ^= *x as u64;
            self.h = self.h.wrapping_mul(0x100000001b3);
        }
    }
}

pub type FxBuild = BuildHasherDefault<Fx>;

/// (SipHash, Fx, length-prefixing, recorded call log) of one value.
#[derive(Clone, Default)]
pub struct Hashes {
    pub sip: u64,
    pub fx: u64,
    pub lp: u64,
    pub log: Vec<u8>,
}

pub fn hashes<T: Hash>(t: &T) -> Hashes {
    let mut s = std::collections::hash_map::DefaultHasher::new();
    t.hash(&mut s);
    let mut f = Fx::default();
    t.hash(&mut f);
    let mut l = LenPrefix::default();
    t.hash(&mut l);
    let mut r = Recorder::default();
    t.hash(&mut r);
    Hashes { sip: s.finish(), fx: f.finish(), lp: l.finish(), log: r.log }
}

/// Which clause fails for two values that compare equal (None = consistent).
pub fn mismatch(a: &Hashes, b: &Hashes) -> Option<&'static str> {
    if a.sip != b.sip {
        Some("siphash-differs")
    } else if a.log != b.log {
        Some("hasher-call-sequence-differs")
    } else if a.fx != b.fx {
        Some("fxhash-differs")
    } else if a.lp != b.lp {
        Some("length-prefixing-hash-differs")
    } else {
        None
    }
}
