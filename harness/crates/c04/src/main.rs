//! C04 — domain names: case-insensitive identity, canonical order, length limits, wire/text
//! round trips.
//!
//! E-ENUM over five declared families, all executed on the real `Name` / `LowerName` / `RrKey` /
//! `BinEncoder` / `BinDecoder` code and judged against `vref::name` (written from RFC 1035 3.1,
//! RFC 4343, RFC 4034 6.1) and the independent wire walker `vref::wire`:
//!
//! * pair   — ALL ordered pairs of a name universe: eq, hash, cmp (+ LowerName, RrKey)
//! * triple — all triples of a small absolute+relative universe: transitivity
//! * wire   — name x offset {0,12,0x3ffe,0x3fff,0x4000} x compression scenario x encoding mode;
//!            hickory's decoder on reference-made literal / pointer encodings
//! * text   — all host-style names of 1..3 labels: to_ascii/from_ascii, Display/FromStr
//! * limit  — label-length vectors around 63 / 255 through every constructor and combinator

mod common;
mod hashers;
mod laws;
mod limits;
mod pairs;
mod seqfam;
mod textfam;
mod wirefam;

use serde_json::json;
use vcore::{Ctx, Odometer};
use vref::name::{Labels, RefName};

use common::*;

fn fq(names: Vec<Labels>) -> Vec<RefName> {
    names.into_iter().map(|l| RefName::new(l, true)).collect()
}

fn both(names: Vec<Labels>) -> Vec<RefName> {
    let mut v = vec![];
    for l in names {
        v.push(RefName::new(l.clone(), true));
        v.push(RefName::new(l, false));
    }
    v
}

/// Names at the length limits for the wire family (all valid).
fn boundary_names() -> Vec<Labels> {
    let shapes: Vec<Vec<usize>> = vec![
        vec![63, 63, 63, 61],
        vec![61, 63, 63, 63],
        vec![63, 63, 63, 60],
        vec![1; 127],
        vec![1; 126],
        vec![62, 62, 62, 62, 1],
        vec![63],
        vec![63, 63],
        {
            let mut v = vec![1; 95];
            v.push(63);
            v
        },
    ];
    let mut out: Vec<Labels> = shapes.iter().map(|s| limits::fill(s)).collect();
    out.extend(limits::inline_boundary_shapes().iter().map(|s| limits::fill(s)));
    // arbitrary octets at full length
    out.push(vec![vec![0xff; 63], vec![0x00; 63], vec![b'.'; 63], vec![b'A'; 61]]);
    out
}

fn main() {
    // a stack overflow / abort in the code under test must become a verdict, not a dead check
    vcore::supervise("C04");
    vcore::install_log_evaluation(); // logging is part of the environment: log arguments are evaluated as under a real subscriber
    let ctx = Ctx::from_args("C04", "exploration");
    let thorough = !ctx.quick();

    if let Some((_key, case)) = ctx.replay_case() {
        ctx.with_local(|l| match case["family"].as_str().unwrap_or("") {
            "pair" => pairs::replay_pair(&case, l),
            "triple" => pairs::replay_triple(&case, l),
            "label-pair" => pairs::replay_label_pair(&case, l),
            "law" => laws::replay_unary(&case, l),
            "law-pair" => laws::replay_pair(&case, l),
            "wire" => wirefam::replay_wire(&case, l),
            "refbytes" => wirefam::replay_refbytes(&case, l),
            "text" => textfam::replay_text(&case, l),
            "origin" => textfam::replay_origin(&case, l),
            "escape" => textfam::replay_escape(&case, l),
            "sequence" => seqfam::replay_sequence(&case, l),
            "limit" | "limit-unicode" => limits::replay_limit(&case, l),
            "construct" => {
                let r = name_from_json(&case["name"]);
                match build(&r) {
                    Ok(h) if observe(&h) == r => {}
                    Ok(_) => l.violation("construct:from_labels-content", "from_labels + iter() do not reproduce the labels", || case.clone()),
                    Err(e) => l.violation("construct:from_labels-rejects-valid", &e, || case.clone()),
                }
                l.eval();
            }
            other => vcore::machinery_exit(&format!("unknown replay family {other:?}")),
        });
        ctx.finish(false);
    }

    ctx.set_rule(
        "E-ENUM. Octet alphabet O = {00 - . * 0 A Z [ \\ _ a z 7f 80 ff} (thorough) / {00 . @ A Z [ ` a z { 80 ff} (quick); labels = all strings over O of length 1..2 plus fill \
         labels of 62/63 octets; U1 = all absolute names of 0..2 labels over those labels; U2 = all names of 0..2 labels over \
         the 9-octet sub-alphabet {00 . A Z [ a z 80 ff} (quick: 7 octets {00 . A Z [ a ff}), absolute AND relative; UL = all names of 0..3 labels over {* *a a* ** a A b a.b 00 *x63}, absolute and relative; thorough adds U3 = 0..3 labels over {00 A [ a ff}. law family: on every name of U1, U2, UL: num_labels = labels - [first label is `*`], is_wildcard, is_root, iter/rev/len, len() = wire length - 1, to_lowercase, LowerName round trips and accessors, trim_to(k) for every k, base_name, into_wildcard; on every ordered pair of U2 and UL: eq_case, cmp_case (canonical order without folding), eq_ignore_root(_case), zone_of / zone_of_case / LowerName::zone_of = suffix relation. \
         pair family: all ordered pairs of labels (Label eq/hash/cmp); hash = recorded Hasher call sequence + SipHash + FxHash + length-prefixing hash on every equal pair and of every name against its lower-case twin, HashMap<Name|LowerName|RrKey, _, Fx> insert/lookup on every equal pair; ALL ordered pairs of U1 (Name eq/hash/cmp), of U2 (all clauses incl. \
         LowerName/RrKey eq/hash/cmp, absolute x relative) and of U3, oracle = vref::name (ASCII-folded label identity + flag; RFC 4034 \
         6.1 comparator via dense ranks); triple family: transitivity over all triples of a 1-label/2-label absolute+relative \
         universe. wire family: every name of U1 (+ names at 255 octets / 127 labels) x offsets {0,12,3ffe,3fff,4000} x \
         {alone, prior identical/suffix/case-variant near and far, follower identical/extended/case-variant} x {compressed, \
         uncompressed, lowercase} through Name::emit and Name::read, judged by vref::wire::read_name + label identity incl. case \
         + cursor; hickory's decoder on reference-made literal and pointer encodings. text family: all host-style names (labels \
         over {a Z 0 _ .} with interior '-', 63-octet labels, leading '*' label) of 1..3 labels, absolute and relative: \
         from_ascii(to_ascii(n)) identical octets, from_str(to_string(n)) == n. wire family also for every RELATIVE name of U2 (labels and case must come back; the decoded name is absolute). origin family: Name::parse(text, origin) for every host-style local name of 0..2 labels over {a Z 0 _a a_b a.b a-b x*63 * xn--zs9h} (absolute, relative, empty) and the free-standing '@' x 21 origin shapes (none, root, z., Z.a., relative-flag origins, *.z., odd octets, 127 labels, wire lengths 255..251 and 195): Ok results obey the limits, carry local++origin (resp. the origin for '@', the local name if absolute) and the absolute flag; 15 IDNA-looking host-style labels (valid/invalid punycode, upper-case prefix, 63 octets) x 3 positions x 2 flags through the text clauses. sequence family: every triple of 13 names with all suffix/case relations x offsets {0,12,3ff8} x {compressed, uncompressed} and 7 long sequences (127 nested names, one name x130, case-alternating x130, 70 siblings + repeats, 125 distinct names twice, full-length names) through ONE encoder and ONE decoder, plus the same sequences compressed by an independent maximal compressor and decoded by hickory (rejections of the 127-nest reference form are observations). UB = names at the inline/heap storage boundary (31/32/33 label octets, 23/24/25 labels) with case-swapped, one-octet and wildcard variants through the pair, law, wire, text and limit families. escape family: every octet 0..255 at first/middle/last/only position of a label through to_ascii/to_utf8/Display and back (judged for host-style names, observations otherwise); hickory's parser on the reference presentation whenever its own printer differs. limit family: label-length vectors ({62,63,64}^0..4 \
         padded to wire totals 253..257, up to 128 labels, single labels up to 300) through from_labels, read (literal, pointer, \
         pointer chain), from_ascii/from_utf8/parse/from_str(+origin, escapes), append_label, prepend_label, append_name, \
         append_domain, into_wildcard, to_lowercase, base_name, trim_to: Err, or a name with every label 1..63 and wire length \
         <= 255 carrying the requested labels. Non-trivial = distinct unordered pairs differing only by case, by exactly one \
         octet or by label-boundary placement; wire cases that emitted/decoded a pointer or carry upper-case/non-printable \
         octets; text cases with escapes/star/underscore/hyphen/upper case; limit results at >= 253 octets or with a label >= 62.",
    );
    ctx.assume("vref::name (RFC 1035 3.1, RFC 4343, RFC 4034 6.1) and vref::wire::read_name are the reference");
    ctx.assume("'Hash consistent with Eq for every Hasher' is judged as: equal values make the identical sequence of (stable) Hasher method calls, and hash equally under SipHash, the chunk-sensitive FxHasher 1.x algorithm and a length-prefixing hasher; HashMap<_, _, Fx> lookups by an equal key hit");
    ctx.assume("relative vs absolute names: RFC 4034 orders absolute names only; across the divide only a total order consistent with equality is demanded");

    // ------------------------------------------------------------------ pair family
    let full_labels = if thorough { labels_over(&OCTETS, true) } else { labels_over(&QUICK12, true) };
    pairs::run_label_pairs(&ctx, &full_labels);
    let u1 = pairs::universe(&ctx, fq(names_over(&full_labels, 2)));
    pairs::run_pairs(&ctx, &u1, false, false, "u1_absolute_full_alphabet");

    let sub_labels = if thorough { labels_over(&SUB9, true) } else { labels_over(&SUB7, true) };
    let u2 = pairs::universe(&ctx, both(names_over(&sub_labels, 2)));
    pairs::run_pairs(&ctx, &u2, true, true, "u2_absolute_and_relative");
    pairs::run_unary_laws(&ctx, &u2);
    pairs::run_unary_laws(&ctx, &u1);
    // UL: wildcard-shaped labels at every position, 0..3 labels, absolute and relative (the law
    // family's own universe: `*` first / interior / last, labels that merely start or end with `*`)
    let star_labels: Vec<Vec<u8>> = vec![
        b"*".to_vec(), b"*a".to_vec(), b"a*".to_vec(), b"**".to_vec(), b"a".to_vec(), b"A".to_vec(), b"b".to_vec(), b"a.b".to_vec(), vec![0x00], vec![b'*'; 63],
    ];
    let ul = pairs::universe(&ctx, both(names_over(&star_labels, 3)));
    pairs::run_pairs(&ctx, &ul, true, true, "ul_wildcard_shapes");
    pairs::run_unary_laws(&ctx, &ul);
    // UB: names at the inline/heap boundary of Name's storage (31/32/33 label octets, 23/24/25
    // labels), each with a case-swapped and a one-octet variant, absolute and relative
    let mut ubn: Vec<Labels> = vec![];
    for s in limits::inline_boundary_shapes() {
        let base = limits::fill(&s);
        ubn.push(vref::name::swap_case(&base));
        let mut one = base.clone();
        let last = one.len() - 1;
        one[last][0] ^= 0x01;
        ubn.push(one);
        let mut wild = base.clone();
        wild[0] = b"*".to_vec();
        ubn.push(wild);
        ubn.push(base);
    }
    let ub = pairs::universe(&ctx, both(ubn));
    pairs::run_pairs(&ctx, &ub, true, true, "ub_inline_heap_boundary");
    pairs::run_unary_laws(&ctx, &ub);

    if thorough {
        let l5 = labels_over(&SUB5, true);
        let u3 = pairs::universe(&ctx, fq(names_over(&l5, 3)));
        pairs::run_pairs(&ctx, &u3, true, false, "u3_three_labels");
    }

    ctx.set("wall_after_pairs_s", json!(ctx.elapsed_s()));
    // ------------------------------------------------------------------ triple family
    {
        let tl: Vec<Vec<u8>> = vec![b"a".to_vec(), b"A".to_vec(), b"b".to_vec(), vec![0], b"[".to_vec(), b"ab".to_vec(), b"a.".to_vec(), vec![0xff]];
        let mut names = names_over(&tl, 2);
        if thorough {
            names.extend(names_over(&tl[..4], 3).into_iter().filter(|n| n.len() == 3));
        }
        let ut = pairs::universe(&ctx, both(names));
        pairs::run_triples(&ctx, &ut);
    }

    // ------------------------------------------------------------------ wire family
    {
        let mut wn: Vec<Labels> = u1.iter().map(|e| e.r.labels.clone()).collect();
        wn.extend(boundary_names());
        let built: Vec<(Labels, hickory_proto::rr::Name)> = wn
            .into_iter()
            .filter_map(|l| build(&RefName::new(l.clone(), true)).ok().map(|h| (l, h)))
            .collect();
        let scens = wirefam::scenarios();
        let od = Odometer::new(&[built.len() as u64, wirefam::OFFSETS.len() as u64]);
        ctx.set("wire_names", json!(built.len()));
        ctx.par_run_init(
            od.space(),
            64,
            |_| Vec::<u8>::with_capacity(0x4200),
            |i, l, buf| {
                let d = od.get(i);
                let (labels, h) = &built[d[0] as usize];
                let off = wirefam::OFFSETS[d[1] as usize];
                for &s in &scens {
                    for m in wirefam::MODES {
                        if m == wirefam::Mode::Lowercase && s != wirefam::Scen::Alone {
                            continue;
                        }
                        wirefam::run_wire_case(labels, h, false, off, s, m, buf, l);
                    }
                }
                for f in wirefam::forms(labels.len()) {
                    wirefam::run_refbytes_case(labels, h, off, f, buf, l);
                }
                if i % 60013 == 0 {
                    l.sample(wirefam::wire_case_json(labels, off, scens[(i % scens.len() as u64) as usize], wirefam::Mode::Compressed, false));
                }
            },
        );
    }

    // relative names: emit writes the labels plus the root octet; the labels (incl. case) must come back
    {
        let rels: Vec<(Labels, hickory_proto::rr::Name)> = u2.iter().chain(ub.iter()).filter(|e| !e.r.fqdn).map(|e| (e.r.labels.clone(), e.h.clone())).collect();
        let scens = wirefam::scenarios();
        let od = Odometer::new(&[rels.len() as u64, wirefam::OFFSETS.len() as u64]);
        ctx.set("wire_relative_names", json!(rels.len()));
        ctx.par_run_init(
            od.space(),
            64,
            |_| Vec::<u8>::with_capacity(0x4200),
            |i, l, buf| {
                let d = od.get(i);
                let (labels, h) = &rels[d[0] as usize];
                let off = wirefam::OFFSETS[d[1] as usize];
                for &s in &scens {
                    for m in wirefam::MODES {
                        if m == wirefam::Mode::Lowercase && s != wirefam::Scen::Alone {
                            continue;
                        }
                        wirefam::run_wire_case(labels, h, true, off, s, m, buf, l);
                    }
                }
                if i % 20011 == 3 {
                    l.sample(wirefam::wire_case_json(labels, off, wirefam::Scen::Alone, wirefam::Mode::Compressed, true));
                }
            },
        );
    }
    // ------------------------------------------------------------------ sequence family (one encoder, one decoder)
    {
        let ta = seqfam::triple_alphabet();
        let k = ta.len() as u64;
        let offs = [0usize, 12, 0x3ff8];
        let od = Odometer::new(&[k, k, k, offs.len() as u64, 2]);
        ctx.set("sequence_triples", json!(od.space()));
        ctx.par_run(od.space(), 32, |i, l| {
            let d = od.get(i);
            let names = vec![ta[d[0] as usize].clone(), ta[d[1] as usize].clone(), ta[d[2] as usize].clone()];
            seqfam::run_sequence("triple", &names, offs[d[3] as usize], d[4] == 0, true, l);
            if i % 3001 == 17 {
                l.sample(seqfam::seq_case_json("triple", &names, offs[d[3] as usize], d[4] == 0));
            }
        });
        let longs = seqfam::long_sequences();
        let loffs = [12usize, 0x3f00];
        ctx.set("sequence_long", json!(longs.len() * loffs.len() * 2));
        ctx.par_run((longs.len() * loffs.len() * 2) as u64, 1, |i, l| {
            let i = i as usize;
            let (kind, names, judge) = &longs[i / (loffs.len() * 2)];
            let off = loffs[(i / 2) % loffs.len()];
            seqfam::run_sequence(kind, names, off, i % 2 == 0, *judge, l);
        });
    }
    ctx.set("wall_after_wire_s", json!(ctx.elapsed_s()));
    // ------------------------------------------------------------------ text family
    {
        let hl = textfam::host_labels(thorough);
        let k = hl.len() as u64;
        let total = textfam::count(k, 3);
        ctx.set("text_labels", json!(k));
        ctx.set("text_names", json!(2 * (total + 1 + textfam::count(k, 2) + 1)));
        ctx.par_run(total, 256, |i, l| {
            let labels = textfam::nth(&hl, 3, i);
            for f in [true, false] {
                textfam::run_text_case(&RefName::new(labels.clone(), f), true, l);
            }
            // leading `*` label followed by 0..2 labels: enumerate on the indices of the 1..2-label block
            if i < textfam::count(k, 2) {
                let mut w = vec![b"*".to_vec()];
                w.extend(labels.iter().cloned());
                for f in [true, false] {
                    textfam::run_text_case(&RefName::new(w.clone(), f), true, l);
                }
            }
            if i % 60013 == 0 {
                l.sample(textfam::text_case_json(&RefName::new(labels.clone(), true)));
            }
        });
        ctx.with_local(|l| {
            textfam::run_text_case(&RefName::new(vec![], true), true, l);
            for f in [true, false] {
                textfam::run_text_case(&RefName::new(vec![b"*".to_vec()], f), true, l);
                // full-length host-style names
                textfam::run_text_case(&RefName::new(limits::fill(&[63, 63, 63, 61]), f), true, l);
                textfam::run_text_case(&RefName::new(limits::fill(&vec![1; 127]), f), true, l);
            }
            // outside the class of the statement: observations only
            for lab in [&b"-a"[..], b"a-", b"-", b"a*", b"*a"] {
                for rest in [vec![], vec![b"z".to_vec()]] {
                    let mut v = vec![lab.to_vec()];
                    v.extend(rest);
                    textfam::run_text_case(&RefName::new(v.clone(), true), false, l);
                    let mut w = vec![b"z".to_vec()];
                    w.extend(v);
                    textfam::run_text_case(&RefName::new(w, true), false, l);
                }
            }
            textfam::run_text_case(&RefName::new(vec![b"a".to_vec(), b"*".to_vec(), b"z".to_vec()], true), false, l);
        });
    }

    // ------------------------------------------------------------------ parse x origin shapes, IDNA-looking labels
    {
        let hl: Vec<Vec<u8>> = vec![
            b"a".to_vec(), b"Z".to_vec(), b"0".to_vec(), b"_a".to_vec(), b"a_b".to_vec(), b"a.b".to_vec(), b"a-b".to_vec(), vec![b'x'; 63], b"*".to_vec(), b"xn--zs9h".to_vec(),
        ];
        let mut locals: Vec<(String, Option<RefName>)> = vec![("@".to_string(), None)];
        for labels in names_over(&hl, 2) {
            for f in [true, false] {
                let r = RefName::new(labels.clone(), f);
                if let Some(t) = vref::name::present_host(&r) {
                    locals.push((t, Some(r)));
                }
            }
        }
        let mut origins: Vec<Option<RefName>> = vec![
            None,
            Some(RefName::new(vec![], true)),
            Some(RefName::new(vec![b"z".to_vec()], true)),
            Some(RefName::new(vec![b"Z".to_vec(), b"a".to_vec()], true)),
            Some(RefName::new(vec![b"z".to_vec()], false)),
            Some(RefName::new(vec![], false)),
            Some(RefName::new(vec![b"*".to_vec(), b"z".to_vec()], true)),
            Some(RefName::new(vec![b"a.b".to_vec(), vec![0x00, 0xff]], true)),
            Some(RefName::new(limits::fill(&vec![1; 127]), true)),
        ];
        for last in [61usize, 60, 59, 58, 57, 1] {
            origins.push(Some(RefName::new(limits::fill(&[63, 63, 63, last]), true)));
            origins.push(Some(RefName::new(limits::fill(&[63, 63, 63, last]), false)));
        }
        let od = Odometer::new(&[locals.len() as u64, origins.len() as u64]);
        ctx.set("origin_cases", json!(od.space()));
        ctx.par_run(od.space(), 32, |i, l| {
            let d = od.get(i);
            let (t, r) = &locals[d[0] as usize];
            let o = &origins[d[1] as usize];
            textfam::run_origin_case(t, r.as_ref(), o.as_ref(), l);
            if i % 1511 == 9 {
                l.sample(textfam::origin_case_json(t, o.as_ref()));
            }
        });
        // IDNA-looking host-style labels (letters, digits, interior hyphens): valid punycode, invalid
        // punycode, upper-case prefix, punycode of an all-ASCII string, maximal length
        let idna: Vec<Vec<u8>> = vec![
            b"xn--zs9h".to_vec(), b"XN--ZS9H".to_vec(), b"Xn--zs9h".to_vec(), b"xn--a".to_vec(), b"xn--mnchen-3ya".to_vec(), b"xn--MNCHEN-3YA".to_vec(),
            b"xn--0".to_vec(), b"xn--abc-def".to_vec(), b"xn--a-a".to_vec(), b"xn--80ak6aa92e".to_vec(), b"xn--nxasmq6b".to_vec(), b"xn--nxasmm1c".to_vec(),
            b"ab--c".to_vec(), b"a--".iter().chain(b"b".iter()).cloned().collect(),
            { let mut v = b"xn--".to_vec(); v.extend(std::iter::repeat(b'a').take(59)); v },
        ];
        ctx.with_local(|l| {
            for lab in &idna {
                for shape in 0..3 {
                    let labels: Labels = match shape {
                        0 => vec![lab.clone()],
                        1 => vec![lab.clone(), b"z".to_vec()],
                        _ => vec![b"a".to_vec(), lab.clone()],
                    };
                    for f in [true, false] {
                        textfam::run_text_case(&RefName::new(labels.clone(), f), true, l);
                        l.outcome("text:idna-looking-label-case");
                    }
                }
            }
        });
    }
    // escape family: every octet at every position of a label; names at the inline/heap boundary
    ctx.par_run(256 * 4 * 2, 64, |i, l| {
        textfam::run_escape_case((i % 256) as u8, ((i / 256) % 4) as usize, i / 1024 == 0, l);
    });
    ctx.with_local(|l| {
        for s in limits::inline_boundary_shapes() {
            for f in [true, false] {
                textfam::run_text_case(&RefName::new(limits::fill(&s), f), true, l);
                let mut dotted = limits::fill(&s);
                let last = dotted.len() - 1;
                dotted[last][0] = b'.';
                textfam::run_text_case(&RefName::new(dotted, f), true, l);
            }
        }
    });
    ctx.set("wall_after_text_s", json!(ctx.elapsed_s()));
    // ------------------------------------------------------------------ limit family
    {
        let shapes = limits::shapes();
        ctx.set("limit_shapes", json!(shapes.len()));
        ctx.set("limit_max_labels", json!(shapes.iter().map(|s| s.len()).max().unwrap_or(0)));
        ctx.par_run(shapes.len() as u64, 4, |i, l| {
            limits::run_shape(&shapes[i as usize], l);
            if i % 239 == 0 {
                l.sample(limits::shape_json(&shapes[i as usize]));
            }
        });
        ctx.par_run(80, 4, |i, l| limits::run_unicode(i as usize + 1, l));
    }

    // ------------------------------------------------------------------ vacuity guards
    for class in [
        "pair:nontrivial-ordered",
        "hash:fx-hashmap-lookup-by-case-variant-ok",
        "hash:twin-with-other-case-compared",
        "wire:ok:pointer-emitted",
        "wire:ok:pointer-emitted-high-offset",
        "wire:ok:no-pointer",
        "wire:ok:relative-name",
        "seq:ok:pointers-emitted",
        "seq:ok:no-pointer",
        "seq:ok:more-than-120-names",
        "seq:ok:reference-compressed",
        "law:unary:ok",
        "origin:ok:at:absolute-origin",
        "origin:ok:relative:absolute-origin",
        "origin:ok:relative:root-origin",
        "origin:ok:absolute:absolute-origin",
        "origin:err:relative:absolute-origin",
        "text:idna-looking-label-case",
        "escape:host:from_ascii-roundtrip-ok",
        "escape:dot:from_ascii-roundtrip-ok",
        "law:unary:ok:wildcard",
        "law:pair:zone_of-true",
        "refbytes:ok:pointer",
        "text:ascii-roundtrip:ok",
        "text:display-fromstr:ok",
        "text:to_ascii-equals-reference-presentation",
        "limit:ok-at-255",
        "limit:from_labels:err-for-invalid",
        "limit:read:err-for-invalid",
        "limit:append_label:err-for-invalid",
        "limit:prepend_label:err-for-invalid",
        "limit:append_name:err-for-invalid",
        "limit:append_domain:err-for-invalid",
        "limit:from_ascii:err-for-invalid",
        "limit:parse-origin:err-for-invalid",
        "limit:read-pointer:err-for-invalid",
    ] {
        if ctx.outcome_count(class) == 0 {
            ctx.machinery_failure(&format!("vacuous run: outcome class {class} was never exercised"));
        }
    }
    ctx.finish(true);
}
