//! C04 — domain names: case-insensitive identity, canonical order, length limits, wire/text
//! round trips.
//!
//! E-ENUM over five declared families, all executed on the real `Name` / `LowerName` / `RrKey` /
//! `BinEncoder` / `BinDecoder` code and judged against `vref::name` (written from RFC 1035 3.1,
//! RFC 4343, RFC 4034 6.1) and the independent wire walker `vref::wire`:
//!
//! * pair   — ALL ordered pairs of a name universe: eq, hash, cmp (+ LowerName, RrKey)
//! * triple — all triples of a small absolute+relative universe: transitivity
//! * wire   — name x offset {0,12,0x3ffe,0x3fff,0x4000} x compression scenario x encoding mode;
//!            hickory's decoder on reference-made literal / pointer encodings
//! * text   — all host-style names of 1..3 labels: to_ascii/from_ascii, Display/FromStr
//! * limit  — label-length vectors around 63 / 255 through every constructor and combinator

mod common;
mod limits;
mod pairs;
mod textfam;
mod wirefam;

use serde_json::json;
use vcore::{Ctx, Odometer};
use vref::name::{Labels, RefName};

use common::*;

fn fq(names: Vec<Labels>) -> Vec<RefName> {
    names.into_iter().map(|l| RefName::new(l, true)).collect()
}

fn both(names: Vec<Labels>) -> Vec<RefName> {
    let mut v = vec![];
    for l in names {
        v.push(RefName::new(l.clone(), true));
        v.push(RefName::new(l, false));
    }
    v
}

/// Names at the length limits for the wire family (all valid).
fn boundary_names() -> Vec<Labels> {
    let shapes: Vec<Vec<usize>> = vec![
        vec![63, 63, 63, 61],
        vec![61, 63, 63, 63],
        vec![63, 63, 63, 60],
        vec![1; 127],
        vec![1; 126],
        vec![62, 62, 62, 62, 1],
        vec![63],
        vec![63, 63],
        {
            let mut v = vec![1; 95];
            v.push(63);
            v
        },
    ];
    let mut out: Vec<Labels> = shapes.iter().map(|s| limits::fill(s)).collect();
    // arbitrary octets at full length
    out.push(vec![vec![0xff; 63], vec![0x00; 63], vec![b'.'; 63], vec![b'A'; 61]]);
    out
}

fn main() {
    // a stack overflow / abort in the code under test must become a verdict, not a dead check
    vcore::supervise("C04");
    let ctx = Ctx::from_args("C04", "exploration");
    let thorough = !ctx.quick();

    if let Some((_key, case)) = ctx.replay_case() {
        ctx.with_local(|l| match case["family"].as_str().unwrap_or("") {
            "pair" => pairs::replay_pair(&case, l),
            "triple" => pairs::replay_triple(&case, l),
            "label-pair" => pairs::replay_label_pair(&case, l),
            "wire" => wirefam::replay_wire(&case, l),
            "refbytes" => wirefam::replay_refbytes(&case, l),
            "text" => textfam::replay_text(&case, l),
            "limit" | "limit-unicode" => limits::replay_limit(&case, l),
            "construct" => {
                let r = name_from_json(&case["name"]);
                match build(&r) {
                    Ok(h) if observe(&h) == r => {}
                    Ok(_) => l.violation("construct:from_labels-content", "from_labels + iter() do not reproduce the labels", || case.clone()),
                    Err(e) => l.violation("construct:from_labels-rejects-valid", &e, || case.clone()),
                }
                l.eval();
            }
            other => vcore::machinery_exit(&format!("unknown replay family {other:?}")),
        });
        ctx.finish(false);
    }

    ctx.set_rule(
        "E-ENUM. Octet alphabet O = {00 - . * 0 A Z [ \\ _ a z 7f 80 ff} (thorough) / {00 . @ A Z [ ` a z { 80 ff} (quick); labels = all strings over O of length 1..2 plus fill \
         labels of 62/63 octets; U1 = all absolute names of 0..2 labels over those labels; U2 = all names of 0..2 labels over \
         the 9-octet sub-alphabet {00 . A Z [ a z 80 ff}, absolute AND relative; thorough adds U3 = 0..3 labels over {00 A [ a ff}. \
         pair family: all ordered pairs of labels (Label eq/hash/cmp); ALL ordered pairs of U1 (Name eq/hash/cmp; thorough: all clauses), of U2 (all clauses incl. \
         LowerName/RrKey eq/hash/cmp, absolute x relative) and of U3, oracle = vref::name (ASCII-folded label identity + flag; RFC 4034 \
         6.1 comparator via dense ranks); triple family: transitivity over all triples of a 1-label/2-label absolute+relative \
         universe. wire family: every name of U1 (+ names at 255 octets / 127 labels) x offsets {0,12,3ffe,3fff,4000} x \
         {alone, prior identical/suffix/case-variant near and far, follower identical/extended/case-variant} x {compressed, \
         uncompressed, lowercase} through Name::emit and Name::read, judged by vref::wire::read_name + label identity incl. case \
         + cursor; hickory's decoder on reference-made literal and pointer encodings. text family: all host-style names (labels \
         over {a Z 0 _ .} with interior '-', 63-octet labels, leading '*' label) of 1..3 labels, absolute and relative: \
         from_ascii(to_ascii(n)) identical octets, from_str(to_string(n)) == n. limit family: label-length vectors ({62,63,64}^0..4 \
         padded to wire totals 253..257, up to 128 labels, single labels up to 300) through from_labels, read (literal, pointer, \
         pointer chain), from_ascii/from_utf8/parse/from_str(+origin, escapes), append_label, prepend_label, append_name, \
         append_domain, into_wildcard, to_lowercase, base_name, trim_to: Err, or a name with every label 1..63 and wire length \
         <= 255 carrying the requested labels. Non-trivial = distinct unordered pairs differing only by case, by exactly one \
         octet or by label-boundary placement; wire cases that emitted/decoded a pointer or carry upper-case/non-printable \
         octets; text cases with escapes/star/underscore/hyphen/upper case; limit results at >= 253 octets or with a label >= 62.",
    );
    ctx.assume("vref::name (RFC 1035 3.1, RFC 4343, RFC 4034 6.1) and vref::wire::read_name are the reference");
    ctx.assume("std DefaultHasher (SipHash with fixed keys) stands for 'any hasher' in eq => hash-equal");
    ctx.assume("relative vs absolute names: RFC 4034 orders absolute names only; across the divide only a total order consistent with equality is demanded");

    // ------------------------------------------------------------------ pair family
    let full_labels = if thorough { labels_over(&OCTETS, true) } else { labels_over(&QUICK12, true) };
    pairs::run_label_pairs(&ctx, &full_labels);
    let u1 = pairs::universe(&ctx, fq(names_over(&full_labels, 2)));
    pairs::run_pairs(&ctx, &u1, thorough, "u1_absolute_full_alphabet");

    let sub_labels = labels_over(&SUB9, true);
    let u2 = pairs::universe(&ctx, both(names_over(&sub_labels, 2)));
    pairs::run_pairs(&ctx, &u2, true, "u2_absolute_and_relative");

    if thorough {
        let l5 = labels_over(&SUB5, true);
        let u3 = pairs::universe(&ctx, fq(names_over(&l5, 3)));
        pairs::run_pairs(&ctx, &u3, true, "u3_three_labels");
    }

    ctx.set("wall_after_pairs_s", json!(ctx.elapsed_s()));
    // ------------------------------------------------------------------ triple family
    {
        let tl: Vec<Vec<u8>> = vec![b"a".to_vec(), b"A".to_vec(), b"b".to_vec(), vec![0], b"[".to_vec(), b"ab".to_vec(), b"a.".to_vec(), vec![0xff]];
        let mut names = names_over(&tl, 2);
        if thorough {
            names.extend(names_over(&tl[..4], 3).into_iter().filter(|n| n.len() == 3));
        }
        let ut = pairs::universe(&ctx, both(names));
        pairs::run_triples(&ctx, &ut);
    }

    // ------------------------------------------------------------------ wire family
    {
        let mut wn: Vec<Labels> = u1.iter().map(|e| e.r.labels.clone()).collect();
        wn.extend(boundary_names());
        let built: Vec<(Labels, hickory_proto::rr::Name)> = wn
            .into_iter()
            .filter_map(|l| build(&RefName::new(l.clone(), true)).ok().map(|h| (l, h)))
            .collect();
        let scens = wirefam::scenarios();
        let od = Odometer::new(&[built.len() as u64, wirefam::OFFSETS.len() as u64]);
        ctx.set("wire_names", json!(built.len()));
        ctx.par_run_init(
            od.space(),
            64,
            |_| Vec::<u8>::with_capacity(0x4200),
            |i, l, buf| {
                let d = od.get(i);
                let (labels, h) = &built[d[0] as usize];
                let off = wirefam::OFFSETS[d[1] as usize];
                for &s in &scens {
                    for m in wirefam::MODES {
                        if m == wirefam::Mode::Lowercase && s != wirefam::Scen::Alone {
                            continue;
                        }
                        wirefam::run_wire_case(labels, h, off, s, m, buf, l);
                    }
                }
                for f in wirefam::forms(labels.len()) {
                    wirefam::run_refbytes_case(labels, h, off, f, buf, l);
                }
                if i % 60013 == 0 {
                    l.sample(wirefam::wire_case_json(labels, off, scens[(i % scens.len() as u64) as usize], wirefam::Mode::Compressed));
                }
            },
        );
    }

    ctx.set("wall_after_wire_s", json!(ctx.elapsed_s()));
    // ------------------------------------------------------------------ text family
    {
        let hl = textfam::host_labels(thorough);
        let k = hl.len() as u64;
        let total = textfam::count(k, 3);
        ctx.set("text_labels", json!(k));
        ctx.set("text_names", json!(2 * (total + 1 + textfam::count(k, 2) + 1)));
        ctx.par_run(total, 256, |i, l| {
            let labels = textfam::nth(&hl, 3, i);
            for f in [true, false] {
                textfam::run_text_case(&RefName::new(labels.clone(), f), true, l);
            }
            // leading `*` label followed by 0..2 labels: enumerate on the indices of the 1..2-label block
            if i < textfam::count(k, 2) {
                let mut w = vec![b"*".to_vec()];
                w.extend(labels.iter().cloned());
                for f in [true, false] {
                    textfam::run_text_case(&RefName::new(w.clone(), f), true, l);
                }
            }
            if i % 60013 == 0 {
                l.sample(textfam::text_case_json(&RefName::new(labels.clone(), true)));
            }
        });
        ctx.with_local(|l| {
            textfam::run_text_case(&RefName::new(vec![], true), true, l);
            for f in [true, false] {
                textfam::run_text_case(&RefName::new(vec![b"*".to_vec()], f), true, l);
                // full-length host-style names
                textfam::run_text_case(&RefName::new(limits::fill(&[63, 63, 63, 61]), f), true, l);
                textfam::run_text_case(&RefName::new(limits::fill(&vec![1; 127]), f), true, l);
            }
            // outside the class of the statement: observations only
            for lab in [&b"-a"[..], b"a-", b"-", b"a*", b"*a"] {
                for rest in [vec![], vec![b"z".to_vec()]] {
                    let mut v = vec![lab.to_vec()];
                    v.extend(rest);
                    textfam::run_text_case(&RefName::new(v.clone(), true), false, l);
                    let mut w = vec![b"z".to_vec()];
                    w.extend(v);
                    textfam::run_text_case(&RefName::new(w, true), false, l);
                }
            }
            textfam::run_text_case(&RefName::new(vec![b"a".to_vec(), b"*".to_vec(), b"z".to_vec()], true), false, l);
        });
    }

    ctx.set("wall_after_text_s", json!(ctx.elapsed_s()));
    // ------------------------------------------------------------------ limit family
    {
        let shapes = limits::shapes();
        ctx.set("limit_shapes", json!(shapes.len()));
        ctx.set("limit_max_labels", json!(shapes.iter().map(|s| s.len()).max().unwrap_or(0)));
        ctx.par_run(shapes.len() as u64, 4, |i, l| {
            limits::run_shape(&shapes[i as usize], l);
            if i % 239 == 0 {
                l.sample(limits::shape_json(&shapes[i as usize]));
            }
        });
        ctx.par_run(80, 4, |i, l| limits::run_unicode(i as usize + 1, l));
    }

    // ------------------------------------------------------------------ vacuity guards
    for class in [
        "pair:nontrivial-ordered",
        "wire:ok:pointer-emitted",
        "wire:ok:pointer-emitted-high-offset",
        "wire:ok:no-pointer",
        "refbytes:ok:pointer",
        "text:ascii-roundtrip:ok",
        "text:display-fromstr:ok",
        "text:to_ascii-equals-reference-presentation",
        "limit:ok-at-255",
        "limit:from_labels:err-for-invalid",
        "limit:read:err-for-invalid",
        "limit:append_label:err-for-invalid",
        "limit:prepend_label:err-for-invalid",
        "limit:append_name:err-for-invalid",
        "limit:append_domain:err-for-invalid",
        "limit:from_ascii:err-for-invalid",
        "limit:parse-origin:err-for-invalid",
        "limit:read-pointer:err-for-invalid",
    ] {
        if ctx.outcome_count(class) == 0 {
            ctx.machinery_failure(&format!("vacuous run: outcome class {class} was never exercised"));
        }
    }
    ctx.finish(true);
}
