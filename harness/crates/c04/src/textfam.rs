//! Text family: every host-style name (letters, digits, interior hyphen, underscore, escaped dot,
//! leading `*` label) of 1..3 labels, absolute and relative, through `to_ascii` -> `from_ascii`
//! (octet identity) and `Display` -> `FromStr` (name identity); `Name::parse` / `from_utf8` are
//! judged only when they return Ok (their documented STD3 strictness about '_' is an observation).

use std::str::FromStr;

use hickory_proto::rr::Name;
use serde_json::{json, Value};
use vcore::{catch, fnv64, Local};
use vref::name::{present_host, Labels, RefName};

use crate::common::*;

/// Host-style label alphabet: chars {a, Z, 0, _, .} at any position, '-' only in the interior.
pub fn host_labels(thorough: bool) -> Vec<Vec<u8>> {
    let c: [u8; 5] = [b'a', b'Z', b'0', b'_', b'.'];
    let mut v: Vec<Vec<u8>> = vec![];
    for &x in &c {
        v.push(vec![x]);
    }
    for &x in &c {
        for &y in &c {
            v.push(vec![x, y]);
        }
    }
    for &x in &c {
        for &y in &c {
            v.push(vec![x, b'-', y]);
        }
    }
    if thorough {
        for &x in &c {
            for &m in &c {
                for &y in &c {
                    v.push(vec![x, m, y]);
                }
            }
        }
    }
    v.push(vec![b'a'; 63]);
    let mut dotted = vec![b'Z'; 63];
    for i in (1..63).step_by(2) {
        dotted[i] = b'.';
    }
    v.push(dotted);
    v
}

/// Number of label sequences of length 1..=max over k labels.
pub fn count(k: u64, max: u32) -> u64 {
    (1..=max).map(|n| k.pow(n)).sum()
}

/// The idx-th label sequence (length 1..=max) over `labels`.
pub fn nth(labels: &[Vec<u8>], max: u32, mut idx: u64) -> Labels {
    let k = labels.len() as u64;
    let mut n = 1;
    while n <= max {
        let c = k.pow(n);
        if idx < c {
            break;
        }
        idx -= c;
        n += 1;
    }
    let mut out = Vec::with_capacity(n as usize);
    for _ in 0..n {
        out.push(labels[(idx % k) as usize].clone());
        idx /= k;
    }
    out
}

/// Abstract scene of a text case for violation keys: the single most specific presentation
/// feature of the name (keeps the key set of one root cause small; the full name is in the case).
fn features(r: &RefName) -> String {
    let all = r.labels.concat();
    let f = if r.labels.first().map(|l| l.as_slice() == b"*").unwrap_or(false) {
        "star"
    } else if all.contains(&b'.') {
        "dot"
    } else if all.contains(&b'_') {
        "underscore"
    } else if all.contains(&b'-') {
        "hyphen"
    } else if all.iter().any(|b| b.is_ascii_uppercase()) {
        "upper"
    } else if r.labels.iter().any(|l| l.len() == 63) {
        "len63"
    } else {
        "plain"
    };
    f.to_string()
}

pub fn text_case_json(r: &RefName) -> Value {
    json!({"family": "text", "name": name_json(r)})
}

/// Judge one host-style name. `judged=false`: the name is outside the class of the statement
/// (leading/trailing hyphen, `*` elsewhere) and only observations are recorded.
pub fn run_text_case(r: &RefName, judged: bool, l: &mut Local) {
    l.eval();
    let case = || text_case_json(r);
    let h = match build(r) {
        Ok(h) => h,
        Err(e) => {
            l.violation("construct:from_labels-rejects-valid", &e, case);
            return;
        }
    };
    let feat = features(r);
    let viol = |l: &mut Local, key: String, what: &str| {
        if judged {
            l.violation(&key, what, || text_case_json(r));
        } else {
            l.outcome(&format!("obs:outside-class:{key}"));
        }
    };
    // ---- to_ascii -> from_ascii : identity of octets and flag
    let t = match catch(|| h.to_ascii()) {
        Ok(t) => t,
        Err(p) => {
            l.violation(&format!("panic:{}", vcore::short_loc(&p.loc)), &p.msg, case);
            return;
        }
    };
    if judged {
        match present_host(r) {
            Some(rt) if rt == t => l.outcome("text:to_ascii-equals-reference-presentation"),
            Some(rt) => {
                // hickory prints this name differently from the RFC 1035 5.1 reference printer: its
                // parser is then also fed the reference text (producer independent of hickory)
                l.outcome("obs:to_ascii-differs-from-reference-presentation");
                match catch(|| Name::from_ascii(&rt)) {
                    Ok(Ok(n)) if observe(&n) == *r => l.outcome("text:parse-of-reference-presentation:ok"),
                    Ok(Ok(_)) => l.violation(&format!("text:parse-of-reference-presentation:changed:{feat}"), "from_ascii(RFC 1035 text of the name) is a different name", case),
                    Ok(Err(_)) => l.violation(&format!("text:parse-of-reference-presentation:rejected:{feat}"), "from_ascii rejects the RFC 1035 text of a host-style name", case),
                    Err(p) => l.violation(&format!("panic:{}", vcore::short_loc(&p.loc)), &p.msg, case),
                }
            }
            None => {}
        }
    }
    match catch(|| Name::from_ascii(&t)) {
        Err(p) => l.violation(&format!("panic:{}", vcore::short_loc(&p.loc)), &p.msg, case),
        Ok(Err(_)) => viol(l, format!("text:ascii-roundtrip:rejected:{feat}"), "from_ascii rejects the output of to_ascii"),
        Ok(Ok(n)) => {
            let got = observe(&n);
            if got.labels != r.labels {
                let what = if vref::name::labels_eq_fold(&got.labels, &r.labels) { "case" } else { "labels" };
                viol(l, format!("text:ascii-roundtrip:changed-{what}:{feat}"), "from_ascii(to_ascii(name)) differs from name");
            } else if got.fqdn != r.fqdn {
                viol(l, format!("text:ascii-roundtrip:changed-fqdn-flag:{feat}"), "absolute/relative flag changed");
            } else if !n.eq_case(&h) || n != h {
                viol(l, format!("text:ascii-roundtrip:eq-false:{feat}"), "round-tripped name does not compare equal");
            } else if judged {
                l.outcome("text:ascii-roundtrip:ok");
                if feat != "plain" {
                    l.nontrivial(fnv64(t.as_bytes()));
                }
            } else {
                l.outcome("obs:outside-class:ascii-roundtrip-ok");
            }
        }
    }
    if !judged {
        return;
    }
    // ---- Display -> FromStr : name identity (== ignores case; IDNA processing may lower-case)
    let d = h.to_string();
    match catch(|| Name::from_str(&d)) {
        Err(p) => l.violation(&format!("panic:{}", vcore::short_loc(&p.loc)), &p.msg, case),
        Ok(Err(_)) => l.violation(&format!("text:display-fromstr:rejected:{feat}"), "from_str rejects the output of Display", case),
        Ok(Ok(n)) => {
            if n != h {
                let got = observe(&n);
                let what = if got.fqdn != r.fqdn { "fqdn-flag" } else { "labels" };
                l.violation(&format!("text:display-fromstr:changed-{what}:{feat}"), "from_str(to_string(name)) != name", case);
            } else if !n.eq_case(&h) {
                l.outcome("obs:display-fromstr:case-lowered");
            } else {
                l.outcome("text:display-fromstr:ok");
            }
        }
    }
    // ---- strict parsers: judged only if they return Ok
    for (who, res) in [("parse", catch(|| Name::parse(&t, None))), ("from_utf8", catch(|| Name::from_utf8(&t)))] {
        match res {
            Err(p) => l.violation(&format!("panic:{}", vcore::short_loc(&p.loc)), &p.msg, case),
            Ok(Err(_)) => l.outcome(&format!("obs:{who}-rejects:{}", if r.labels.concat().contains(&b'_') { "underscore" } else { "other" })),
            Ok(Ok(n)) => {
                if n != h {
                    l.violation(&format!("text:{who}:changed:{feat}"), "strict parser returned Ok with a different name", case);
                } else {
                    l.outcome(&format!("text:{who}:ok"));
                }
            }
        }
    }
}

pub fn replay_text(case: &Value, l: &mut Local) {
    let r = name_from_json(&case["name"]);
    let judged = vref::name::is_host_style(&r);
    run_text_case(&r, judged, l);
}

// ------------------------------------------------------------------------------------------
// parse x origin shapes (extension round)

pub fn origin_case_json(text: &str, origin: Option<&RefName>) -> Value {
    json!({"family": "origin", "text": text, "origin": origin.map(name_json)})
}

/// `Name::parse(text, origin)` for a host-style local name (or the free-standing `@`) and one
/// origin shape. RFC 1035 5.1: an absolute name is taken as is, a relative one is completed with
/// the origin, `@` denotes the origin. Judged: an Ok result obeys the length limits and carries
/// exactly the expected labels (case-insensitively: the IDNA path may lower-case) and, where
/// defined, the absolute flag. Rejections are observations.
pub fn run_origin_case(text: &str, local: Option<&RefName>, origin: Option<&RefName>, l: &mut Local) {
    l.eval();
    let case = || origin_case_json(text, origin);
    let oh = match origin {
        Some(o) => match build(o) {
            Ok(h) => Some(h),
            Err(_) => return,
        },
        None => None,
    };
    let lk = match local {
        None => "at",
        Some(r) if r.fqdn => "absolute",
        Some(r) if r.labels.is_empty() => "empty",
        Some(_) => "relative",
    };
    let ok = match origin {
        None => "no-origin",
        Some(o) if !o.fqdn => "relative-origin",
        Some(o) if o.labels.is_empty() => "root-origin",
        Some(_) => "absolute-origin",
    };
    let scene = format!("{lk}:{ok}");
    // expectation
    let (want_labels, want_flag): (Option<Labels>, Option<bool>) = match (local, origin) {
        (None, Some(o)) => (Some(o.labels.clone()), Some(o.fqdn)),
        (None, None) => (None, None),
        (Some(r), _) if r.fqdn => (Some(r.labels.clone()), Some(true)),
        (Some(r), None) => (Some(r.labels.clone()), Some(false)),
        (Some(r), Some(o)) => {
            let mut v = r.labels.clone();
            v.extend(o.labels.iter().cloned());
            (Some(v), if o.fqdn { Some(true) } else { None })
        }
    };
    let res = catch(|| Name::parse(text, oh.as_ref()).map_err(|e| e.to_string()));
    match res {
        Err(p) => l.violation(&format!("panic:{}", vcore::short_loc(&p.loc)), &p.msg, case),
        Ok(Err(_)) => {
            let valid = want_labels.as_ref().map(|w| vref::name::validate(w).is_ok()).unwrap_or(false);
            l.outcome(&format!("origin:{}:{scene}", if valid { "obs-rejects-valid" } else { "err" }));
        }
        Ok(Ok(n)) => {
            let got = observe(&n);
            match vref::name::validate(&got.labels) {
                Err(vref::name::Invalid::LabelTooLong(_, x)) => {
                    l.violation(&format!("limit:parse-origin-shapes:label-over-63:{scene}"), &format!("label of {x} octets"), case);
                    return;
                }
                Err(vref::name::Invalid::NameTooLong(x)) => {
                    l.violation(&format!("limit:parse-origin-shapes:name-over-255:{scene}"), &format!("wire length {x}"), case);
                    return;
                }
                _ => {}
            }
            let Some(w) = want_labels else {
                l.outcome(&format!("origin:obs-unjudged-ok:{scene}"));
                return;
            };
            if !vref::name::labels_eq_fold(&got.labels, &w) {
                l.violation(&format!("origin:content-mismatch:{scene}"), &format!("got {} want {}", vref::name::present_any(&got), vref::name::present_any(&RefName::new(w, true))), case);
                return;
            }
            if let Some(f) = want_flag {
                if got.fqdn != f {
                    l.violation(&format!("origin:fqdn-flag:{scene}"), &format!("absolute flag is {} instead of {f}", got.fqdn), case);
                    return;
                }
            }
            l.outcome(&format!("origin:ok:{scene}"));
            l.nontrivial(fnv64(text.as_bytes()) ^ fnv64(format!("{origin:?}").as_bytes()));
        }
    }
}

pub fn replay_origin(case: &Value, l: &mut Local) {
    let text = case["text"].as_str().unwrap_or("").to_string();
    let origin = if case["origin"].is_null() { None } else { Some(name_from_json(&case["origin"])) };
    let local = if text == "@" { None } else { parse_host_text(&text) };
    if text != "@" && local.is_none() {
        return;
    }
    run_origin_case(&text, local.as_ref(), origin.as_ref(), l);
}

/// Inverse of `present_host` (reference side, for replays only).
fn parse_host_text(t: &str) -> Option<RefName> {
    if t == "." {
        return Some(RefName::new(vec![], true));
    }
    let mut labels: Labels = vec![];
    let mut cur: Vec<u8> = vec![];
    let mut esc = false;
    let mut last_sep = false;
    for &c in t.as_bytes() {
        last_sep = false;
        if esc {
            cur.push(c);
            esc = false;
        } else if c == b'\\' {
            esc = true;
        } else if c == b'.' {
            if cur.is_empty() {
                return None;
            }
            labels.push(std::mem::take(&mut cur));
            last_sep = true;
        } else {
            cur.push(c);
        }
    }
    if !cur.is_empty() {
        labels.push(cur);
    }
    Some(RefName::new(labels, last_sep))
}

// ------------------------------------------------------------------------------------------
// escape family (audit round): every octet 0..=255 at the first / middle / last position of a label

fn octet_class(b: u8) -> &'static str {
    if b.is_ascii_alphanumeric() || b == b'-' || b == b'_' {
        "host"
    } else if b == b'.' {
        "dot"
    } else if b == b'*' {
        "star"
    } else if b == b'\\' {
        "backslash"
    } else if b.is_ascii_graphic() {
        "other-printable"
    } else if b < 0x80 {
        "control-or-space"
    } else {
        "high"
    }
}

/// The statement promises the text round trip for host-style names only; for every other octet
/// the printers must still not panic, agree with one another, and whatever the parsers accept back
/// must obey the length limits. What round-trips and how it is escaped is recorded as observations
/// (`\DDD` is written and read in OCTAL by hickory; RFC 1035 5.1 says decimal).
pub fn run_escape_case(b: u8, pos: usize, fqdn: bool, l: &mut Local) {
    l.eval();
    let label: Vec<u8> = match pos {
        0 => vec![b, b'a', b'a'],
        1 => vec![b'a', b, b'a'],
        2 => vec![b'a', b'a', b],
        _ => vec![b],
    };
    let r = RefName::new(vec![label, b"z".to_vec()], fqdn);
    let case = || json!({"family": "escape", "octet": b, "pos": pos, "fqdn": fqdn, "name": name_json(&r)});
    let Ok(h) = build(&r) else {
        l.violation("construct:from_labels-rejects-valid", "arbitrary octets are valid label content", case);
        return;
    };
    let printed = catch(|| (h.to_ascii(), h.to_utf8(), h.to_string(), format!("{h}"), format!("{h:?}")));
    let (a, u, s, d, _dbg) = match printed {
        Ok(x) => x,
        Err(p) => {
            l.violation(&format!("panic:{}", vcore::short_loc(&p.loc)), &p.msg, case);
            return;
        }
    };
    if u != s || s != d {
        l.violation("escape:printers-disagree", "to_utf8 / to_string / Display differ", case);
    }
    let cls = octet_class(b);
    let host = vref::name::is_host_style(&r);
    l.outcome(&format!("obs:escape:{cls}:to_ascii-{}", if a == vref::name::present_any(&r) { "equals-rfc-decimal-presentation" } else { "differs-from-rfc-decimal-presentation" }));
    for (who, text, res) in [
        ("from_ascii", &a, catch(|| Name::from_ascii(&a).map_err(|e| e.to_string()))),
        ("from_str", &s, catch(|| Name::from_str(&s).map_err(|e| e.to_string()))),
    ] {
        let _ = text;
        match res {
            Err(p) => l.violation(&format!("panic:{}", vcore::short_loc(&p.loc)), &p.msg, case),
            Ok(Err(_)) => {
                if host {
                    l.violation(&format!("escape:{who}:host-style-rejected:{cls}"), "a host-style name does not survive the text round trip", case);
                } else {
                    l.outcome(&format!("obs:escape:{cls}:{who}-rejects-own-output"));
                }
            }
            Ok(Ok(n)) => {
                let got = observe(&n);
                if vref::name::validate(&got.labels).is_err() {
                    l.violation(&format!("escape:{who}:limits"), "re-parsed name violates the length limits", case);
                } else if vref::name::labels_eq_fold(&got.labels, &r.labels) && got.fqdn == r.fqdn {
                    l.outcome(&format!("escape:{cls}:{who}-roundtrip-ok"));
                    l.nontrivial(fnv64(a.as_bytes()) ^ fnv64(who.as_bytes()));
                } else if host {
                    l.violation(&format!("escape:{who}:host-style-changed:{cls}"), "a host-style name changed in the text round trip", case);
                } else {
                    l.outcome(&format!("obs:escape:{cls}:{who}-roundtrip-changes-the-name"));
                }
            }
        }
    }
}

pub fn replay_escape(case: &Value, l: &mut Local) {
    run_escape_case(case["octet"].as_u64().unwrap_or(0) as u8, case["pos"].as_u64().unwrap_or(0) as usize, case["fqdn"].as_bool().unwrap_or(true), l);
}
