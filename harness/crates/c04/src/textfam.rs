//! Text family: every host-style name (letters, digits, interior hyphen, underscore, escaped dot,
//! leading `*` label) of 1..3 labels, absolute and relative, through `to_ascii` -> `from_ascii`
//! (octet identity) and `Display` -> `FromStr` (name identity); `Name::parse` / `from_utf8` are
//! judged only when they return Ok (their documented STD3 strictness about '_' is an observation).

use std::str::FromStr;

use hickory_proto::rr::Name;
use serde_json::{json, Value};
use vcore::{catch, fnv64, Local};
use vref::name::{present_host, Labels, RefName};

use crate::common::*;

/// Host-style label alphabet: chars {a, Z, 0, _, .} at any position, '-' only in the interior.
pub fn host_labels(thorough: bool) -> Vec<Vec<u8>> {
    let c: [u8; 5] = [b'a', b'Z', b'0', b'_', b'.'];
    let mut v: Vec<Vec<u8>> = vec![];
    for &x in &c {
        v.push(vec![x]);
    }
    for &x in &c {
        for &y in &c {
            v.push(vec![x, y]);
        }
    }
    for &x in &c {
        for &y in &c {
            v.push(vec![x, b'-', y]);
        }
    }
    if thorough {
        for &x in &c {
            for &m in &c {
                for &y in &c {
                    v.push(vec![x, m, y]);
                }
            }
        }
    }
    v.push(vec![b'a'; 63]);
    let mut dotted = vec![b'Z'; 63];
    for i in (1..63).step_by(2) {
        dotted[i] = b'.';
    }
    v.push(dotted);
    v
}

/// Number of label sequences of length 1..=max over k labels.
pub fn count(k: u64, max: u32) -> u64 {
    (1..=max).map(|n| k.pow(n)).sum()
}

/// The idx-th label sequence (length 1..=max) over `labels`.
pub fn nth(labels: &[Vec<u8>], max: u32, mut idx: u64) -> Labels {
    let k = labels.len() as u64;
    let mut n = 1;
    while n <= max {
        let c = k.pow(n);
        if idx < c {
            break;
        }
        idx -= c;
        n += 1;
    }
    let mut out = Vec::with_capacity(n as usize);
    for _ in 0..n {
        out.push(labels[(idx % k) as usize].clone());
        idx /= k;
    }
    out
}

/// Abstract scene of a text case for violation keys: the single most specific presentation
/// feature of the name (keeps the key set of one root cause small; the full name is in the case).
fn features(r: &RefName) -> String {
    let all = r.labels.concat();
    let f = if r.labels.first().map(|l| l.as_slice() == b"*").unwrap_or(false) {
        "star"
    } else if all.contains(&b'.') {
        "dot"
    } else if all.contains(&b'_') {
        "underscore"
    } else if all.contains(&b'-') {
        "hyphen"
    } else if all.iter().any(|b| b.is_ascii_uppercase()) {
        "upper"
    } else if r.labels.iter().any(|l| l.len() == 63) {
        "len63"
    } else {
        "plain"
    };
    f.to_string()
}

pub fn text_case_json(r: &RefName) -> Value {
    json!({"family": "text", "name": name_json(r)})
}

/// Judge one host-style name. `judged=false`: the name is outside the class of the statement
/// (leading/trailing hyphen, `*` elsewhere) and only observations are recorded.
pub fn run_text_case(r: &RefName, judged: bool, l: &mut Local) {
    l.eval();
    let case = || text_case_json(r);
    let h = match build(r) {
        Ok(h) => h,
        Err(e) => {
            l.violation("construct:from_labels-rejects-valid", &e, case);
            return;
        }
    };
    let feat = features(r);
    let viol = |l: &mut Local, key: String, what: &str| {
        if judged {
            l.violation(&key, what, || text_case_json(r));
        } else {
            l.outcome(&format!("obs:outside-class:{key}"));
        }
    };
    // ---- to_ascii -> from_ascii : identity of octets and flag
    let t = match catch(|| h.to_ascii()) {
        Ok(t) => t,
        Err(p) => {
            l.violation(&format!("panic:{}", vcore::short_loc(&p.loc)), &p.msg, case);
            return;
        }
    };
    if judged {
        match present_host(r) {
            Some(rt) if rt == t => l.outcome("text:to_ascii-equals-reference-presentation"),
            _ => l.outcome("obs:to_ascii-differs-from-reference-presentation"),
        }
    }
    match catch(|| Name::from_ascii(&t)) {
        Err(p) => l.violation(&format!("panic:{}", vcore::short_loc(&p.loc)), &p.msg, case),
        Ok(Err(_)) => viol(l, format!("text:ascii-roundtrip:rejected:{feat}"), "from_ascii rejects the output of to_ascii"),
        Ok(Ok(n)) => {
            let got = observe(&n);
            if got.labels != r.labels {
                let what = if vref::name::labels_eq_fold(&got.labels, &r.labels) { "case" } else { "labels" };
                viol(l, format!("text:ascii-roundtrip:changed-{what}:{feat}"), "from_ascii(to_ascii(name)) differs from name");
            } else if got.fqdn != r.fqdn {
                viol(l, format!("text:ascii-roundtrip:changed-fqdn-flag:{feat}"), "absolute/relative flag changed");
            } else if !n.eq_case(&h) || n != h {
                viol(l, format!("text:ascii-roundtrip:eq-false:{feat}"), "round-tripped name does not compare equal");
            } else if judged {
                l.outcome("text:ascii-roundtrip:ok");
                if feat != "plain" {
                    l.nontrivial(fnv64(t.as_bytes()));
                }
            } else {
                l.outcome("obs:outside-class:ascii-roundtrip-ok");
            }
        }
    }
    if !judged {
        return;
    }
    // ---- Display -> FromStr : name identity (== ignores case; IDNA processing may lower-case)
    let d = h.to_string();
    match catch(|| Name::from_str(&d)) {
        Err(p) => l.violation(&format!("panic:{}", vcore::short_loc(&p.loc)), &p.msg, case),
        Ok(Err(_)) => l.violation(&format!("text:display-fromstr:rejected:{feat}"), "from_str rejects the output of Display", case),
        Ok(Ok(n)) => {
            if n != h {
                let got = observe(&n);
                let what = if got.fqdn != r.fqdn { "fqdn-flag" } else { "labels" };
                l.violation(&format!("text:display-fromstr:changed-{what}:{feat}"), "from_str(to_string(name)) != name", case);
            } else if !n.eq_case(&h) {
                l.outcome("obs:display-fromstr:case-lowered");
            } else {
                l.outcome("text:display-fromstr:ok");
            }
        }
    }
    // ---- strict parsers: judged only if they return Ok
    for (who, res) in [("parse", catch(|| Name::parse(&t, None))), ("from_utf8", catch(|| Name::from_utf8(&t)))] {
        match res {
            Err(p) => l.violation(&format!("panic:{}", vcore::short_loc(&p.loc)), &p.msg, case),
            Ok(Err(_)) => l.outcome(&format!("obs:{who}-rejects:{}", if r.labels.concat().contains(&b'_') { "underscore" } else { "other" })),
            Ok(Ok(n)) => {
                if n != h {
                    l.violation(&format!("text:{who}:changed:{feat}"), "strict parser returned Ok with a different name", case);
                } else {
                    l.outcome(&format!("text:{who}:ok"));
                }
            }
        }
    }
}

pub fn replay_text(case: &Value, l: &mut Local) {
    let r = name_from_json(&case["name"]);
    let judged = vref::name::is_host_style(&r);
    run_text_case(&r, judged, l);
}
