//! Shared helpers of the C04 check: building hickory names from reference labels, reading a
//! hickory name back into the reference representation, JSON <-> labels.

use hickory_proto::rr::Name;
use serde_json::{json, Value};
use vcore::hex;
use vref::name::{Labels, RefName};

/// The 15-octet alphabet of DESIGN section 6 / C04: both sides of every case boundary, the range
/// between 'Z' and 'a', presentation-special octets, NUL, DEL, high octets.
pub const OCTETS: [u8; 15] = [
    0x00, b'-', b'.', b'*', b'0', b'A', b'Z', b'[', b'\\', b'_', b'a', b'z', 0x7f, 0x80, 0xff,
];
/// 12-octet alphabet of the quick tier: both neighbours of each letter range ('@' '[' and '`' '{',
/// which are also the octets a wrong fold such as `| 0x20` / `& 0xdf` identifies with each other),
/// the range ends, '.', NUL, and both sides of the sign bit.
pub const QUICK12: [u8; 12] = [0x00, b'.', b'@', b'A', b'Z', b'[', b'`', b'a', b'z', b'{', 0x80, 0xff];
/// 9-octet sub-alphabet (used where the full alphabet is too large).
pub const SUB9: [u8; 9] = [0x00, b'.', b'A', b'Z', b'[', b'a', b'z', 0x80, 0xff];
/// 7-octet sub-alphabet: the absolute+relative universe U2 of the quick tier.
pub const SUB7: [u8; 7] = [0x00, b'.', b'A', b'Z', b'[', b'a', 0xff];
/// 5-octet sub-alphabet for the 3-label universe of the thorough tier.
pub const SUB5: [u8; 5] = [0x00, b'A', b'[', b'a', 0xff];

/// All labels of length 1..=2 over `alpha` plus fill labels of length 62 and 63.
pub fn labels_over(alpha: &[u8], long: bool) -> Vec<Vec<u8>> {
    let mut v: Vec<Vec<u8>> = vec![];
    for &a in alpha {
        v.push(vec![a]);
    }
    for &a in alpha {
        for &b in alpha {
            v.push(vec![a, b]);
        }
    }
    if long {
        v.push(vec![b'a'; 62]);
        v.push(vec![b'a'; 63]);
        v.push(vec![b'A'; 63]);
        let mut x = vec![b'a'; 63];
        x[62] = b'b';
        v.push(x);
    }
    v
}

/// All label sequences of length 0..=max over `labels` (index sequences).
pub fn names_over(labels: &[Vec<u8>], max: usize) -> Vec<Labels> {
    let mut out: Vec<Labels> = vec![vec![]];
    let mut last: Vec<Labels> = vec![vec![]];
    for _ in 0..max {
        let mut next = Vec::with_capacity(last.len() * labels.len());
        for s in &last {
            for l in labels {
                let mut t = s.clone();
                t.push(l.clone());
                next.push(t);
            }
        }
        out.extend(next.iter().cloned());
        last = next;
    }
    out
}

/// Build the hickory name for reference labels through `Name::from_labels` (+ `set_fqdn`).
/// Returns Err(text) if hickory refuses.
pub fn build(r: &RefName) -> Result<Name, String> {
    let mut n = Name::from_labels(r.labels.iter().map(|l| l.as_slice())).map_err(|e| e.to_string())?;
    n.set_fqdn(r.fqdn);
    Ok(n)
}

/// The reference representation of a hickory name, read through its public label iterator.
pub fn observe(n: &Name) -> RefName {
    RefName::new(n.iter().map(|l| l.to_vec()).collect(), n.is_fqdn())
}

pub fn labels_json(l: &Labels) -> Value {
    json!(l.iter().map(|x| hex::enc(x)).collect::<Vec<_>>())
}

pub fn name_json(r: &RefName) -> Value {
    json!({"labels_hex": labels_json(&r.labels), "fqdn": r.fqdn, "text": vref::name::present_any(r)})
}

pub fn labels_from_json(v: &Value) -> Labels {
    v.as_array()
        .map(|a| a.iter().map(|x| hex::dec(x.as_str().unwrap_or("")).unwrap_or_default()).collect())
        .unwrap_or_default()
}

pub fn name_from_json(v: &Value) -> RefName {
    RefName::new(labels_from_json(&v["labels_hex"]), v["fqdn"].as_bool().unwrap_or(true))
}

/// Relation of two names according to the reference model; used as the abstract scene in keys.
pub fn relation(a: &RefName, b: &RefName) -> &'static str {
    let same_labels = a.labels == b.labels;
    let fold_eq = vref::name::labels_eq_fold(&a.labels, &b.labels);
    match (a.fqdn == b.fqdn, same_labels, fold_eq) {
        (true, true, _) => "identical",
        (true, false, true) => "case-only",
        (false, true, _) => "flag-only",
        (false, false, true) => "flag+case",
        _ => {
            let fa: Vec<u8> = a.labels.concat().iter().map(|b| vref::name::fold(*b)).collect();
            let fb: Vec<u8> = b.labels.concat().iter().map(|b| vref::name::fold(*b)).collect();
            if fa == fb {
                "boundary"
            } else if a.labels.len() == b.labels.len()
                && a.labels.iter().zip(b.labels.iter()).all(|(x, y)| x.len() == y.len())
                && fa.iter().zip(fb.iter()).filter(|(x, y)| x != y).count() == 1
            {
                "one-octet"
            } else if a.labels.len() != b.labels.len()
                && (a.labels.ends_with(&b.labels[..]) || b.labels.ends_with(&a.labels[..]))
            {
                "suffix"
            } else {
                "distinct"
            }
        }
    }
}

pub fn ord_name(o: std::cmp::Ordering) -> &'static str {
    match o {
        std::cmp::Ordering::Less => "Less",
        std::cmp::Ordering::Equal => "Equal",
        std::cmp::Ordering::Greater => "Greater",
    }
}
