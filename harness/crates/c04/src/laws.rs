//! Law family (extension round): the derived operations that other code relies on — judged on
//! every name of a universe (unary laws) and on every ordered pair (binary laws).
//!
//! Unary, for a name with labels L (n = |L|) and absolute flag f:
//!   num_labels = n - [L[0] == "*"]   (the RRSIG Labels count; used as a loop bound elsewhere),
//!   is_wildcard <=> L[0] == "*", is_root <=> n == 0 && f, iter()/rev()/len() enumerate L,
//!   len() = wire length - 1 (1 for no labels) — it is the quantity the decoder's length guard uses,
//!   to_lowercase / LowerName::from / Name::from(LowerName): labels = fold(L), flag f,
//!   trim_to(k) = rightmost min(k, n) labels for every k in 0..=n+1, base_name = L[1..],
//!   into_wildcard = "*" + L[1..] (n > 0), flag f.
//! Binary: eq_case <=> identical labels and flag; cmp_case = canonical order without folding
//!   (same flag; across the divide only "not Equal" + antisymmetry); eq_ignore_root(_case) <=> labels
//!   equal under folding (identical); a.zone_of(b) <=> a's labels are the rightmost labels of b under
//!   folding (zone_of_case: exactly; LowerName::zone_of: as zone_of).
//! Where the documentation fixes no flag for the result (trim_to/base_name of a relative name,
//! into_wildcard of the empty relative name) only the labels are judged.

use std::cmp::Ordering;

use hickory_proto::rr::{LowerName, Name};
use serde_json::{json, Value};
use vcore::{catch, fnv64, Local};
use vref::name::{is_suffix, lower, RefName};

use crate::common::*;
use crate::pairs::Ent;

pub fn unary_case(r: &RefName) -> Value {
    json!({"family": "law", "name": name_json(r)})
}

fn labels_of(n: &Name) -> Vec<Vec<u8>> {
    n.iter().map(|l| l.to_vec()).collect()
}

/// All unary laws on one name.
pub fn run_unary(r: &RefName, h: &Name, l: &mut Local) {
    l.eval();
    let case = || unary_case(r);
    let n = r.labels.len();
    let star = r.labels.first().map(|x| x.as_slice() == b"*").unwrap_or(false);
    let res = catch(|| {
        let mut bad: Vec<(&'static str, String)> = vec![];
        let want_nl = n - star as usize;
        if h.num_labels() as usize != want_nl {
            bad.push(("num_labels", format!("{} instead of {want_nl}", h.num_labels())));
        }
        if h.is_wildcard() != star {
            bad.push(("is_wildcard", format!("{}", h.is_wildcard())));
        }
        if h.is_root() != (n == 0 && r.fqdn) {
            bad.push(("is_root", format!("{}", h.is_root())));
        }
        if h.is_fqdn() != r.fqdn {
            bad.push(("is_fqdn", format!("{}", h.is_fqdn())));
        }
        let fwd: Vec<Vec<u8>> = h.iter().map(|x| x.to_vec()).collect();
        let mut back: Vec<Vec<u8>> = h.iter().rev().map(|x| x.to_vec()).collect();
        back.reverse();
        if fwd != r.labels || back != r.labels || h.iter().len() != n || (&*h).into_iter().count() != n {
            bad.push(("iter", "iter()/rev()/len() do not enumerate the labels".into()));
        }
        let want_len = if n == 0 { 1 } else { vref::name::wire_len(&r.labels) - 1 };
        if h.len() != want_len {
            bad.push(("len", format!("{} instead of {want_len}", h.len())));
        }
        if h.is_empty() {
            bad.push(("is_empty", "true".into()));
        }
        // lower-casing
        let low = h.to_lowercase();
        if labels_of(&low) != lower(&r.labels) || low.is_fqdn() != r.fqdn {
            bad.push(("to_lowercase", "labels are not the ASCII-folded labels (or the flag changed)".into()));
        }
        if low != *h || !low.eq_case(&low.to_lowercase()) {
            bad.push(("to_lowercase", "to_lowercase() is not equal to the name / not idempotent".into()));
        }
        let ln = LowerName::from(h);
        let back_name = Name::from(ln.clone());
        if labels_of(&back_name) != lower(&r.labels) || back_name.is_fqdn() != r.fqdn || back_name != *h {
            bad.push(("lowername-roundtrip", "Name::from(LowerName::from(name)) is not the folded name".into()));
        }
        if ln != LowerName::new(&low) || ln != LowerName::from(h.clone()) || Name::from(&ln) != back_name {
            bad.push(("lowername-roundtrip", "the LowerName conversions disagree with one another".into()));
        }
        if ln.is_fqdn() != r.fqdn || ln.num_labels() != h.num_labels() || ln.is_wildcard() != star || ln.is_root() != h.is_root() || ln.len() != h.len() {
            bad.push(("lowername-accessors", "LowerName accessors differ from Name's".into()));
        }
        // shrinking combinators: labels only
        for k in 0..=n + 1 {
            let t = h.trim_to(k);
            let want = &r.labels[n - k.min(n)..];
            if labels_of(&t) != want {
                bad.push(("trim_to", format!("trim_to({k}) does not keep the rightmost labels")));
                break;
            }
        }
        let b = h.base_name();
        if labels_of(&b) != r.labels[n.min(1)..] {
            bad.push(("base_name", "not the name without its first label".into()));
        }
        if labels_of(&Name::from(ln.base_name())) != lower(&r.labels[n.min(1)..].to_vec()) {
            bad.push(("base_name", "LowerName::base_name differs".into()));
        }
        let w = h.clone().into_wildcard();
        if n > 0 {
            let mut want = vec![b"*".to_vec()];
            want.extend(r.labels[1..].iter().cloned());
            if labels_of(&w) != want || w.is_fqdn() != r.fqdn || !w.is_wildcard() || w.num_labels() as usize != n - 1 {
                bad.push(("into_wildcard", "not '*' + the labels after the first (or flag / num_labels wrong)".into()));
            }
        } else if !labels_of(&w).is_empty() {
            bad.push(("into_wildcard", "labels appeared from nowhere".into()));
        }
        // reflexive cases of the binary relations
        if !h.eq_case(h) || h.cmp_case(h) != Ordering::Equal || !h.zone_of(h) || !h.zone_of_case(h) || !h.eq_ignore_root(h) {
            bad.push(("reflexivity", "eq_case / cmp_case / zone_of are not reflexive".into()));
        }
        bad
    });
    match res {
        Err(p) => l.violation(&format!("panic:{}", vcore::short_loc(&p.loc)), &p.msg, case),
        Ok(bad) => {
            if bad.is_empty() {
                l.outcome(if star { "law:unary:ok:wildcard" } else { "law:unary:ok" });
                if star || n == 0 || !r.fqdn {
                    l.nontrivial(fnv64(&vref::name::to_wire(&r.labels)) ^ 0x6c6177 ^ r.fqdn as u64);
                }
            }
            for (k, what) in bad {
                let scene = if star { "wildcard" } else if n == 0 { "no-labels" } else if r.fqdn { "absolute" } else { "relative" };
                l.violation(&format!("law:{k}:{scene}"), &what, case);
            }
        }
    }
}

fn pair_case(a: &RefName, b: &RefName) -> Value {
    json!({"family": "law-pair", "a": name_json(a), "b": name_json(b)})
}

/// Binary laws on one ordered pair. `rank` / `rank_case` are dense ranks of the labels under the
/// folded / unfolded canonical order.
#[inline]
pub fn judge_pair_laws(a: &Ent, b: &Ent, l: &mut Local) {
    let same_flag = a.r.fqdn == b.r.fqdn;
    let ident = a.rank_case == b.rank_case;
    let fold_eq = a.rank == b.rank;
    let got = a.h.eq_case(&b.h);
    if got != (same_flag && ident) {
        l.violation(&format!("law:eq_case:got-{got}:{}", relation(&a.r, &b.r)), "eq_case is not identity of labels and flag", || pair_case(&a.r, &b.r));
    }
    let c = a.h.cmp_case(&b.h);
    if same_flag {
        let want = a.rank_case.cmp(&b.rank_case);
        if c != want {
            l.violation(
                &format!("law:cmp_case:{}:got-{}-want-{}", relation(&a.r, &b.r), ord_name(c), ord_name(want)),
                "cmp_case is not the canonical order without case folding",
                || pair_case(&a.r, &b.r),
            );
        }
    } else if c == Ordering::Equal || b.h.cmp_case(&a.h) != c.reverse() {
        l.violation("law:cmp_case:mixed-flags", "cmp_case is Equal for different names or not antisymmetric", || pair_case(&a.r, &b.r));
    }
    let g = a.h.eq_ignore_root(&b.h);
    if g != fold_eq {
        l.violation(&format!("law:eq_ignore_root:got-{g}:{}", relation(&a.r, &b.r)), "eq_ignore_root is not folded label equality", || pair_case(&a.r, &b.r));
    }
    let g = a.h.eq_ignore_root_case(&b.h);
    if g != ident {
        l.violation(&format!("law:eq_ignore_root_case:got-{g}:{}", relation(&a.r, &b.r)), "eq_ignore_root_case is not label identity", || pair_case(&a.r, &b.r));
    }
    // zone_of: a is an ancestor-or-self of b
    let want_z = is_suffix(&a.lowl, &b.lowl, false);
    let g = a.h.zone_of(&b.h);
    if g != want_z {
        let scene = if a.r.labels.len() > b.r.labels.len() { "longer" } else if a.r.labels.len() == b.r.labels.len() { "same-length" } else { "shorter" };
        l.violation(&format!("law:zone_of:got-{g}:{scene}"), "zone_of is not 'all labels of self are the rightmost labels of name' (case-insensitive)", || pair_case(&a.r, &b.r));
    }
    let g = a.low.zone_of(&b.low);
    if g != want_z {
        l.violation(&format!("law:lowername-zone_of:got-{g}"), "LowerName::zone_of disagrees with the suffix relation", || pair_case(&a.r, &b.r));
    }
    let want_zc = is_suffix(&a.r.labels, &b.r.labels, false);
    let g = a.h.zone_of_case(&b.h);
    if g != want_zc {
        l.violation(&format!("law:zone_of_case:got-{g}"), "zone_of_case is not the exact-octet suffix relation", || pair_case(&a.r, &b.r));
    }
    if want_z && !std::ptr::eq(a, b) {
        l.outcome("law:pair:zone_of-true");
        let (lo, hi) = if a.id <= b.id { (a.id, b.id) } else { (b.id, a.id) };
        l.nontrivial(lo.wrapping_mul(0x9e3779b97f4a7c15) ^ hi ^ 0x7a6f6e65);
    }
}

pub fn replay_unary(case: &Value, l: &mut Local) {
    let r = name_from_json(&case["name"]);
    if let Ok(h) = build(&r) {
        run_unary(&r, &h, l);
    }
}

pub fn replay_pair(case: &Value, l: &mut Local) {
    let ra = name_from_json(&case["a"]);
    let rb = name_from_json(&case["b"]);
    let (Ok(mut a), Ok(mut b)) = (crate::pairs::ent(ra), crate::pairs::ent(rb)) else { return };
    match vref::name::canonical_cmp(&a.r.labels, &b.r.labels) {
        Ordering::Less => b.rank = 1,
        Ordering::Greater => a.rank = 1,
        Ordering::Equal => {}
    }
    match vref::name::canonical_cmp_case(&a.r.labels, &b.r.labels) {
        Ordering::Less => b.rank_case = 1,
        Ordering::Greater => a.rank_case = 1,
        Ordering::Equal => {}
    }
    l.eval();
    judge_pair_laws(&a, &b, l);
}
