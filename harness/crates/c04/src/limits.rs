//! Length-limit family: label-length vectors around the 63 / 255 limits through every constructor
//! and combinator. Oracle: the operation fails, or the returned name (read back through `iter()`)
//! satisfies RFC 1035 2.3.4 (every label 1..=63, wire length <= 255) and carries exactly the
//! requested labels (a wrapped u8 offset would show up as a content mismatch).

use std::str::FromStr;

use hickory_proto::rr::{Label, Name};
use hickory_proto::serialize::binary::{BinDecodable, BinDecoder, BinEncodable};
use serde_json::{json, Value};
use vcore::{catch, fnv64, Local};
use vref::name::{validate, wire_len, Invalid, Labels};

use crate::common::*;

/// Label-length vectors: every tuple of 0..=4 "big" labels from {62,63,64}, padded to each total
/// wire length in {253..257} in two styles (few long pad labels / many 1-octet labels), pad before
/// or after the big labels.
pub fn shapes() -> Vec<Vec<usize>> {
    let mut out: Vec<Vec<usize>> = vec![];
    let bigs = [62usize, 63, 64];
    let mut tuples: Vec<Vec<usize>> = vec![vec![]];
    let mut last: Vec<Vec<usize>> = vec![vec![]];
    for _ in 0..4 {
        let mut next = vec![];
        for t in &last {
            for b in bigs {
                let mut x = t.clone();
                x.push(b);
                next.push(x);
            }
        }
        tuples.extend(next.iter().cloned());
        last = next;
    }
    for t in &tuples {
        let used: usize = t.iter().map(|l| l + 1).sum::<usize>() + 1;
        for total in [253usize, 254, 255, 256, 257] {
            if used > total {
                continue;
            }
            let rem = total - used;
            // style X: long pad labels
            let mut padx = vec![];
            let mut r = rem;
            while r > 64 {
                padx.push(63);
                r -= 64;
            }
            if r >= 2 {
                padx.push(r - 1);
                r = 0;
            }
            if r == 0 {
                let mut a = t.clone();
                a.extend(padx.iter().cloned());
                let mut b = padx.clone();
                b.extend(t.iter().cloned());
                out.push(a);
                out.push(b);
            }
            // style Y: 1-octet labels (one 2-octet label if the remainder is odd)
            let mut pady = vec![];
            let mut r = rem;
            if r % 2 == 1 && r >= 3 {
                pady.push(2);
                r -= 3;
            }
            if r % 2 == 0 {
                pady.extend(std::iter::repeat(1).take(r / 2));
                let mut a = t.clone();
                a.extend(pady.iter().cloned());
                let mut b = pady.clone();
                b.extend(t.iter().cloned());
                out.push(a);
                out.push(b);
            }
        }
    }
    // single labels and small names around the label limit
    for n in [1usize, 62, 63, 64, 65, 127, 128, 255, 256, 300] {
        out.push(vec![n]);
        out.push(vec![1, n]);
        out.push(vec![n, 1]);
    }
    // storage boundaries of `Name` (TinyVec inline capacity: 32 label octets, 24 label ends):
    // every constructor / combinator crosses them in both directions
    for s in inline_boundary_shapes() {
        out.push(s);
    }
    // more labels than any name can hold (the `labels.len() > 255` arm of from_labels)
    out.push(vec![1; 255]);
    out.push(vec![1; 256]);
    out.push(vec![1; 300]);
    out.retain(|s| !s.is_empty());
    out.sort();
    out.dedup();
    out
}

/// Label-length vectors around the inline/heap boundary of `Name`'s two TinyVecs.
pub fn inline_boundary_shapes() -> Vec<Vec<usize>> {
    let mut v: Vec<Vec<usize>> = vec![vec![31], vec![32], vec![33], vec![16, 15], vec![16, 16], vec![16, 17], vec![2; 16], vec![1; 23], vec![1; 24], vec![1; 25]];
    for n in [22usize, 23, 24] {
        for last in [8usize, 9, 10] {
            let mut s = vec![1; n];
            s.push(last);
            v.push(s);
        }
    }
    v
}

/// Labels for a shape: label i is filled with the letter 'a'+(i%26), upper case for every 5th.
pub fn fill(shape: &[usize]) -> Labels {
    shape
        .iter()
        .enumerate()
        .map(|(i, &n)| {
            let c = b'a' + (i % 26) as u8;
            vec![if i % 5 == 4 { c.to_ascii_uppercase() } else { c }; n]
        })
        .collect()
}

fn text_of(labels: &[Vec<u8>], fqdn: bool) -> String {
    let mut s = String::new();
    for (i, l) in labels.iter().enumerate() {
        if i > 0 {
            s.push('.');
        }
        s.push_str(std::str::from_utf8(l).unwrap());
    }
    if fqdn {
        s.push('.');
    }
    s
}

fn raw(labels: &[Vec<u8>]) -> Result<Name, String> {
    Name::from_labels(labels.iter().map(|l| l.as_slice())).map_err(|e| e.to_string())
}

fn lit(ls: &[Vec<u8>], out: &mut Vec<u8>) {
    for x in ls {
        out.push(x.len() as u8); // lengths > 255 are never passed here
        out.extend_from_slice(x);
    }
}

/// Judge the result of one operation.
fn judge(op: &str, res: Result<Result<Name, String>, vcore::PanicInfo>, expect: &Labels, fold: bool, l: &mut Local, case: &dyn Fn() -> Value) {
    l.eval();
    let exp_valid = validate(expect);
    match res {
        Err(p) => l.violation(&format!("panic:{}", vcore::short_loc(&p.loc)), &format!("{op}: {}", p.msg), case),
        Ok(Err(_)) => {
            if exp_valid.is_ok() {
                l.outcome(&format!("obs:limit:{op}:rejects-valid-name"));
            } else {
                l.outcome(&format!("limit:{op}:err-for-invalid"));
            }
        }
        Ok(Ok(n)) => {
            let got = match catch(|| observe(&n)) {
                Ok(g) => g,
                Err(p) => {
                    l.violation(&format!("limit:{op}:result-unreadable"), &format!("iter() panics: {}", p.msg), case);
                    return;
                }
            };
            match validate(&got.labels) {
                Err(Invalid::LabelTooLong(_, n)) => {
                    l.violation(&format!("limit:{op}:label-over-63"), &format!("Ok with a label of {n} octets"), case);
                    return;
                }
                Err(Invalid::NameTooLong(w)) => {
                    l.violation(&format!("limit:{op}:name-over-255"), &format!("Ok with wire length {w}"), case);
                    return;
                }
                Err(Invalid::EmptyLabel(_)) => {
                    l.outcome(&format!("obs:limit:{op}:empty-label-accepted"));
                    return;
                }
                Ok(()) => {}
            }
            let same = if fold { vref::name::labels_eq_fold(&got.labels, expect) } else { &got.labels == expect };
            if !same {
                l.violation(&format!("limit:{op}:content-mismatch"), "Ok, but the labels are not the requested ones", case);
                return;
            }
            // the emitted form obeys the limit too
            match catch(|| n.to_bytes()) {
                Ok(Ok(b)) if b.len() <= 255 && b.len() == wire_len(&got.labels) => {}
                Ok(Ok(b)) => {
                    l.violation(&format!("limit:{op}:emitted-length"), &format!("{} octets emitted", b.len()), case);
                    return;
                }
                Ok(Err(_)) => {
                    l.outcome(&format!("obs:limit:{op}:result-not-emittable"));
                    return;
                }
                Err(p) => {
                    l.violation(&format!("panic:{}", vcore::short_loc(&p.loc)), &p.msg, case);
                    return;
                }
            }
            let w = wire_len(&got.labels);
            if w == 255 {
                l.outcome(&format!("limit:{op}:ok-at-255"));
                l.outcome("limit:ok-at-255");
            } else if got.labels.iter().any(|x| x.len() == 63) {
                l.outcome(&format!("limit:{op}:ok-with-63"));
            } else {
                l.outcome(&format!("limit:{op}:ok"));
            }
            if w >= 253 || got.labels.iter().any(|x| x.len() >= 62) {
                l.nontrivial(fnv64(op.as_bytes()) ^ fnv64(&vref::name::to_wire(&got.labels)));
            }
        }
    }
}

pub fn shape_json(shape: &[usize]) -> Value {
    json!({"family": "limit", "shape": shape})
}

/// Every constructor / combinator on one label-length vector.
pub fn run_shape(shape: &[usize], l: &mut Local) {
    let labels = fill(shape);
    let n = labels.len();
    let case = || shape_json(shape);
    let all_small = shape.iter().all(|&x| x <= 255);
    let e = |s: hickory_proto::ProtoError| s.to_string();

    // from_labels (byte labels and string labels)
    judge("from_labels", catch(|| raw(&labels)), &labels, false, l, &case);
    judge(
        "from_labels-str",
        catch(|| Name::from_labels(labels.iter().map(|x| std::str::from_utf8(x).unwrap())).map_err(e)),
        &labels,
        true,
        l,
        &case,
    );

    // from wire: literal
    if all_small {
        let mut w = vec![];
        lit(&labels, &mut w);
        w.push(0);
        let labels_ok_for_wire = shape.iter().all(|&x| x <= 63);
        if labels_ok_for_wire {
            judge("read", catch(|| Name::read(&mut BinDecoder::new(&w)).map_err(|e| e.to_string())), &labels, false, l, &case);
            // pointer forms: prefix literal + pointer to the suffix at offset 12; chain of two pointers
            for k in split_points(n) {
                let mut b = vec![0u8; 12];
                lit(&labels[k..], &mut b);
                b.push(0);
                let pos = b.len();
                lit(&labels[..k], &mut b);
                b.extend_from_slice(&[0xc0, 12]);
                let res = catch(|| Name::read(&mut BinDecoder::new(&b).clone(pos as u16)).map_err(|e| e.to_string()));
                judge("read-pointer", res, &labels, false, l, &case);
                if k >= 2 {
                    // suffix2 at 12, [labels[j..k] + ptr 12] , then labels[..j] + ptr to that
                    let j = k / 2;
                    let mut b = vec![0u8; 12];
                    lit(&labels[k..], &mut b);
                    b.push(0);
                    let mid = b.len();
                    lit(&labels[j..k], &mut b);
                    b.extend_from_slice(&[0xc0, 12]);
                    let pos = b.len();
                    lit(&labels[..j], &mut b);
                    b.extend_from_slice(&[0xc0 | (mid >> 8) as u8, mid as u8]);
                    let res = catch(|| Name::read(&mut BinDecoder::new(&b).clone(pos as u16)).map_err(|e| e.to_string()));
                    judge("read-pointer-chain", res, &labels, false, l, &case);
                }
            }
        }
    }

    // text constructors
    for fq in [true, false] {
        let t = text_of(&labels, fq);
        judge("from_ascii", catch(|| Name::from_ascii(&t).map_err(e)), &labels, false, l, &case);
        judge("from_utf8", catch(|| Name::from_utf8(&t).map_err(e)), &labels, true, l, &case);
        judge("parse", catch(|| Name::parse(&t, None).map_err(e)), &labels, true, l, &case);
        judge("from_str", catch(|| Name::from_str(&t).map_err(e)), &labels, true, l, &case);
        judge("from_str_relaxed", catch(|| Name::from_str_relaxed(&t).map_err(e)), &labels, true, l, &case);
    }
    // escaped forms: every label's 2nd octet written as \DDD is outside the host class (octal quirk),
    // so use "\a" style single escapes which denote the octet itself
    {
        let mut t = String::new();
        for x in &labels {
            for (i, c) in x.iter().enumerate() {
                if i % 7 == 3 {
                    t.push('\\');
                }
                t.push(*c as char);
            }
            t.push('.');
        }
        judge("from_ascii-escaped", catch(|| Name::from_ascii(&t).map_err(e)), &labels, false, l, &case);
    }

    // parse with origin
    for k in split_points(n) {
        if let Ok(origin) = raw(&labels[k..]) {
            let t = text_of(&labels[..k], false);
            judge("parse-origin", catch(|| Name::parse(&t, Some(&origin)).map_err(e)), &labels, true, l, &case);
        }
    }

    // append_label / prepend_label
    if let Ok(base) = raw(&labels[..n - 1]) {
        let last = labels[n - 1].clone();
        let b2 = base.clone();
        judge("append_label", catch(|| b2.append_label(last.as_slice()).map_err(e)), &labels, false, l, &case);
        let b3 = base.clone();
        let s = String::from_utf8(last.clone()).unwrap();
        judge("append_label-str", catch(|| b3.append_label(s.as_str()).map_err(e)), &labels, true, l, &case);
        if let Ok(lab) = Label::from_raw_bytes(&last) {
            judge("append_label-Label", catch(|| base.clone().append_label(lab).map_err(e)), &labels, false, l, &case);
        }
    }
    if let Ok(base) = raw(&labels[1..]) {
        let first = labels[0].clone();
        judge("prepend_label", catch(|| base.prepend_label(first.as_slice()).map_err(e)), &labels, false, l, &case);
        let mut rel = base.clone();
        rel.set_fqdn(false);
        judge("prepend_label", catch(|| rel.prepend_label(first.as_slice()).map_err(e)), &labels, false, l, &case);
    }

    // append_name / append_domain at every split point
    for k in 0..=n {
        let (Ok(left), Ok(right)) = (raw(&labels[..k]), raw(&labels[k..])) else { continue };
        for lf in [true, false] {
            for rf in [true, false] {
                let mut a = left.clone();
                a.set_fqdn(lf);
                let mut b = right.clone();
                b.set_fqdn(rf);
                let (a2, b2) = (a.clone(), b.clone());
                judge("append_name", catch(|| a2.append_name(&b2).map_err(e)), &labels, false, l, &case);
                judge("append_domain", catch(|| a.append_domain(&b).map_err(e)), &labels, false, l, &case);
            }
        }
    }

    // shrinking / same-size combinators on the whole name
    if let Ok(whole) = raw(&labels) {
        let mut wl = labels.clone();
        wl[0] = b"*".to_vec();
        judge("into_wildcard", catch(|| Ok(whole.clone().into_wildcard())), &wl, false, l, &case);
        let mut rel = whole.clone();
        rel.set_fqdn(false);
        judge("into_wildcard", catch(|| Ok(rel.into_wildcard())), &wl, false, l, &case);
        judge("to_lowercase", catch(|| Ok(whole.to_lowercase())), &vref::name::lower(&labels), false, l, &case);
        judge("base_name", catch(|| Ok(whole.base_name())), &labels[1..].to_vec(), false, l, &case);
        for k in split_points(n) {
            judge("trim_to", catch(|| Ok(whole.trim_to(n - k))), &labels[k..].to_vec(), false, l, &case);
        }
        // growing a wildcard back: *.rest with a long first label replaced is always shorter; prepend to it
        let wild = whole.clone().into_wildcard();
        let first = labels[0].clone();
        let mut exp = vec![first.clone()];
        exp.extend(wl.iter().cloned());
        judge("prepend_label-to-wildcard", catch(|| wild.prepend_label(first.as_slice()).map_err(e)), &exp, false, l, &case);
    }
}

fn split_points(n: usize) -> Vec<usize> {
    let mut v = vec![1, n / 2, n.saturating_sub(1)];
    v.retain(|&k| k >= 1 && k < n);
    v.sort();
    v.dedup();
    v
}

/// IDNA labels: k copies of U+00FC become a punycode label whose length must still obey the limit.
pub fn run_unicode(k: usize, l: &mut Local) {
    let s: String = std::iter::repeat('\u{fc}').take(k).collect();
    let case = || json!({"family": "limit-unicode", "k": k});
    for (op, res) in [
        ("unicode:from_utf8", catch(|| Name::from_utf8(format!("{s}.a.")).map_err(|e| e.to_string()))),
        ("unicode:from_str", catch(|| Name::from_str(&format!("{s}.a.")).map_err(|e| e.to_string()))),
        ("unicode:append_label", catch(|| Name::root().append_label(s.as_str()).map_err(|e| e.to_string()))),
        ("unicode:Label::from_utf8", catch(|| Label::from_utf8(&s).and_then(|lab| Name::root().append_label(lab)).map_err(|e| e.to_string()))),
    ] {
        l.eval();
        match res {
            Err(p) => l.violation(&format!("panic:{}", vcore::short_loc(&p.loc)), &p.msg, case),
            Ok(Err(_)) => l.outcome(&format!("limit:{op}:err")),
            Ok(Ok(n)) => match validate(&observe(&n).labels) {
                Err(Invalid::LabelTooLong(_, x)) => l.violation(&format!("limit:{op}:label-over-63"), &format!("label of {x} octets"), case),
                Err(Invalid::NameTooLong(x)) => l.violation(&format!("limit:{op}:name-over-255"), &format!("wire length {x}"), case),
                _ => {
                    l.outcome(&format!("limit:{op}:ok"));
                    l.nontrivial(fnv64(op.as_bytes()) ^ k as u64);
                }
            },
        }
    }
}

pub fn replay_limit(case: &Value, l: &mut Local) {
    if case["family"].as_str() == Some("limit-unicode") {
        run_unicode(case["k"].as_u64().unwrap_or(1) as usize, l);
        return;
    }
    let shape: Vec<usize> = case["shape"].as_array().map(|a| a.iter().map(|x| x.as_u64().unwrap_or(1) as usize).collect()).unwrap_or_default();
    if !shape.is_empty() {
        run_shape(&shape, l);
    }
}
