//! Wire family: every absolute name x emit offset x compression scenario x name-encoding mode
//! through the real `Name::emit` / `Name::read`, judged with the independent walker
//! `vref::wire::read_name` and the reference labels; plus hickory's decoder on reference-made
//! (literal and pointer-compressed) encodings.

use hickory_proto::rr::Name;
use hickory_proto::serialize::binary::{BinDecodable, BinDecoder, BinEncodable, BinEncoder, NameEncoding};
use serde_json::{json, Value};
use vcore::{catch, fnv64, hex, Local};
use vref::name::{lower, swap_case, to_wire, wire_len, Labels, RefName};

use crate::common::*;

pub const OFFSETS: [usize; 5] = [0, 12, 0x3ffe, 0x3fff, 0x4000];
static ZEROS: [u8; 0x4100] = [0u8; 0x4100];

#[derive(Clone, Copy, Debug, PartialEq, Eq)]
pub enum Kind {
    Identical,
    /// prior: the name minus its first label; follower: one more label in front of the name
    Suffix,
    CaseVariant,
}

#[derive(Clone, Copy, Debug, PartialEq, Eq)]
pub enum Scen {
    Alone,
    PriorNear(Kind),
    PriorFar(Kind),
    Follow(Kind),
}

#[derive(Clone, Copy, Debug, PartialEq, Eq)]
pub enum Mode {
    Compressed,
    Uncompressed,
    Lowercase,
}

pub fn scenarios() -> Vec<Scen> {
    let mut v = vec![Scen::Alone];
    for k in [Kind::Identical, Kind::Suffix, Kind::CaseVariant] {
        v.push(Scen::PriorNear(k));
        v.push(Scen::PriorFar(k));
        v.push(Scen::Follow(k));
    }
    v
}

pub const MODES: [Mode; 3] = [Mode::Compressed, Mode::Uncompressed, Mode::Lowercase];

fn scen_name(s: Scen) -> String {
    let k = |k: Kind| match k {
        Kind::Identical => "identical",
        Kind::Suffix => "suffix",
        Kind::CaseVariant => "case-variant",
    };
    match s {
        Scen::Alone => "alone".into(),
        Scen::PriorNear(x) => format!("prior-near-{}", k(x)),
        Scen::PriorFar(x) => format!("prior-far-{}", k(x)),
        Scen::Follow(x) => format!("follow-{}", k(x)),
    }
}

fn scen_from(s: &str) -> Option<Scen> {
    scenarios().into_iter().find(|x| scen_name(*x) == s)
}

fn mode_name(m: Mode) -> &'static str {
    match m {
        Mode::Compressed => "compressed",
        Mode::Uncompressed => "uncompressed",
        Mode::Lowercase => "lowercase",
    }
}

fn set_mode(e: &mut BinEncoder<'_>, m: Mode) {
    e.name_encoding = match m {
        Mode::Compressed => NameEncoding::Compressed,
        Mode::Uncompressed => NameEncoding::Uncompressed,
        Mode::Lowercase => NameEncoding::UncompressedLowercase,
    };
}

pub fn wire_case_json(labels: &Labels, offset: usize, s: Scen, m: Mode, rel: bool) -> Value {
    json!({"family": "wire", "labels_hex": labels_json(labels), "offset": offset, "scenario": scen_name(s), "mode": mode_name(m), "relative": rel,
        "text": vref::name::present_any(&RefName::new(labels.clone(), true))})
}

/// The other name of a scenario (prior or follower); None if the scenario does not apply.
fn other_labels(labels: &Labels, s: Scen) -> Option<Labels> {
    let kind = match s {
        Scen::Alone => return None,
        Scen::PriorNear(k) | Scen::PriorFar(k) | Scen::Follow(k) => k,
    };
    match (kind, s) {
        (Kind::Identical, _) => Some(labels.clone()),
        (Kind::CaseVariant, _) => {
            let v = swap_case(labels);
            if &v == labels {
                None
            } else {
                Some(v)
            }
        }
        (Kind::Suffix, Scen::Follow(_)) => {
            let mut v = vec![b"x".to_vec()];
            v.extend(labels.iter().cloned());
            if wire_len(&v) > 255 {
                None
            } else {
                Some(v)
            }
        }
        (Kind::Suffix, _) => {
            if labels.len() < 2 {
                None
            } else {
                Some(labels[1..].to_vec())
            }
        }
    }
}

/// Judge one emitted name at `pos..end` of `buf`.
#[allow(clippy::too_many_arguments)]
fn judge_emitted(
    who: &str,
    buf: &[u8],
    pos: usize,
    end: usize,
    orig: &Labels,
    h: &Name,
    rel: bool,
    mode: Mode,
    scene: &str,
    l: &mut Local,
    case: &dyn Fn() -> Value,
) -> bool {
    let expected = if mode == Mode::Lowercase { lower(orig) } else { orig.clone() };
    // (1) independent walker on hickory's bytes
    match vref::wire::read_name(buf, pos) {
        Err(e) => {
            l.violation(&format!("wire:emit-unreadable-by-reference:{who}:{scene}"), &format!("{e:?}"), case);
            return false;
        }
        Ok((labels, after)) => {
            if labels != expected {
                let what = if vref::name::labels_eq_fold(&labels, &expected) { "case" } else { "labels" };
                l.violation(&format!("wire:emit-changed-{what}:{who}:{scene}"), "reference walker reads a different name from the emitted bytes", case);
                return false;
            }
            if after != end {
                l.violation(&format!("wire:emit-length:{who}:{scene}"), &format!("name ends at {after}, encoder at {end}"), case);
                return false;
            }
        }
    }
    if mode != Mode::Compressed && buf[pos..end] != to_wire(&expected)[..] {
        l.violation(&format!("wire:uncompressed-bytes-differ:{who}:{scene}"), "uncompressed mode did not produce the RFC 1035 3.1 encoding", case);
        return false;
    }
    if end - pos > 255 {
        l.violation(&format!("wire:emit-over-255:{who}:{scene}"), "more than 255 octets emitted for one name", case);
        return false;
    }
    // (2) hickory's decoder on hickory's bytes
    if pos > u16::MAX as usize {
        return true;
    }
    let mut dec = BinDecoder::new(buf).clone(pos as u16);
    match catch(|| Name::read(&mut dec)) {
        Err(p) => {
            l.violation(&format!("panic:{}", vcore::short_loc(&p.loc)), &p.msg, case);
            false
        }
        Ok(Err(e)) => {
            l.violation(&format!("wire:roundtrip-decode-fails:{who}:{scene}"), &e.to_string(), case);
            false
        }
        Ok(Ok(n)) => {
            let got = observe(&n);
            if got.labels != expected {
                let what = if vref::name::labels_eq_fold(&got.labels, &expected) { "case" } else { "labels" };
                l.violation(&format!("wire:roundtrip-changed-{what}:{who}:{scene}"), "decode(emit(name)) is a different name", case);
                return false;
            }
            if !got.fqdn {
                l.violation(&format!("wire:roundtrip-not-absolute:{who}:{scene}"), "decoded name is not absolute", case);
                return false;
            }
            if rel {
                // a relative name has no wire form of its own: the labels must survive, the decoded
                // name is absolute by construction
                if mode != Mode::Lowercase && !n.eq_ignore_root_case(h) {
                    l.violation(&format!("wire:relative:roundtrip-labels-differ:{who}:{scene}"), "eq_ignore_root_case(decoded, original) is false", case);
                    return false;
                }
            } else if mode != Mode::Lowercase && !n.eq_case(h) {
                l.violation(&format!("wire:roundtrip-eq_case-false:{who}:{scene}"), "eq_case(decoded, original) is false", case);
                return false;
            }
            if dec.index() != end {
                l.violation(&format!("wire:roundtrip-cursor:{who}:{scene}"), &format!("decoder at {}, name ends at {end}", dec.index()), case);
                return false;
            }
            true
        }
    }
}

/// One (name, offset, scenario, mode) case on the real encoder/decoder.
pub fn run_wire_case(labels: &Labels, h: &Name, rel: bool, offset: usize, s: Scen, mode: Mode, buf: &mut Vec<u8>, l: &mut Local) {
    let other = match s {
        Scen::Alone => None,
        _ => match other_labels(labels, s) {
            Some(o) => Some(o),
            None => return, // scenario not applicable to this name
        },
    };
    let other_h = match &other {
        Some(o) => match build(&RefName::new(o.clone(), true)) {
            Ok(n) => Some(n),
            Err(_) => return,
        },
        None => None,
    };
    let olen = other.as_ref().map(wire_len).unwrap_or(0);
    let start = match s {
        Scen::Alone | Scen::Follow(_) => offset,
        Scen::PriorNear(_) => {
            if offset < olen {
                return;
            }
            offset - olen
        }
        Scen::PriorFar(_) => {
            if offset < 12 + olen + 1 {
                return;
            }
            12
        }
    };
    l.eval();
    // abstract scene for keys: mode, scenario without near/far, offset class (the case JSON keeps
    // the exact scenario and offset)
    let short = scen_name(s).replace("-near", "").replace("-far", "");
    let scene = format!("{}{}:{}:{}", if rel { "relative:" } else { "" }, mode_name(mode), short, if offset >= 0x3ffe { "off-high" } else { "off-low" });
    let case = || wire_case_json(labels, offset, s, mode, rel);
    buf.truncate(start);
    buf.resize(start, 0);
    // positions: (prior_pos, prior_end), (pos, end), (fol_pos, fol_end)
    let res = catch(|| -> Result<[usize; 6], String> {
        let mut enc = BinEncoder::with_offset(buf, start as u32);
        set_mode(&mut enc, mode);
        let mut p = [0usize; 6];
        if let (Scen::PriorNear(_) | Scen::PriorFar(_), Some(oh)) = (s, &other_h) {
            p[0] = enc.len();
            oh.emit(&mut enc).map_err(|e| format!("prior: {e}"))?;
            p[1] = enc.len();
            if let Scen::PriorFar(_) = s {
                let fill = offset - p[1];
                enc.emit_slice(&ZEROS[..fill]).map_err(|e| e.to_string())?;
            }
        }
        p[2] = enc.len();
        h.emit(&mut enc).map_err(|e| format!("name: {e}"))?;
        p[3] = enc.len();
        if let (Scen::Follow(_), Some(oh)) = (s, &other_h) {
            p[4] = enc.len();
            oh.emit(&mut enc).map_err(|e| format!("follower: {e}"))?;
            p[5] = enc.len();
        }
        Ok(p)
    });
    let p = match res {
        Err(pn) => {
            l.violation(&format!("panic:{}", vcore::short_loc(&pn.loc)), &pn.msg, case);
            return;
        }
        Ok(Err(e)) => {
            l.violation(&format!("wire:emit-fails:{scene}"), &e, case);
            return;
        }
        Ok(Ok(p)) => p,
    };
    if p[2] != offset {
        // near prior compressed against nothing must have its plain length; anything else means
        // the harness mis-positioned the name
        l.violation(&format!("wire:prior-length:{scene}"), &format!("name starts at {}, planned {}", p[2], offset), case);
        return;
    }
    let mut ok = judge_emitted("name", buf, p[2], p[3], labels, h, rel, mode, &scene, l, &case);
    if let (Some(o), Some(oh)) = (&other, &other_h) {
        match s {
            Scen::PriorNear(_) | Scen::PriorFar(_) => ok &= judge_emitted("prior", buf, p[0], p[1], o, oh, false, mode, &scene, l, &case),
            Scen::Follow(_) => ok &= judge_emitted("follower", buf, p[4], p[5], o, oh, false, mode, &scene, l, &case),
            Scen::Alone => {}
        }
    }
    if ok {
        let plain = wire_len(labels);
        let fol_plain = olen;
        let ptr = p[3] - p[2] < plain || (matches!(s, Scen::Follow(_)) && p[5] - p[4] < fol_plain);
        if rel {
            l.outcome("wire:ok:relative-name");
        }
        if ptr {
            l.outcome(if offset >= 0x3ffe { "wire:ok:pointer-emitted-high-offset" } else { "wire:ok:pointer-emitted" });
            l.nontrivial(fnv64(&buf[start..]) ^ (offset as u64).wrapping_mul(0x9e3779b97f4a7c15) ^ fnv64(scene.as_bytes()));
        } else {
            l.outcome("wire:ok:no-pointer");
            if labels.iter().flatten().any(|b| b.is_ascii_uppercase() || !b.is_ascii_graphic()) {
                l.nontrivial(fnv64(&buf[start..]) ^ (offset as u64).wrapping_mul(0x9e3779b97f4a7c15) ^ fnv64(scene.as_bytes()));
            }
        }
    }
}

pub fn replay_wire(case: &Value, l: &mut Local) {
    let labels = labels_from_json(&case["labels_hex"]);
    let rel = case["relative"].as_bool().unwrap_or(false);
    let Ok(h) = build(&RefName::new(labels.clone(), !rel)) else { return };
    let offset = case["offset"].as_u64().unwrap_or(0) as usize;
    let Some(s) = scen_from(case["scenario"].as_str().unwrap_or("alone")) else { return };
    let mode = match case["mode"].as_str() {
        Some("uncompressed") => Mode::Uncompressed,
        Some("lowercase") => Mode::Lowercase,
        _ => Mode::Compressed,
    };
    let mut buf = vec![];
    run_wire_case(&labels, &h, rel, offset, s, mode, &mut buf, l);
}

// ------------------------------------------------------------------------------------------
// hickory's decoder on reference-made encodings

#[derive(Clone, Copy, Debug, PartialEq, Eq)]
pub enum Form {
    Literal,
    /// first k labels literal, then a pointer to the remaining labels encoded right before the name
    PtrNear(usize),
    /// ... encoded at offset 12
    PtrFar(usize),
    /// ... encoded at offset 12 as the tail of a longer name (pointer into the middle)
    PtrMid(usize),
    /// labels[..j] + pointer to (labels[j..k] + pointer to labels[k..] at offset 12), j = k/2:
    /// a pointer whose target ends in another pointer
    PtrChain(usize),
}

pub fn forms(nlabels: usize) -> Vec<Form> {
    let mut v = vec![Form::Literal];
    for k in 0..nlabels {
        v.push(Form::PtrNear(k));
        v.push(Form::PtrFar(k));
        v.push(Form::PtrMid(k));
        if k >= 1 {
            v.push(Form::PtrChain(k));
        }
    }
    v
}

fn form_name(f: Form) -> String {
    match f {
        Form::Literal => "literal".into(),
        Form::PtrNear(k) => format!("ptr-near-{k}"),
        Form::PtrFar(k) => format!("ptr-far-{k}"),
        Form::PtrMid(k) => format!("ptr-mid-{k}"),
        Form::PtrChain(k) => format!("ptr-chain-{k}"),
    }
}

fn form_class(f: Form) -> &'static str {
    match f {
        Form::Literal => "literal",
        Form::PtrNear(_) => "ptr-near",
        Form::PtrFar(_) => "ptr-far",
        Form::PtrMid(_) => "ptr-mid",
        Form::PtrChain(_) => "ptr-chain",
    }
}

pub fn run_refbytes_case(labels: &Labels, h: &Name, offset: usize, f: Form, buf: &mut Vec<u8>, l: &mut Local) {
    buf.clear();
    let mut name_bytes: Vec<u8> = vec![];
    let lit = |ls: &[Vec<u8>], out: &mut Vec<u8>| {
        for x in ls {
            out.push(x.len() as u8);
            out.extend_from_slice(x);
        }
    };
    match f {
        Form::Literal => {
            buf.resize(offset, 0);
            name_bytes = to_wire(labels);
        }
        Form::PtrNear(k) => {
            let target = to_wire(&labels[k..].to_vec());
            if offset < target.len() {
                return;
            }
            let p = offset - target.len();
            if p >= 0x4000 {
                return;
            }
            buf.resize(p, 0);
            buf.extend_from_slice(&target);
            lit(&labels[..k], &mut name_bytes);
            name_bytes.extend_from_slice(&[0xc0 | (p >> 8) as u8, p as u8]);
        }
        Form::PtrChain(k) => {
            let j = k / 2;
            let tail = to_wire(&labels[k..].to_vec());
            let mut mid: Vec<u8> = vec![];
            lit(&labels[j..k], &mut mid);
            mid.extend_from_slice(&[0xc0, 12]);
            let midpos = 12 + tail.len();
            if offset < midpos + mid.len() {
                return;
            }
            buf.resize(12, 0);
            buf.extend_from_slice(&tail);
            buf.extend_from_slice(&mid);
            buf.resize(offset, 0);
            lit(&labels[..j], &mut name_bytes);
            name_bytes.extend_from_slice(&[0xc0 | (midpos >> 8) as u8, midpos as u8]);
        }
        Form::PtrFar(k) | Form::PtrMid(k) => {
            let mut target = vec![];
            let mut p = 12usize;
            if let Form::PtrMid(_) = f {
                target.extend_from_slice(&[2, b'm', b'M']);
                p += 3;
            }
            target.extend_from_slice(&to_wire(&labels[k..].to_vec()));
            if target.len() > 255 || offset < 12 + target.len() {
                return;
            }
            buf.resize(12, 0);
            buf.extend_from_slice(&target);
            buf.resize(offset, 0);
            lit(&labels[..k], &mut name_bytes);
            name_bytes.extend_from_slice(&[0xc0 | (p >> 8) as u8, p as u8]);
        }
    }
    if buf.len() != offset {
        return;
    }
    buf.extend_from_slice(&name_bytes);
    let end = buf.len();
    buf.extend_from_slice(&[0xaa, 0xbb]); // something after the name
    l.eval();
    let scene = format!("{}:{}", form_class(f), if offset >= 0x3ffe { "off-high" } else { "off-low" });
    let case = || {
        json!({"family": "refbytes", "labels_hex": labels_json(labels), "offset": offset, "form": form_name(f),
            "name_bytes": hex::enc(&name_bytes)})
    };
    // the reference walker must agree with the construction (machinery self-check)
    match vref::wire::read_name(buf, offset) {
        Ok((ls, after)) if &ls == labels && after == end => {}
        other => {
            l.violation("machinery:refbytes-construction", &format!("{other:?}"), case);
            return;
        }
    }
    let mut dec = BinDecoder::new(buf).clone(offset as u16);
    match catch(|| Name::read(&mut dec)) {
        Err(p) => l.violation(&format!("panic:{}", vcore::short_loc(&p.loc)), &p.msg, case),
        Ok(Err(e)) => l.violation(&format!("wire:decode-rejects-valid:{scene}"), &e.to_string(), case),
        Ok(Ok(n)) => {
            let got = observe(&n);
            if &got.labels != labels {
                let what = if vref::name::labels_eq_fold(&got.labels, labels) { "case" } else { "labels" };
                l.violation(&format!("wire:decode-changed-{what}:{scene}"), "decoded name differs from the encoded one", case);
            } else if !got.fqdn || !n.eq_case(h) {
                l.violation(&format!("wire:decode-eq_case-false:{scene}"), "decoded name is not eq_case to the original", case);
            } else if dec.index() != end {
                l.violation(&format!("wire:decode-cursor:{scene}"), &format!("decoder at {}, name ends at {end}", dec.index()), case);
            } else {
                l.outcome(if f == Form::Literal { "refbytes:ok:literal" } else { "refbytes:ok:pointer" });
                if f != Form::Literal {
                    l.nontrivial(fnv64(&name_bytes) ^ fnv64(scene.as_bytes()) ^ fnv64(&to_wire(labels)).rotate_left(17));
                }
            }
        }
    }
}

pub fn replay_refbytes(case: &Value, l: &mut Local) {
    let labels = labels_from_json(&case["labels_hex"]);
    let Ok(h) = build(&RefName::new(labels.clone(), true)) else { return };
    let offset = case["offset"].as_u64().unwrap_or(0) as usize;
    let fname = case["form"].as_str().unwrap_or("literal").to_string();
    let Some(f) = forms(labels.len()).into_iter().find(|f| form_name(*f) == fname) else { return };
    let mut buf = vec![];
    run_refbytes_case(&labels, &h, offset, f, &mut buf, l);
}
