//! Sequence family (audit round, classes (a)/(b)/(d)): several names through ONE encoder and ONE
//! decoder, as in a message. The encoder carries state from name to name (`name_pointers`, capped
//! at 64 candidates; `compressed_name_count`, compression stops after 120 names), the decoder
//! carries the compression-pointer hop budget. Every name of the sequence must come back with
//! identical octets; hickory's bytes are also read by the reference walker, and the same sequence
//! encoded by an independent maximal compressor (vref side, below) is decoded by hickory.

use hickory_proto::rr::Name;
use hickory_proto::serialize::binary::{BinDecodable, BinDecoder, BinEncodable, BinEncoder, NameEncoding};
use serde_json::{json, Value};
use vcore::{catch, fnv64, Local};
use vref::name::{to_wire, Labels, RefName};

use crate::common::*;

pub fn seq_case_json(kind: &str, names: &[Labels], offset: usize, compressed: bool) -> Value {
    json!({"family": "sequence", "kind": kind, "offset": offset, "compressed": compressed,
        "names": names.iter().map(labels_json).collect::<Vec<_>>(),
        "text": names.iter().take(6).map(|n| vref::name::present_any(&RefName::new(n.clone(), true))).collect::<Vec<_>>()})
}

/// Independent compressor: each name is written label by label; before each label the longest
/// remaining suffix is looked up (exact octets) among the suffixes of earlier names that start
/// below 0x4000, and replaced by a pointer (RFC 1035 4.1.4). No candidate or name-count limits.
pub fn ref_compress(names: &[Labels], offset: usize) -> (Vec<u8>, Vec<(usize, usize)>) {
    let mut buf = vec![0u8; offset];
    let mut table: Vec<(Labels, usize)> = vec![];
    let mut spans = vec![];
    for n in names {
        let start = buf.len();
        let mut new_entries = vec![];
        let mut done = false;
        for i in 0..n.len() {
            let suffix: Labels = n[i..].to_vec();
            if let Some((_, pos)) = table.iter().find(|(s, _)| *s == suffix) {
                buf.extend_from_slice(&[0xc0 | (*pos >> 8) as u8, *pos as u8]);
                done = true;
                break;
            }
            if buf.len() < 0x4000 {
                new_entries.push((suffix, buf.len()));
            }
            buf.push(n[i].len() as u8);
            buf.extend_from_slice(&n[i]);
        }
        if !done {
            buf.push(0);
        }
        table.extend(new_entries);
        spans.push((start, buf.len()));
    }
    (buf, spans)
}

/// Decode `count` names from `buf` starting at `start` through ONE hickory decoder and compare
/// with the expected labels; returns the index of the first name that fails (with the error).
fn decode_all(buf: &[u8], start: usize, names: &[Labels], spans: Option<&[(usize, usize)]>) -> Result<(), (usize, String, &'static str)> {
    let mut dec = BinDecoder::new(buf).clone(start as u16);
    for (i, want) in names.iter().enumerate() {
        match Name::read(&mut dec) {
            Err(e) => return Err((i, e.to_string(), "rejected")),
            Ok(n) => {
                let got = observe(&n);
                if &got.labels != want {
                    let what = if vref::name::labels_eq_fold(&got.labels, want) { "changed-case" } else { "changed-labels" };
                    return Err((i, format!("got {}", vref::name::present_any(&got)), what));
                }
                if !got.fqdn {
                    return Err((i, "decoded name is relative".into(), "not-absolute"));
                }
                if let Some(sp) = spans {
                    if dec.index() != sp[i].1 {
                        return Err((i, format!("decoder at {}, name ends at {}", dec.index(), sp[i].1), "cursor"));
                    }
                }
            }
        }
    }
    Ok(())
}

/// Position class of a failing name inside a sequence (for keys): first / second / later.
fn pos_class(i: usize) -> &'static str {
    match i {
        0 => "first",
        1 => "second",
        2 => "third",
        _ => "later",
    }
}

/// One sequence on the real encoder + decoder, and the reference-compressed form on the decoder.
/// `judge_ref_reject`: whether a rejection of the reference-compressed form is a violation (false
/// for the deep-nesting sequences where the decoder's global hop budget is a documented trade-off).
pub fn run_sequence(kind: &str, names: &[Labels], offset: usize, compressed: bool, judge_ref_reject: bool, l: &mut Local) {
    l.eval();
    let case = || seq_case_json(kind, names, offset, compressed);
    let hs: Vec<Name> = match names.iter().map(|n| build(&RefName::new(n.clone(), true))).collect::<Result<Vec<_>, _>>() {
        Ok(v) => v,
        Err(_) => return,
    };
    let mode = if compressed { "compressed" } else { "uncompressed" };
    let off = if offset >= 0x3f00 { "off-high" } else { "off-low" };
    // ---- hickory encoder
    let mut buf = vec![0u8; offset];
    let res = catch(|| -> Result<Vec<(usize, usize)>, (usize, String)> {
        let mut enc = BinEncoder::with_offset(&mut buf, offset as u32);
        enc.name_encoding = if compressed { NameEncoding::Compressed } else { NameEncoding::Uncompressed };
        let mut spans = vec![];
        for (i, h) in hs.iter().enumerate() {
            let s = enc.len();
            h.emit(&mut enc).map_err(|e| (i, e.to_string()))?;
            spans.push((s, enc.len()));
        }
        Ok(spans)
    });
    let spans = match res {
        Err(p) => {
            l.violation(&format!("panic:{}", vcore::short_loc(&p.loc)), &p.msg, case);
            return;
        }
        Ok(Err((i, e))) => {
            l.violation(&format!("seq:emit-fails:{kind}:{mode}:{}:{off}", pos_class(i)), &format!("name #{i}: {e}"), case);
            return;
        }
        Ok(Ok(s)) => s,
    };
    // reference walker on hickory's bytes
    let mut ok = true;
    let mut ptr_used = false;
    for (i, want) in names.iter().enumerate() {
        match vref::wire::read_name(&buf, spans[i].0) {
            Ok((ls, after)) if &ls == want && after == spans[i].1 => {
                if !compressed && buf[spans[i].0..spans[i].1] != to_wire(want)[..] {
                    l.violation(&format!("seq:uncompressed-bytes-differ:{kind}:{}:{off}", pos_class(i)), "not the RFC 1035 3.1 encoding", case);
                    ok = false;
                    break;
                }
                if spans[i].1 - spans[i].0 < vref::name::wire_len(want) {
                    ptr_used = true;
                }
            }
            Ok((ls, _)) => {
                let what = if vref::name::labels_eq_fold(&ls, want) { "changed-case" } else if &ls == want { "length" } else { "changed-labels" };
                l.violation(&format!("seq:emit-{what}:{kind}:{mode}:{}:{off}", pos_class(i)), &format!("reference walker reads name #{i} differently"), case);
                ok = false;
                break;
            }
            Err(e) => {
                l.violation(&format!("seq:emit-unreadable-by-reference:{kind}:{mode}:{}:{off}", pos_class(i)), &format!("name #{i}: {e:?}"), case);
                ok = false;
                break;
            }
        }
    }
    if !ok {
        return;
    }
    // one hickory decoder over hickory's bytes
    match catch(|| decode_all(&buf, spans[0].0, names, Some(&spans))) {
        Err(p) => {
            l.violation(&format!("panic:{}", vcore::short_loc(&p.loc)), &p.msg, case);
            return;
        }
        Ok(Err((i, e, what))) => {
            l.violation(&format!("seq:roundtrip-{what}:{kind}:{mode}:{}:{off}", pos_class(i)), &format!("name #{i} of {}: {e}", names.len()), case);
            return;
        }
        Ok(Ok(())) => {}
    }
    l.outcome(if ptr_used { "seq:ok:pointers-emitted" } else { "seq:ok:no-pointer" });
    if names.len() > 120 && compressed {
        l.outcome("seq:ok:more-than-120-names");
    }
    l.nontrivial(fnv64(&buf[offset..]) ^ fnv64(kind.as_bytes()) ^ offset as u64);
    // ---- independent compressor -> hickory decoder
    if compressed {
        l.eval();
        let (rbuf, rspans) = ref_compress(names, offset);
        // machinery self-check: the walker reads the reference encoding back
        for (i, want) in names.iter().enumerate() {
            match vref::wire::read_name(&rbuf, rspans[i].0) {
                Ok((ls, after)) if &ls == want && after == rspans[i].1 => {}
                other => {
                    l.violation("machinery:ref-compress", &format!("name #{i}: {other:?}"), case);
                    return;
                }
            }
        }
        match catch(|| decode_all(&rbuf, rspans[0].0, names, Some(&rspans))) {
            Err(p) => l.violation(&format!("panic:{}", vcore::short_loc(&p.loc)), &p.msg, case),
            Ok(Err((i, e, what))) => {
                if what == "rejected" && !judge_ref_reject {
                    l.outcome(&format!("obs:seq:reference-compressed-name-rejected:{kind}"));
                    l.outcome_sample(&format!("obs:seq:reference-compressed-name-rejected-at-{}", if i >= 64 { ">=64" } else { "<64" }), || {
                        json!({"kind": kind, "first_rejected_index": i, "names": names.len(), "buffer_len": rbuf.len(), "error": e})
                    });
                } else {
                    l.violation(&format!("seq:decode-of-reference-compression-{what}:{kind}:{}:{off}", pos_class(i)), &format!("name #{i} of {}: {e}", names.len()), case);
                }
            }
            Ok(Ok(())) => {
                l.outcome("seq:ok:reference-compressed");
                l.nontrivial(fnv64(&rbuf[offset..]) ^ 0x726566 ^ offset as u64);
            }
        }
    }
}

/// Small name alphabet with every suffix / case relation, for the exhaustive triples.
pub fn triple_alphabet() -> Vec<Labels> {
    let n = |s: &[&[u8]]| -> Labels { s.iter().map(|x| x.to_vec()).collect() };
    vec![
        n(&[]),
        n(&[b"z"]),
        n(&[b"Z"]),
        n(&[b"a", b"z"]),
        n(&[b"A", b"z"]),
        n(&[b"a", b"Z"]),
        n(&[b"b", b"a", b"z"]),
        n(&[b"B", b"A", b"Z"]),
        n(&[b"z", b"z"]),
        n(&[b"a", b"a", b"z"]),
        n(&[b"a.z"]),
        n(&[b"\x00", b"z"]),
        n(&[b"*", b"a", b"z"]),
    ]
}

/// Long sequences that reach the encoder's and the decoder's carried limits.
pub fn long_sequences() -> Vec<(&'static str, Vec<Labels>, bool)> {
    let lab = |i: usize| -> Vec<u8> { vec![if i % 3 == 0 { b'A' + (i % 26) as u8 } else { b'a' + (i % 26) as u8 }] };
    let mut out: Vec<(&'static str, Vec<Labels>, bool)> = vec![];
    // nest: name k = k one-octet labels, each the previous name with one more label in front
    let mut nest = vec![];
    for k in 1..=127usize {
        let n: Labels = (127 - k..127).map(lab).collect();
        nest.push(n);
    }
    // the decoder's hop budget is global per buffer (8 per octet + 128): a third-party encoding of this
    // sequence needs k-1 hops for name k (8,001 in total) and name 94 is rejected at offset 12. Decided
    // with the lead (DESIGN 11.2): stays an observation — RFC 1035 sets no hop bound, a per-name cap
    // contradicts hickory's own 8,000-link chain test, a larger constant breaks C01's linear-work curve,
    // and mainstream decoders (BIND: 16 hops per name) reject such encodings too
    out.push(("nest-127", nest.clone(), false));
    out.push(("nest-64", nest[..64].to_vec(), true));
    // same: one name 130 times (compression stops after 120 names)
    let base: Labels = vec![b"Host".to_vec(), b"example".to_vec(), b"z".to_vec()];
    out.push(("same-130", vec![base.clone(); 130], true));
    // alternate a name and its case variant 130 times
    let alt: Vec<Labels> = (0..130).map(|i| if i % 2 == 0 { base.clone() } else { vref::name::swap_case(&base) }).collect();
    out.push(("case-alternating-130", alt, true));
    // 70 distinct siblings under one suffix (candidate table holds 64), then early and late ones again
    let mut sib: Vec<Labels> = (0..70).map(|i| vec![format!("h{i:02}").into_bytes(), b"Sub".to_vec(), b"z".to_vec()]).collect();
    let again: Vec<Labels> = vec![sib[0].clone(), sib[30].clone(), sib[63].clone(), sib[64].clone(), sib[69].clone(), vec![b"Sub".to_vec(), b"z".to_vec()]];
    sib.extend(again);
    out.push(("siblings-70-then-repeats", sib, true));
    // 125 distinct names, then each again (names beyond 120 are written uncompressed)
    let mut many: Vec<Labels> = (0..125).map(|i| vec![format!("n{i:03}").into_bytes(), b"z".to_vec()]).collect();
    let rep = many.clone();
    many.extend(rep);
    out.push(("distinct-125-twice", many, true));
    // full-length names sharing a long suffix
    let long: Labels = vec![vec![b'x'; 63], vec![b'y'; 63], vec![b'z'; 63]];
    let mut full = vec![];
    for i in 0..6u8 {
        let mut n = vec![vec![b'a' + i; 61]];
        n.extend(long.iter().cloned());
        full.push(n);
    }
    full.push(long.clone());
    out.push(("full-length-shared-suffix", full, true));
    out
}

pub fn replay_sequence(case: &Value, l: &mut Local) {
    let names: Vec<Labels> = case["names"].as_array().map(|a| a.iter().map(labels_from_json).collect()).unwrap_or_default();
    if names.is_empty() {
        return;
    }
    let kind = case["kind"].as_str().unwrap_or("replay").to_string();
    let judge = !kind.starts_with("nest-127");
    run_sequence(
        &kind,
        &names,
        case["offset"].as_u64().unwrap_or(0) as usize,
        case["compressed"].as_bool().unwrap_or(true),
        judge,
        l,
    );
}
