//! Pair family: eq / hash / cmp laws of Name, LowerName and RrKey on ALL ordered pairs of a
//! universe, judged against the reference comparator (vref::name); triple family: transitivity
//! on a small universe that mixes absolute and relative names (where RFC 4034 gives no order and
//! only "some total order consistent with equality" is demanded).

use std::cmp::Ordering;
use std::collections::HashMap;

use crate::hashers::{hashes, mismatch, FxBuild, Hashes};

use hickory_proto::rr::{LowerName, Name, RecordType, RrKey};
use serde_json::{json, Value};
use vcore::{fnv64, Ctx, Local};
use vref::name::{canonical_cmp, RefName};

use crate::common::*;

pub struct Ent {
    pub r: RefName,
    pub h: Name,
    pub low: LowerName,
    pub ka: RrKey,
    pub kb: RrKey,
    /// SipHash / FxHash / length-prefixing hash / recorded Hasher call log of the Name, of its
    /// LowerName and of the RrKey (type A)
    pub hs: Hashes,
    pub lhs: Hashes,
    pub khs: Hashes,
    /// dense rank of the labels under the reference canonical order (equal labels share a rank)
    pub rank: u32,
    /// case-folded concatenation of all label octets
    pub flat: Vec<u8>,
    /// id of the label-length vector
    pub shape: u64,
    /// digest of (wire form, flag)
    pub id: u64,
    /// dense rank of the labels under the canonical order WITHOUT case folding
    pub rank_case: u32,
    /// case-folded labels
    pub lowl: vref::name::Labels,
}


pub fn ent(r: RefName) -> Result<Ent, String> {
    let h = build(&r)?;
    let low = LowerName::new(&h);
    let ka = RrKey::new(low.clone(), RecordType::A);
    let kb = RrKey::new(low.clone(), RecordType::AAAA);
    let flat: Vec<u8> = r.labels.concat().iter().map(|b| vref::name::fold(*b)).collect();
    let shape = fnv64(&r.labels.iter().map(|l| l.len() as u8).collect::<Vec<u8>>());
    Ok(Ent {
        hs: hashes(&h),
        lhs: hashes(&low),
        khs: hashes(&ka),
        h,
        low,
        ka,
        kb,
        rank: 0,
        flat,
        shape,
        id: fnv64(&vref::name::to_wire(&r.labels)) ^ (r.fqdn as u64),
        rank_case: 0,
        lowl: vref::name::lower(&r.labels),
        r,
    })
}

/// Build the universe and assign reference ranks. Also checks that `from_labels` + `iter()`
/// reproduce the requested labels (content check of the constructor used everywhere else).
pub fn universe(ctx: &Ctx, names: Vec<RefName>) -> Vec<Ent> {
    let mut ents: Vec<Ent> = Vec::with_capacity(names.len());
    ctx.with_local(|l| {
        for r in names {
            match ent(r.clone()) {
                Ok(e) => {
                    if observe(&e.h) != r {
                        l.violation("construct:from_labels-content", "from_labels + iter() do not reproduce the labels", || {
                            json!({"family": "construct", "name": name_json(&r)})
                        });
                    }
                    ents.push(e);
                }
                Err(e) => l.violation("construct:from_labels-rejects-valid", &e, || json!({"family": "construct", "name": name_json(&r)})),
            }
        }
    });
    // every name against its canonical lower-case twin (equal by definition): Name, LowerName, RrKey
    ctx.with_local(|l| {
        for e in &ents {
            let twin_r = RefName::new(vref::name::lower(&e.r.labels), e.r.fqdn);
            let Ok(t) = ent(twin_r) else { continue };
            l.eval();
            if e.h != t.h || e.low != t.low || e.ka != t.ka {
                l.violation("eq:lowercase-twin-not-equal", "a name is not equal to its lower-case twin", || pair_case(&e.r, &t.r));
                continue;
            }
            for (who, x, y) in [("hash", &e.hs, &t.hs), ("lowername-hash", &e.lhs, &t.lhs), ("rrkey-hash", &e.khs, &t.khs)] {
                if let Some(m) = mismatch(x, y) {
                    l.violation(&format!("{who}:{m}:vs-lowercase-twin"), "a name and its lower-case twin are hashed differently", || hash_case(&e.r, &t.r, x, y));
                }
            }
            if e.r.labels != t.r.labels {
                l.outcome("hash:twin-with-other-case-compared");
            }
        }
    });
    let mut idx: Vec<usize> = (0..ents.len()).collect();
    idx.sort_by(|&a, &b| canonical_cmp(&ents[a].r.labels, &ents[b].r.labels));
    let mut rank = 0u32;
    for k in 0..idx.len() {
        if k > 0 {
            match canonical_cmp(&ents[idx[k - 1]].r.labels, &ents[idx[k]].r.labels) {
                Ordering::Less => rank += 1,
                Ordering::Equal => {}
                Ordering::Greater => ctx.machinery_failure("reference comparator is not a total preorder (sort check)"),
            }
        }
        ents[idx[k]].rank = rank;
    }
    idx.sort_by(|&a, &b| vref::name::canonical_cmp_case(&ents[a].r.labels, &ents[b].r.labels));
    let mut rank = 0u32;
    for k in 0..idx.len() {
        if k > 0 && vref::name::canonical_cmp_case(&ents[idx[k - 1]].r.labels, &ents[idx[k]].r.labels) != Ordering::Equal {
            rank += 1;
        }
        ents[idx[k]].rank_case = rank;
    }
    ents
}

fn pair_case(a: &RefName, b: &RefName) -> Value {
    json!({"family": "pair", "a": name_json(a), "b": name_json(b)})
}

fn hash_case(a: &RefName, b: &RefName, ha: &Hashes, hb: &Hashes) -> Value {
    json!({"family": "pair", "a": name_json(a), "b": name_json(b),
        "hasher_calls_a": crate::hashers::render(&ha.log), "hasher_calls_b": crate::hashers::render(&hb.log),
        "siphash": [ha.sip, hb.sip], "fxhash": [ha.fx, hb.fx], "length_prefixing": [ha.lp, hb.lp]})
}

/// The oracle for one ordered pair. `full` adds the LowerName / RrKey clauses.
#[inline]
pub fn judge_pair(a: &Ent, b: &Ent, full: bool, laws: bool, l: &mut Local) {
    let same_flag = a.r.fqdn == b.r.fqdn;
    let want_eq = same_flag && a.rank == b.rank;
    let got_eq = a.h == b.h;
    if got_eq != want_eq {
        let rel = relation(&a.r, &b.r);
        l.violation(&format!("eq:got-{got_eq}:{rel}"), "Name == disagrees with case-folded label identity", || pair_case(&a.r, &b.r));
    }
    if want_eq {
        // Hash consistent with Eq for EVERY hasher: identical Hasher call sequence, and equal values
        // under SipHash, the chunk-sensitive FxHash and a length-prefixing hasher
        if let Some(m) = mismatch(&a.hs, &b.hs) {
            let rel = relation(&a.r, &b.r);
            let key = if m == "siphash-differs" { format!("hash:differs-for-equal:{rel}") } else { format!("hash:{m}:{rel}") };
            l.violation(&key, "equal names are hashed differently", || hash_case(&a.r, &b.r, &a.hs, &b.hs));
        }
        if !std::ptr::eq(a, b) {
            // a map keyed by Name under a chunk-sensitive hasher finds the key through any equal name
            let mut m: HashMap<Name, u8, FxBuild> = HashMap::default();
            m.insert(a.h.clone(), 1);
            if m.get(&b.h).is_none() || m.insert(b.h.clone(), 2).is_none() || m.len() != 1 {
                let rel = relation(&a.r, &b.r);
                l.violation(&format!("hash:fx-hashmap-lookup-misses:{rel}"), "HashMap<Name, _, Fx>: an equal name does not find the entry", || pair_case(&a.r, &b.r));
            } else if a.r.labels != b.r.labels {
                l.outcome("hash:fx-hashmap-lookup-by-case-variant-ok");
            }
        }
    }
    let got = a.h.cmp(&b.h);
    if same_flag {
        let want = a.rank.cmp(&b.rank);
        if got != want {
            let rel = relation(&a.r, &b.r);
            l.violation(
                &format!("cmp:{rel}:got-{}-want-{}", ord_name(got), ord_name(want)),
                "Name::cmp disagrees with RFC 4034 6.1 canonical order",
                || pair_case(&a.r, &b.r),
            );
        }
    } else {
        // RFC 4034 orders absolute names only; demand a total order consistent with equality
        if got == Ordering::Equal {
            let rel = relation(&a.r, &b.r);
            l.violation(&format!("cmp:Equal-for-unequal:{rel}"), "cmp == Equal but names are not equal", || pair_case(&a.r, &b.r));
        }
        if b.h.cmp(&a.h) != got.reverse() {
            let rel = relation(&a.r, &b.r);
            l.violation(&format!("cmp:not-antisymmetric:{rel}"), "cmp(a,b) is not the reverse of cmp(b,a)", || pair_case(&a.r, &b.r));
        }
    }
    if laws {
        crate::laws::judge_pair_laws(a, b, l);
    }
    if full {
        if a.h.partial_cmp(&b.h) != Some(got) {
            l.violation("cmp:partial_cmp-differs", "partial_cmp != Some(cmp)", || pair_case(&a.r, &b.r));
        }
        // LowerName order/equality are consistent with Name
        let lgot = a.low.cmp(&b.low);
        if lgot != got {
            let rel = relation(&a.r, &b.r);
            l.violation(
                &format!("lowername-cmp:{rel}:got-{}-name-{}", ord_name(lgot), ord_name(got)),
                "LowerName::cmp is not consistent with Name::cmp",
                || pair_case(&a.r, &b.r),
            );
        }
        let leq = a.low == b.low;
        if leq != want_eq {
            let rel = relation(&a.r, &b.r);
            l.violation(&format!("lowername-eq:got-{leq}:{rel}"), "LowerName == disagrees with name identity", || pair_case(&a.r, &b.r));
        }
        if want_eq {
            if let Some(m) = mismatch(&a.lhs, &b.lhs) {
                let key = if m == "siphash-differs" { "lowername-hash:differs-for-equal".to_string() } else { format!("lowername-hash:{m}") };
                l.violation(&key, "equal LowerNames are hashed differently", || hash_case(&a.r, &b.r, &a.lhs, &b.lhs));
            }
            if !std::ptr::eq(a, b) {
                let mut m: HashMap<LowerName, u8, FxBuild> = HashMap::default();
                m.insert(a.low.clone(), 1);
                let mut k: HashMap<RrKey, u8, FxBuild> = HashMap::default();
                k.insert(a.ka.clone(), 1);
                if m.get(&b.low).is_none() {
                    l.violation("lowername-hash:fx-hashmap-lookup-misses", "HashMap<LowerName, _, Fx>: an equal name does not find the entry", || pair_case(&a.r, &b.r));
                }
                if k.get(&b.ka).is_none() || k.get(&b.kb).is_some() {
                    l.violation("rrkey-hash:fx-hashmap-lookup-misses", "HashMap<RrKey, _, Fx>: lookup by an equal key misses (or a key of another type hits)", || pair_case(&a.r, &b.r));
                }
            }
        }
        // RrKey: name-major, type-minor
        let k_same = a.ka.cmp(&b.ka);
        if k_same != got {
            let rel = relation(&a.r, &b.r);
            l.violation(&format!("rrkey-cmp:same-type:{rel}"), "RrKey order with equal types differs from Name order", || pair_case(&a.r, &b.r));
        }
        let tcmp = RecordType::A.cmp(&RecordType::AAAA);
        let k_ab = a.ka.cmp(&b.kb);
        let want_ab = if got == Ordering::Equal { tcmp } else { got };
        if k_ab != want_ab {
            let rel = relation(&a.r, &b.r);
            l.violation(&format!("rrkey-cmp:type-minor:{rel}"), "RrKey order is not (name, type) lexicographic", || pair_case(&a.r, &b.r));
        }
        let k_ba = a.kb.cmp(&b.ka);
        let want_ba = if got == Ordering::Equal { tcmp.reverse() } else { got };
        if k_ba != want_ba {
            let rel = relation(&a.r, &b.r);
            l.violation(&format!("rrkey-cmp:type-minor:{rel}"), "RrKey order is not (name, type) lexicographic", || pair_case(&a.r, &b.r));
        }
        if (a.ka == b.ka) != want_eq || a.ka == b.kb {
            l.violation("rrkey-eq", "RrKey == disagrees with (name identity, type)", || pair_case(&a.r, &b.r));
        }
        if want_eq {
            if let Some(m) = mismatch(&a.khs, &b.khs) {
                let key = if m == "siphash-differs" { "rrkey-hash:differs-for-equal".to_string() } else { format!("rrkey-hash:{m}") };
                l.violation(&key, "equal RrKeys are hashed differently", || hash_case(&a.r, &b.r, &a.khs, &b.khs));
            }
        }
    }
    // non-trivial pairs: differ only by case, by one octet, or by label boundary placement
    if same_flag && a.flat.len() == b.flat.len() && !std::ptr::eq(a, b) {
        let nt = if a.rank == b.rank {
            a.r.labels != b.r.labels // case only
        } else if a.flat == b.flat {
            true // boundary placement
        } else {
            a.shape == b.shape && a.flat.iter().zip(b.flat.iter()).filter(|(x, y)| x != y).count() == 1
        };
        if nt {
            let (lo, hi) = if a.id <= b.id { (a.id, b.id) } else { (b.id, a.id) };
            l.nontrivial(lo.wrapping_mul(0x9e3779b97f4a7c15) ^ hi);
            l.outcome("pair:nontrivial-ordered");
        }
    }
}

/// All ordered pairs of `ents`.
pub fn run_pairs(ctx: &Ctx, ents: &[Ent], full: bool, laws: bool, tag: &str) {
    let n = ents.len() as u64;
    ctx.add_count(&format!("pairs_{tag}"), n * n);
    ctx.add_count(&format!("names_{tag}"), n);
    ctx.par_run(n, 8, |i, l| {
        let a = &ents[i as usize];
        for b in ents {
            judge_pair(a, b, full, laws, l);
        }
        l.evals_add(n);
        if i % 20011 == 7 {
            let b = &ents[((i * 7919 + 13) % n) as usize];
            l.sample(json!({"family": "pair", "a": vref::name::present_any(&a.r), "b": vref::name::present_any(&b.r),
                "cmp": ord_name(a.h.cmp(&b.h)), "eq": a.h == b.h}));
        }
    });
}

/// Replay / single pair from JSON (ranks computed directly with the reference comparator).
pub fn replay_pair(case: &Value, l: &mut Local) {
    let ra = name_from_json(&case["a"]);
    let rb = name_from_json(&case["b"]);
    let (Ok(mut a), Ok(mut b)) = (ent(ra), ent(rb)) else {
        l.violation("construct:from_labels-rejects-valid", "replay: cannot build", || case.clone());
        return;
    };
    match canonical_cmp(&a.r.labels, &b.r.labels) {
        Ordering::Less => b.rank = 1,
        Ordering::Greater => a.rank = 1,
        Ordering::Equal => {}
    }
    match vref::name::canonical_cmp_case(&a.r.labels, &b.r.labels) {
        Ordering::Less => b.rank_case = 1,
        Ordering::Greater => a.rank_case = 1,
        Ordering::Equal => {}
    }
    l.eval();
    judge_pair(&a, &b, true, true, l);
}

/// Transitivity of cmp and eq over all triples of a small universe (both flags): with
/// antisymmetry and totality from the pair family this makes cmp a total order on mixed sets too.
pub fn run_triples(ctx: &Ctx, ents: &[Ent]) {
    let n = ents.len();
    let mut m = vec![0i8; n * n];
    let mut e = vec![false; n * n];
    for i in 0..n {
        for j in 0..n {
            m[i * n + j] = match ents[i].h.cmp(&ents[j].h) {
                Ordering::Less => -1,
                Ordering::Equal => 0,
                Ordering::Greater => 1,
            };
            e[i * n + j] = ents[i].h == ents[j].h;
        }
    }
    ctx.add_count("triples", (n * n * n) as u64);
    ctx.par_run(n as u64, 1, |i, l| {
        let i = i as usize;
        for j in 0..n {
            for k in 0..n {
                if m[i * n + j] <= 0 && m[j * n + k] <= 0 && m[i * n + k] > 0 {
                    l.violation("cmp:not-transitive", "a<=b, b<=c but a>c", || {
                        json!({"family": "triple", "a": name_json(&ents[i].r), "b": name_json(&ents[j].r), "c": name_json(&ents[k].r)})
                    });
                }
                if e[i * n + j] && e[j * n + k] && !e[i * n + k] {
                    l.violation("eq:not-transitive", "a==b, b==c but a!=c", || {
                        json!({"family": "triple", "a": name_json(&ents[i].r), "b": name_json(&ents[j].r), "c": name_json(&ents[k].r)})
                    });
                }
            }
        }
        l.evals_add((n * n) as u64);
    });
    // which total order does the implementation use across the absolute/relative divide?
    let rel_first = (0..n).all(|i| (0..n).all(|j| ents[i].r.fqdn == ents[j].r.fqdn || (m[i * n + j] < 0) == !ents[i].r.fqdn));
    ctx.with_local(|l| l.outcome(if rel_first { "obs:mixed-order=relative-before-absolute" } else { "obs:mixed-order=other" }));
}

pub fn replay_triple(case: &Value, l: &mut Local) {
    let v: Vec<Name> = ["a", "b", "c"].iter().filter_map(|k| build(&name_from_json(&case[*k])).ok()).collect();
    if v.len() != 3 {
        return;
    }
    l.eval();
    if v[0].cmp(&v[1]) != Ordering::Greater && v[1].cmp(&v[2]) != Ordering::Greater && v[0].cmp(&v[2]) == Ordering::Greater {
        l.violation("cmp:not-transitive", "a<=b, b<=c but a>c", || case.clone());
    }
    if v[0] == v[1] && v[1] == v[2] && v[0] != v[2] {
        l.violation("eq:not-transitive", "a==b, b==c but a!=c", || case.clone());
    }
}

/// All ordered pairs of labels through `Label`'s own eq / cmp / hash.
pub fn run_label_pairs(ctx: &Ctx, labels: &[Vec<u8>]) {
    use hickory_proto::rr::domain::Label;
    let ls: Vec<(Label, Hashes)> = labels
        .iter()
        .filter_map(|b| Label::from_raw_bytes(b).ok())
        .map(|l| {
            let h = hashes(&l);
            (l, h)
        })
        .collect();
    if ls.len() != labels.len() {
        ctx.with_local(|l| l.violation("construct:label-from_raw_bytes-rejects-valid", "a 1..63 octet label was rejected", || json!({"family": "label-pair"})));
        return;
    }
    let n = labels.len() as u64;
    ctx.add_count("label_pairs", n * n);
    ctx.par_run(n, 4, |i, l| {
        let (a, ha) = &ls[i as usize];
        let ra = &labels[i as usize];
        for (j, (b, hb)) in ls.iter().enumerate() {
            let rb = &labels[j];
            let case = || json!({"family": "label-pair", "a": vcore::hex::enc(ra), "b": vcore::hex::enc(rb)});
            let want_eq = vref::name::label_eq_fold(ra, rb);
            let want = vref::name::label_cmp(ra, rb);
            if (a == b) != want_eq {
                l.violation(&format!("label-eq:got-{}", a == b), "Label == disagrees with ASCII-folded identity", case);
            }
            if want_eq {
                if let Some(m) = mismatch(ha, hb) {
                    let key = if m == "siphash-differs" { "label-hash:differs-for-equal".to_string() } else { format!("label-hash:{m}") };
                    l.violation(&key, "equal labels are hashed differently", case);
                }
            }
            let got = a.cmp(b);
            if got != want {
                l.violation(&format!("label-cmp:got-{}-want-{}", ord_name(got), ord_name(want)), "Label::cmp disagrees with RFC 4034 6.1 label order", case);
            }
            if a.eq_ignore_ascii_case(b) != want_eq {
                l.violation("label-eq_ignore_ascii_case", "disagrees with ASCII-folded identity", case);
            }
            if want_eq && ra != rb {
                l.nontrivial(fnv64(ra).wrapping_mul(31) ^ fnv64(rb));
            }
        }
        l.evals_add(n);
    });
}

pub fn replay_label_pair(case: &Value, l: &mut Local) {
    use hickory_proto::rr::domain::Label;
    let ra = vcore::hex::dec(case["a"].as_str().unwrap_or("")).unwrap_or_default();
    let rb = vcore::hex::dec(case["b"].as_str().unwrap_or("")).unwrap_or_default();
    let (Ok(a), Ok(b)) = (Label::from_raw_bytes(&ra), Label::from_raw_bytes(&rb)) else { return };
    l.eval();
    let want_eq = vref::name::label_eq_fold(&ra, &rb);
    let want = vref::name::label_cmp(&ra, &rb);
    if (a == b) != want_eq {
        l.violation(&format!("label-eq:got-{}", a == b), "Label == disagrees with ASCII-folded identity", || case.clone());
    }
    if want_eq {
        if let Some(m) = mismatch(&hashes(&a), &hashes(&b)) {
            let key = if m == "siphash-differs" { "label-hash:differs-for-equal".to_string() } else { format!("label-hash:{m}") };
            l.violation(&key, "equal labels are hashed differently", || case.clone());
        }
    }
    let got = a.cmp(&b);
    if got != want {
        l.violation(&format!("label-cmp:got-{}-want-{}", ord_name(got), ord_name(want)), "Label::cmp disagrees with RFC 4034 6.1 label order", || case.clone());
    }
    if a.eq_ignore_ascii_case(&b) != want_eq {
        l.violation("label-eq_ignore_ascii_case", "disagrees with ASCII-folded identity", || case.clone());
    }
}

/// Unary laws on every name of a universe.
pub fn run_unary_laws(ctx: &Ctx, ents: &[Ent]) {
    ctx.add_count("law_names", ents.len() as u64);
    ctx.par_run(ents.len() as u64, 64, |i, l| {
        let e = &ents[i as usize];
        crate::laws::run_unary(&e.r, &e.h, l);
        if i % 9973 == 5 {
            l.sample(crate::laws::unary_case(&e.r));
        }
    });
}
