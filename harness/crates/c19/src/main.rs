//! C19 — recursive resolution ignores out-of-bailiwick data, respects the server/answer filters
//! and always terminates within the recursion limits; stub alias chasing is bounded.
//!
//! Seam: the real `Recursor` (non-validating) over a simulated internet (`inet.rs`) through a
//! custom `ConnectionProvider`, under tokio's paused clock; stub side: the real `CachingClient`
//! over a scripted `DnsHandle`.
//!
//! Families (all exhaustive over their declared space):
//!  (A) delegation-graph grammar x queries, honest servers (reference run, termination);
//!  (B) the same graphs with one zone turned hostile: its servers add one injection bundle
//!      (kind x section) to EVERY response; main query + follow-up queries on the same recursor;
//!      thorough: pairs of injections;
//!  (C) lame-server kinds x zone x server count;
//!  (D) length-parameterised termination families (CNAME chains/loops in and across zones, with
//!      and without server-side chasing; NS-for-NS chains; glueless cycles with 1-2 NS names;
//!      infinitely deep delegation) x recursion limits: explicit bound + plateau past the limit;
//!  (E) stub: CachingClient alias chains/loops, <= 8 upstream queries, plateau.

mod inet;

use std::collections::{BTreeMap, BTreeSet};
use std::future::Future;
use std::net::{IpAddr, Ipv4Addr};
use std::pin::Pin;
use std::sync::{Arc, Mutex};
use std::time::Duration;

use futures_util::{stream, Stream};
use hickory_net::runtime::TokioRuntimeProvider;
use hickory_net::xfer::DnsHandle;
use hickory_net::{DnsError, NetError};
use hickory_proto::op::{DnsRequest, DnsRequestOptions, DnsResponse, Message, MessageType, OpCode, Query, ResponseCode};
use hickory_proto::rr::{Name, RData, Record, RecordType};
use hickory_resolver::caching_client::CachingClient;
use hickory_resolver::recursor::{Recursor, RecursorError, RecursorOptions};
use inet::{is_denied_server, n, rec_a, rec_cname, rec_ns, Exchange, Injection, Internet, Lame, Net, Server, Zone};
use serde_json::{json, Value};
use vcore::{fnv_str, Ctx, Local};

const POOL_TIMEOUT: Duration = Duration::from_secs(5);
/// Virtual-time horizon per resolution.
const HORIZON: Duration = Duration::from_secs(3600);
const MAX_CNAME_LOOKUPS: u64 = 64;

// ------------------------------------------------------------------------------------------
// graph grammar

/// Zone indices of the base graph.
const ROOT: usize = 0;
const T: usize = 1;
const O: usize = 2;
const LT: usize = 3;
const VO: usize = 4;
const ZONE_NAMES: [&str; 5] = [".", "t.", "o.", "l.t.", "v.o."];

/// NS styles per zone: (label, NS host prefix, zone that publishes the host's address, glue)
fn ns_styles(z: usize) -> Vec<(&'static str, &'static str, usize, bool)> {
    match z {
        T => vec![("in-zone+glue", "ns", T, true), ("in-zone-no-glue", "ns", T, false), ("sibling-glueless", "nst", O, true), ("in-child+glue", "nsp", LT, true)],
        O => vec![("in-zone+glue", "ns", O, true), ("sibling-glueless", "nso", T, true)],
        LT => vec![
            ("in-zone+glue", "ns", LT, true),
            ("in-zone-no-glue", "ns", LT, false),
            ("sibling-tld-glueless", "nsl", O, true),
            ("sibling-leaf-glueless", "nsl", VO, true),
            ("parent-zone", "nsl", T, true),
        ],
        _ => vec![("in-zone+glue", "ns", VO, true), ("sibling-tld-glueless", "nsv", T, true), ("sibling-leaf-glueless", "nsv", LT, true)],
    }
}

#[derive(Clone, Debug, PartialEq, Eq)]
enum Family {
    Base,
    /// CNAME chain c0 -> ... -> cn (A) in l.t. (cross: alternating l.t. / v.o.)
    CnameChain { n: usize, cross: bool },
    CnameLoop { n: usize, cross: bool },
    /// zones z1..zn under t.: z_i NS ns.z_{i+1}.t. (glueless), z_n in-zone with glue
    NsChain { n: usize },
    /// z_i NS {ns1..nsk}.z_{i+1}.t., z_n -> z_1 (n = 1: in-zone, no glue)
    Cycle { n: usize, names: usize },
    /// every name below l.t. is a delegation to the same servers; query with n extra labels
    Deep { n: usize },
}

#[derive(Clone, Debug, PartialEq, Eq)]
struct Spec {
    nserv: usize,
    /// style index for T, O, LT, VO
    style: [usize; 4],
    /// (zone, all servers?, kind)
    lame: Option<(usize, bool, u8)>,
    chase: bool,
    family: Family,
}

impl Spec {
    fn base() -> Spec {
        Spec { nserv: 1, style: [0, 0, 0, 0], lame: None, chase: false, family: Family::Base }
    }
    fn to_json(&self) -> Value {
        let fam = match &self.family {
            Family::Base => json!("base"),
            Family::CnameChain { n, cross } => json!({"cname-chain": n, "cross": cross}),
            Family::CnameLoop { n, cross } => json!({"cname-loop": n, "cross": cross}),
            Family::NsChain { n } => json!({"ns-chain": n}),
            Family::Cycle { n, names } => json!({"cycle": n, "names": names}),
            Family::Deep { n } => json!({"deep": n}),
        };
        json!({
            "nserv": self.nserv,
            "style": self.style,
            "style_names": [ns_styles(T)[self.style[0]].0, ns_styles(O)[self.style[1]].0, ns_styles(LT)[self.style[2]].0, ns_styles(VO)[self.style[3]].0],
            "lame": self.lame.map(|(z, all, k)| json!({"zone": ZONE_NAMES[z], "all_servers": all, "kind": k, "kind_name": format!("{:?}", lame_kind(k))})),
            "chase": self.chase,
            "family": fam,
        })
    }
    fn from_json(v: &Value) -> Spec {
        let st: Vec<usize> = v["style"].as_array().unwrap().iter().map(|x| x.as_u64().unwrap() as usize).collect();
        let fam = &v["family"];
        let family = if fam.is_string() {
            Family::Base
        } else if let Some(x) = fam.get("cname-chain") {
            Family::CnameChain { n: x.as_u64().unwrap() as usize, cross: fam["cross"].as_bool().unwrap_or(false) }
        } else if let Some(x) = fam.get("cname-loop") {
            Family::CnameLoop { n: x.as_u64().unwrap() as usize, cross: fam["cross"].as_bool().unwrap_or(false) }
        } else if let Some(x) = fam.get("ns-chain") {
            Family::NsChain { n: x.as_u64().unwrap() as usize }
        } else if let Some(x) = fam.get("cycle") {
            Family::Cycle { n: x.as_u64().unwrap() as usize, names: fam["names"].as_u64().unwrap_or(1) as usize }
        } else {
            Family::Deep { n: fam["deep"].as_u64().unwrap_or(1) as usize }
        };
        let lame = if v["lame"].is_null() {
            None
        } else {
            let z = ZONE_NAMES.iter().position(|x| Some(*x) == v["lame"]["zone"].as_str()).unwrap_or(LT);
            Some((z, v["lame"]["all_servers"].as_bool().unwrap_or(true), v["lame"]["kind"].as_u64().unwrap_or(1) as u8))
        };
        Spec { nserv: v["nserv"].as_u64().unwrap_or(1) as usize, style: [st[0], st[1], st[2], st[3]], lame, chase: v["chase"].as_bool().unwrap_or(false), family }
    }
}

fn lame_kind(k: u8) -> Lame {
    match k {
        1 => Lame::Refused,
        2 => Lame::UpwardReferral,
        3 => Lame::SelfReferral,
        4 => Lame::Empty,
        5 => Lame::Timeout,
        _ => Lame::None,
    }
}

fn www_addr(z: usize) -> Ipv4Addr {
    Ipv4Addr::new(12, z as u8, 0, 80)
}
fn server_addr(z: usize, k: usize) -> Ipv4Addr {
    Ipv4Addr::new(11, 0, z as u8, k as u8 + 1)
}

fn build(spec: &Spec) -> Internet {
    let mut zones: Vec<Zone> = vec![];
    let mut servers: Vec<Server> = vec![];
    // root
    zones.push(Zone { name: Name::root(), parent: None, servers: vec![0], ns_names: vec![n("a-root.")], glue: true, records: vec![rec_a(&n("a-root."), server_addr(ROOT, 0)), rec_a(&n("www-root."), Ipv4Addr::new(12, 0, 0, 80))] });
    servers.push(Server { ip: server_addr(ROOT, 0), zones: vec![ROOT], lame: Lame::None });
    for z in [T, O, LT, VO] {
        let name = n(ZONE_NAMES[z]);
        let parent = match z {
            T | O => ROOT,
            LT => T,
            _ => O,
        };
        let mut srv_idx = vec![];
        for k in 0..spec.nserv {
            srv_idx.push(servers.len());
            servers.push(Server { ip: server_addr(z, k), zones: vec![z], lame: Lame::None });
        }
        let other_leaf = match z {
            T => "www.o.",
            O => "www.t.",
            LT => "www.v.o.",
            _ => "www.l.t.",
        };
        let records = vec![
            rec_a(&n(&format!("www.{}", ZONE_NAMES[z])), www_addr(z)),
            rec_a(&n(&format!("other.{}", ZONE_NAMES[z])), Ipv4Addr::new(12, z as u8, 0, 81)),
            rec_cname(&n(&format!("alias.{}", ZONE_NAMES[z])), &n(other_leaf)),
        ];
        zones.push(Zone { name, parent: Some(parent), servers: srv_idx, ns_names: vec![], glue: true, records });
    }
    // NS names per style; the host's address is published in the style's home zone
    for (si, z) in [T, O, LT, VO].into_iter().enumerate() {
        let (_, prefix, home, glue) = ns_styles(z)[spec.style[si]];
        zones[z].glue = glue;
        for k in 0..spec.nserv {
            let host = n(&format!("{prefix}{}.{}", k + 1, ZONE_NAMES[home]));
            zones[z].ns_names.push(host.clone());
            let ip = servers[zones[z].servers[k]].ip;
            zones[home].records.push(rec_a(&host, ip));
        }
    }
    if let Some((z, all, kind)) = spec.lame {
        for (k, s) in zones[z].servers.clone().into_iter().enumerate() {
            if all || k == 0 {
                servers[s].lame = lame_kind(kind);
            }
        }
    }
    let mut deep = None;
    match &spec.family {
        Family::Base => {}
        Family::CnameChain { n: len, cross } | Family::CnameLoop { n: len, cross } => {
            let is_loop = matches!(spec.family, Family::CnameLoop { .. });
            let home = |i: usize| if *cross && i % 2 == 1 { VO } else { LT };
            let nm = |i: usize| n(&format!("c{i}.{}", ZONE_NAMES[home(i)]));
            for i in 0..*len {
                let target = if is_loop && i + 1 == *len { nm(0) } else { nm(i + 1) };
                zones[home(i)].records.push(rec_cname(&nm(i), &target));
            }
            if !is_loop {
                zones[home(*len)].records.push(rec_a(&nm(*len), Ipv4Addr::new(12, 7, 7, 7)));
            }
        }
        Family::NsChain { n: len } | Family::Cycle { n: len, .. } => {
            let names = if let Family::Cycle { names, .. } = &spec.family { *names } else { 1 };
            let is_cycle = matches!(spec.family, Family::Cycle { .. });
            let first = zones.len();
            for i in 0..*len {
                let zi = first + i;
                let name = n(&format!("z{}.t.", i + 1));
                let s = servers.len();
                servers.push(Server { ip: Ipv4Addr::new(11, 1 + (i / 250) as u8, (i % 250) as u8 + 1, 1), zones: vec![zi], lame: Lame::None });
                zones.push(Zone {
                    name: name.clone(),
                    parent: Some(T),
                    servers: vec![s],
                    ns_names: vec![],
                    glue: true,
                    records: vec![rec_a(&n(&format!("www.z{}.t.", i + 1)), Ipv4Addr::new(12, 20 + (i / 250) as u8, (i % 250) as u8 + 1, 80))],
                });
            }
            for i in 0..*len {
                let zi = first + i;
                let last = i + 1 == *len;
                // where do this zone's NS hosts live?
                let home = if last {
                    if is_cycle {
                        first
                    } else {
                        zi
                    }
                } else {
                    zi + 1
                };
                if last && is_cycle && *len == 1 {
                    zones[zi].glue = false; // self-referential, no glue
                }
                for k in 0..names {
                    let host = n(&format!("ns{}-for-z{}.{}", k + 1, i + 1, zones[home].name));
                    zones[zi].ns_names.push(host.clone());
                    let ip = servers[zones[zi].servers[0]].ip;
                    zones[home].records.push(rec_a(&host, ip));
                }
            }
        }
        Family::Deep { .. } => deep = Some(LT),
    }
    Internet { zones, servers, chase_in_zone: spec.chase, deep_delegation: deep, hostile_zone: None, injection: Injection::default(), hostile_mode: 0, reown: None }
}

// ------------------------------------------------------------------------------------------
// injections

const SECTIONS: [&str; 3] = ["answer", "authority", "additional"];
const KINDS: [&str; 12] = [
    "victim-a",
    "victim-zone-ns+glue",
    "victim-parent-ns+glue",
    "root-ns+glue",
    "victim-cname+a",
    "denied-answer-address",
    "denied-server-glue",
    "sibling-a",
    "victim-zone-ns+victim-glue",
    "own-names-ns->victim-host+forged-glue",
    "victim-cname",
    "victim-zone-soa",
];
const MODES: [&str; 5] = ["append", "replace-noerror", "replace-nxdomain", "append+aa-flipped", "reown-genuine-records-to-victim"];


/// Owner classes of the systematic (record type x owner) kinds, relative to the hostile zone.
const OWNER_CLASSES: [&str; 7] = ["inside-hostile-zone", "hostile-apex", "parent-zone-apex", "grandparent-zone-apex", "sibling-of-hostile-zone", "victim-zone-apex", "unrelated-tld"];
const OWNER_RTYPES: [&str; 3] = ["A", "NS+glue", "SOA"];
/// kinds 0..FIXED_KINDS are the hand-picked bundles of `KINDS`; the rest is rtype x owner class
const FIXED_KINDS: usize = 12;

fn n_kinds() -> usize {
    FIXED_KINDS + OWNER_RTYPES.len() * OWNER_CLASSES.len()
}

fn kind_name(k: usize) -> String {
    if k < FIXED_KINDS {
        KINDS[k].to_string()
    } else {
        let i = k - FIXED_KINDS;
        format!("{}@{}", OWNER_RTYPES[i / OWNER_CLASSES.len()], OWNER_CLASSES[i % OWNER_CLASSES.len()])
    }
}

/// The owner of class `c` for hostile zone `hz` (None where the class does not exist, e.g. the
/// grandparent of a TLD).
fn class_owner(hz: usize, c: usize) -> Option<Name> {
    let (vz, _, _) = victims(hz);
    match c {
        0 => Some(own_name("in", hz)),
        1 => Some(n(ZONE_NAMES[hz])),
        2 => match hz {
            T | O => Some(Name::root()),
            LT => Some(n("t.")),
            VO => Some(n("o.")),
            _ => None,
        },
        3 => match hz {
            LT | VO => Some(Name::root()),
            _ => None,
        },
        4 => match hz {
            T => Some(n("o.")),
            O => Some(n("t.")),
            LT => Some(n("sib.t.")),
            VO => Some(n("sib.o.")),
            _ => None,
        },
        5 => Some(n(ZONE_NAMES[vz])),
        _ => Some(n("unrelated.example-tld.")),
    }
}

/// Does kind `k` exist for hostile zone `hz`?
fn kind_exists(hz: usize, k: usize) -> bool {
    k < FIXED_KINDS || class_owner(hz, (k - FIXED_KINDS) % OWNER_CLASSES.len()).is_some()
}

/// (victim zone, victim's parent zone, sibling name outside the hostile zone)
fn victims(hz: usize) -> (usize, usize, &'static str) {
    match hz {
        T => (VO, O, "www.o."),
        LT => (VO, O, "www.t."),
        O => (LT, T, "www.t."),
        // the root has no victims (everything is in its bailiwick); only the filter kinds apply
        ROOT => (VO, O, "www.o."),
        _ => (LT, T, "www.o."),
    }
}

/// A name of the hostile zone itself.
fn own_name(label: &str, hz: usize) -> Name {
    if hz == ROOT {
        n(&format!("{label}-root."))
    } else {
        n(&format!("{label}.{}", ZONE_NAMES[hz]))
    }
}

fn injection(hz: usize, kind: usize, section: usize) -> Injection {
    let hzn = ZONE_NAMES[hz];
    let (vz, vp, sib) = victims(hz);
    let evil = own_name("evil", hz);
    let evil_glue = rec_a(&evil, Ipv4Addr::new(6, 6, 6, 2));
    let mut main: Vec<Record> = vec![];
    let mut extra_additional: Vec<Record> = vec![];
    match kind {
        k if k >= FIXED_KINDS => {
            let i = k - FIXED_KINDS;
            let (rt, class) = (i / OWNER_CLASSES.len(), i % OWNER_CLASSES.len());
            if let Some(owner) = class_owner(hz, class) {
                match rt {
                    0 => main.push(rec_a(&owner, Ipv4Addr::new(6, 6, 6, 90 + class as u8))),
                    1 => {
                        main.push(rec_ns(&owner, &evil));
                        extra_additional.push(evil_glue);
                    }
                    _ => main.push(Record::from_rdata(owner, 60, RData::SOA(hickory_proto::rr::rdata::SOA::new(own_name("evil", hz), n("h.invalid."), 9, 60, 60, 60, 60)))),
                }
            }
        }
        0 => main.push(rec_a(&n(&format!("www.{}", ZONE_NAMES[vz])), Ipv4Addr::new(6, 6, 6, 1))),
        1 => {
            main.push(rec_ns(&n(ZONE_NAMES[vz]), &evil));
            extra_additional.push(evil_glue);
        }
        2 => {
            main.push(rec_ns(&n(ZONE_NAMES[vp]), &evil));
            extra_additional.push(evil_glue);
        }
        3 => {
            main.push(rec_ns(&Name::root(), &evil));
            extra_additional.push(evil_glue);
        }
        4 => {
            // a CNAME from a name of the hostile zone to the victim, with "the victim's address"
            main.push(rec_cname(&own_name("www", hz), &n(&format!("www.{}", ZONE_NAMES[vz]))));
            main.push(rec_a(&n(&format!("www.{}", ZONE_NAMES[vz])), Ipv4Addr::new(6, 6, 6, 3)));
        }
        5 => main.push(rec_a(&own_name("www", hz), Ipv4Addr::new(6, 6, 8, 1))),
        6 => {
            // in-bailiwick NS + glue at an address the server filter denies
            let host = own_name("nsd", hz);
            main.push(rec_ns(&n(hzn), &host));
            main.push(rec_ns(&own_name("www", hz), &host));
            if hz == ROOT {
                // the root may (legitimately) delegate a TLD to its host at the denied address
                main.push(rec_ns(&n("t."), &host));
            }
            // the host's address both as glue and in the chosen section (so that a direct
            // question for the host's address is answered with it as well)
            main.push(rec_a(&host, Ipv4Addr::new(6, 6, 7, 1)));
            extra_additional.push(rec_a(&host, Ipv4Addr::new(6, 6, 7, 1)));
        }
        7 => main.push(rec_a(&n(sib), Ipv4Addr::new(6, 6, 6, 5))),
        10 => main.push(rec_cname(&n(&format!("www.{}", ZONE_NAMES[vz])), &own_name("www", hz))),
        11 => main.push(Record::from_rdata(
            n(ZONE_NAMES[vz]),
            60,
            RData::SOA(hickory_proto::rr::rdata::SOA::new(own_name("evil", hz), n("h.invalid."), 9, 60, 60, 60, 60)),
        )),
        9 => {
            // NS records for the hostile zone's OWN names (in bailiwick) that name a host of the
            // victim zone, with forged glue for that host (out of bailiwick)
            let host = n(&format!("ns-forged.{}", ZONE_NAMES[vz]));
            for label in ["www", "nx", "alias", "other"] {
                main.push(rec_ns(&own_name(label, hz), &host));
            }
            extra_additional.push(rec_a(&host, Ipv4Addr::new(6, 6, 6, 7)));
        }
        _ => {
            let host = n(&format!("ns-evil.{}", ZONE_NAMES[vz]));
            main.push(rec_ns(&n(ZONE_NAMES[vz]), &host));
            extra_additional.push(rec_a(&host, Ipv4Addr::new(6, 6, 6, 4)));
        }
    }
    let mut inj = Injection::default();
    match section {
        0 => inj.answers = main,
        1 => inj.authorities = main,
        _ => inj.additionals = main,
    }
    inj.additionals.extend(extra_additional);
    inj
}

fn merge(a: &Injection, b: &Injection) -> Injection {
    let mut m = a.clone();
    m.answers.extend(b.answers.iter().cloned());
    m.authorities.extend(b.authorities.iter().cloned());
    m.additionals.extend(b.additionals.iter().cloned());
    m
}

// ------------------------------------------------------------------------------------------
// filter configurations (reference semantics: the table in proto/src/access_control.rs —
// denied iff inside some deny network and inside no allow network)

/// (deny list, allow list) choices for the SERVER filter and for the ANSWER filter.
const SERVER_DENY: [&[&str]; 3] = [&[], &["6.6.7.0/24"], &["0.0.0.0/0"]];
const SERVER_ALLOW: [&[&str]; 3] = [&[], &["6.6.7.1/32"], &["11.0.0.0/8"]];
const ANSWER_DENY: [&[&str]; 3] = [&[], &["6.6.8.0/24"], &["0.0.0.0/0"]];
const ANSWER_ALLOW: [&[&str]; 3] = [&[], &["6.6.8.1/32"], &["12.0.0.0/8", "11.0.0.0/8"]];
/// the configuration every other family runs with
const DEFAULT_FILTERS: [usize; 4] = [1, 0, 1, 0];
/// (ns_cache_size, response_cache_size): what every other family uses, then the boundary values
const CACHE_SIZES: [(usize, u64); 5] = [(64, 4096), (0, 0), (1, 1), (2, 2), (7, 300)];

fn nets(v: &[&str]) -> Vec<ipnet::IpNet> {
    v.iter().map(|s| s.parse().unwrap()).collect()
}

fn ref_denied(ip: IpAddr, deny: &[&str], allow: &[&str]) -> bool {
    let inside = |v: &[&str]| nets(v).iter().any(|n| n.contains(&ip));
    inside(deny) && !inside(allow)
}

fn server_denied(ip: IpAddr, f: &[usize; 4]) -> bool {
    ref_denied(ip, SERVER_DENY[f[0]], SERVER_ALLOW[f[1]])
}

fn answer_denied(ip: IpAddr, f: &[usize; 4]) -> bool {
    ref_denied(ip, ANSWER_DENY[f[2]], ANSWER_ALLOW[f[3]])
}

/// All filter configurations the builder accepts (an allow list needs a deny list to override).
fn filter_configs(full_product: bool) -> Vec<[usize; 4]> {
    let ok = |d: usize, a: usize| !(d == 0 && a != 0);
    let mut out = vec![];
    for sd in 0..3 {
        for sa in 0..3 {
            for ad in 0..3 {
                for aa in 0..3 {
                    if !ok(sd, sa) || !ok(ad, aa) {
                        continue;
                    }
                    let f = [sd, sa, ad, aa];
                    // quick: one of the two filters at its default
                    if full_product || (sd == DEFAULT_FILTERS[0] && sa == DEFAULT_FILTERS[1]) || (ad == DEFAULT_FILTERS[2] && aa == DEFAULT_FILTERS[3]) {
                        out.push(f);
                    }
                }
            }
        }
    }
    out
}

// ------------------------------------------------------------------------------------------
// running the real recursor

type Rec = (String, String, String);

fn rec_of(r: &Record) -> Rec {
    (r.name.to_lowercase().to_ascii(), r.record_type().to_string(), r.data.to_string())
}

#[derive(Clone, Debug, PartialEq, Eq)]
enum Outcome {
    Ok { rcode: String, answers: Vec<Record>, authorities: Vec<Record>, additionals: Vec<Record> },
    Negative { nx: bool, soa: Option<Record>, authorities: Vec<Record> },
    ForwardNs { records: Vec<Record> },
    Err(String),
    Hung,
    Panicked(String),
}

impl Outcome {
    fn class(&self) -> String {
        match self {
            Outcome::Ok { answers, .. } if !answers.is_empty() => "answer".into(),
            Outcome::Ok { .. } => "ok-empty".into(),
            Outcome::Negative { nx: true, .. } => "nxdomain".into(),
            Outcome::Negative { .. } => "nodata".into(),
            Outcome::ForwardNs { .. } => "forward-ns-error".into(),
            Outcome::Err(c) => format!("error:{c}"),
            Outcome::Hung => "hung".into(),
            Outcome::Panicked(_) => "panicked".into(),
        }
    }
    /// (section label, record) of everything handed back to the caller
    fn returned(&self) -> Vec<(&'static str, &Record)> {
        let mut out = vec![];
        match self {
            Outcome::Ok { answers, authorities, additionals, .. } => {
                out.extend(answers.iter().map(|r| ("ok-answer", r)));
                out.extend(authorities.iter().map(|r| ("ok-authority", r)));
                out.extend(additionals.iter().map(|r| ("ok-additional", r)));
            }
            Outcome::Negative { soa, authorities, .. } => {
                out.extend(soa.iter().map(|r| ("negative-soa", r)));
                out.extend(authorities.iter().map(|r| ("negative-authority", r)));
            }
            Outcome::ForwardNs { records } => out.extend(records.iter().map(|r| ("forward-ns-error", r))),
            _ => {}
        }
        out
    }
    fn canon(&self) -> String {
        let set = |v: &Vec<Record>| v.iter().map(rec_of).collect::<BTreeSet<_>>();
        match self {
            Outcome::Ok { rcode, answers, authorities, additionals } => format!("ok {rcode} {:?} {:?} {:?}", set(answers), set(authorities), set(additionals)),
            Outcome::Negative { nx, soa, authorities } => format!("neg {nx} {:?} {:?}", soa.as_ref().map(rec_of), set(authorities)),
            Outcome::ForwardNs { records } => format!("fwd {:?}", set(records)),
            Outcome::Err(c) => format!("err {c}"),
            Outcome::Hung => "hung".into(),
            Outcome::Panicked(p) => format!("panic {p}"),
        }
    }
    fn to_json(&self) -> Value {
        let recs = |v: &Vec<Record>| v.iter().map(|r| format!("{} {} {}", r.name, r.record_type(), r.data)).collect::<Vec<_>>();
        match self {
            Outcome::Ok { rcode, answers, authorities, additionals } => json!({"ok": rcode, "answers": recs(answers), "authorities": recs(authorities), "additionals": recs(additionals)}),
            Outcome::Negative { nx, soa, authorities } => json!({"negative": if *nx {"nxdomain"} else {"nodata"}, "soa": soa.as_ref().map(|r| format!("{} {}", r.name, r.data)), "authorities": recs(authorities)}),
            Outcome::ForwardNs { records } => json!({"forward_ns_error": recs(records)}),
            Outcome::Err(c) => json!({"error": c}),
            Outcome::Hung => json!("hung"),
            Outcome::Panicked(p) => json!({"panicked": p}),
        }
    }
}

fn classify_err(e: &RecursorError) -> Outcome {
    match e {
        RecursorError::Negative(a) => Outcome::Negative {
            nx: a.nx_domain,
            soa: a.soa.as_ref().map(|s| Record::from_rdata(s.name.clone(), s.ttl, RData::SOA(s.data.clone()))),
            authorities: a.authorities.as_ref().map(|x| x.to_vec()).unwrap_or_default(),
        },
        RecursorError::ForwardNS(ns) => {
            let mut records = vec![];
            for f in ns.iter() {
                records.push(f.ns.clone());
                records.extend(f.glue.iter().cloned());
            }
            Outcome::ForwardNs { records }
        }
        RecursorError::Net(NetError::Dns(DnsError::NoRecordsFound(nr))) => Outcome::Negative {
            nx: nr.response_code == ResponseCode::NXDomain,
            soa: nr.soa.as_ref().map(|s| Record::from_rdata(s.name.clone(), s.ttl, RData::SOA(s.data.clone()))),
            authorities: nr.authorities.as_ref().map(|x| x.to_vec()).unwrap_or_default(),
        },
        RecursorError::Net(NetError::Timeout) | RecursorError::Timeout => Outcome::Err("timeout".into()),
        RecursorError::Net(NetError::Dns(DnsError::ResponseCode(c))) => Outcome::Err(format!("rcode-{c:?}").to_lowercase()),
        RecursorError::Net(_) => Outcome::Err("net".into()),
        RecursorError::RecursionLimitExceeded { .. } => Outcome::Err("recursion-limit".into()),
        RecursorError::MaxRecordLimitExceeded { .. } => Outcome::Err("cname-limit".into()),
        RecursorError::Msg(m) if m.contains("no nameserver found") => Outcome::Err("no-nameserver".into()),
        RecursorError::Msg(_) | RecursorError::Message(_) => Outcome::Err("message".into()),
        _ => Outcome::Err("other".into()),
    }
}

#[derive(Clone, Debug)]
struct Step {
    query: (String, String),
    outcome: Outcome,
    /// exchanges caused by this resolution
    log: Vec<Exchange>,
}

#[derive(Clone, Debug)]
struct Run {
    steps: Vec<Step>,
}

impl Run {
    fn digest(&self, inet: &Internet) -> u64 {
        // canonical: per step the outcome and the SET of (zone of the contacted server, question)
        let mut s = String::new();
        for st in &self.steps {
            let set: BTreeSet<(String, String, String)> = st
                .log
                .iter()
                .map(|e| {
                    let z = inet.server_by_ip(e.ip).map(|i| format!("{:?}", inet.servers[i].zones)).unwrap_or_else(|| e.ip.to_string());
                    (z, e.qname.clone(), e.qtype.clone())
                })
                .collect();
            s.push_str(&format!("{:?} {} {:?};", st.query, st.outcome.canon(), set));
        }
        fnv_str(&s)
    }
    fn to_json(&self) -> Value {
        json!(self
            .steps
            .iter()
            .map(|s| json!({"query": format!("{} {}", s.query.0, s.query.1), "outcome": s.outcome.to_json(), "exchanges": s.log.iter().map(|e| format!("{} <- {} {}", e.ip, e.qname, e.qtype)).collect::<Vec<_>>()}))
            .collect::<Vec<_>>())
    }
}

thread_local! {
    /// construction path of the next `execute` on this thread (see CaseDesc::ctor)
    static CTOR: std::cell::Cell<u8> = const { std::cell::Cell::new(0) };
    /// (EDNS payload sizes seen, any upper-case request name) of the last `execute`
    static REQ_OBS: std::cell::RefCell<(Vec<u16>, bool)> = const { std::cell::RefCell::new((vec![], false)) };
}

fn execute(inet: Arc<Internet>, limits: (u8, u8), case_rand: bool, filters: [usize; 4], caches: usize, queries: &[(Name, RecordType)]) -> Run {
    let ctor = CTOR.with(|c| c.get());
    vsim::install_hook_clock_tokio();
    let rt = vsim::rt();
    let run = rt.block_on(async {
        let net = Net::new(inet.clone(), POOL_TIMEOUT);
        let opts = RecursorOptions {
            recursion_limit: limits.0,
            ns_recursion_limit: limits.1,
            allow_server: nets(SERVER_ALLOW[filters[1]]),
            deny_server: nets(SERVER_DENY[filters[0]]),
            allow_answers: nets(ANSWER_ALLOW[filters[3]]),
            deny_answers: nets(ANSWER_DENY[filters[2]]),
            ns_cache_size: CACHE_SIZES[caches].0,
            response_cache_size: CACHE_SIZES[caches].1,
            case_randomization: case_rand,
            ..RecursorOptions::default()
        };
        let mut opts = opts;
        if ctor >= 10 {
            opts.edns_payload_len = 1400;
            opts.avoid_local_udp_ports = [5353u16].into_iter().collect();
        }
        let root = IpAddr::V4(inet.servers[0].ip);
        let rec = match ctor % 10 {
            0 => Recursor::with_options(&[root], opts, net.clone()).expect("recursor"),
            1 => Recursor::new(&[root], hickory_resolver::recursor::DnssecPolicy::default(), None, opts, net.clone()).expect("recursor"),
            _ => {
                // the production path: a roots file + a deserialised configuration
                let dir = std::env::temp_dir().join(format!("verif-c19-{}-{:?}", std::process::id(), std::thread::current().id()));
                let _ = std::fs::create_dir_all(&dir);
                let roots = dir.join("roots.zone");
                std::fs::write(&roots, format!(". 3600 IN NS a-root.\na-root. 3600 IN A {root}\n")).expect("roots file");
                let strs = |v: &Vec<ipnet::IpNet>| v.iter().map(|n| n.to_string()).collect::<Vec<_>>();
                let cfg = json!({
                    "roots": "roots.zone",
                    "ns_cache_size": opts.ns_cache_size,
                    "response_cache_size": opts.response_cache_size,
                    "recursion_limit": opts.recursion_limit,
                    "ns_recursion_limit": opts.ns_recursion_limit,
                    "allow_answers": strs(&opts.allow_answers),
                    "deny_answers": strs(&opts.deny_answers),
                    "allow_server": strs(&opts.allow_server),
                    "deny_server": strs(&opts.deny_server),
                    "avoid_local_udp_ports": opts.avoid_local_udp_ports.iter().copied().collect::<Vec<u16>>(),
                    "case_randomization": opts.case_randomization,
                    "edns_payload_len": opts.edns_payload_len,
                });
                let cfg: hickory_resolver::recursor::RecursiveConfig = serde_json::from_value(cfg).expect("RecursiveConfig");
                let r = Recursor::from_config(cfg, Some(&dir), net.clone());
                let _ = std::fs::remove_dir_all(&dir);
                r.expect("recursor from config")
            }
        };

        let mut steps = vec![];
        for (name, rtype) in queries {
            let before = net.exchanges();
            let now = tokio::time::Instant::now().into_std();
            let fut = rec.resolve(Query::new(name.clone(), *rtype), now, false);
            let outcome = match tokio::time::timeout(HORIZON, fut).await {
                Err(_) => Outcome::Hung,
                Ok(Ok(m)) => Outcome::Ok {
                    rcode: format!("{:?}", m.metadata.response_code).to_lowercase(),
                    answers: m.answers.clone(),
                    authorities: m.authorities.clone(),
                    additionals: m.additionals.clone(),
                },
                Ok(Err(e)) => classify_err(&e),
            };
            let log = net.log()[before..].to_vec();
            let hung = outcome == Outcome::Hung;
            steps.push(Step { query: (name.to_ascii(), rtype.to_string()), outcome, log });
            if hung {
                break;
            }
        }
        {
            let st = net.state.lock().unwrap();
            REQ_OBS.with(|o| *o.borrow_mut() = (st.payloads.iter().copied().collect(), st.saw_upper || st.letters < 40));
        }
        Run { steps }
    });
    drop(rt);
    run
}

fn execute_caught(inet: Arc<Internet>, limits: (u8, u8), case_rand: bool, filters: [usize; 4], caches: usize, queries: &[(Name, RecordType)]) -> Run {
    match vcore::catch(|| execute(inet, limits, case_rand, filters, caches, queries)) {
        Ok(r) => r,
        Err(p) => Run {
            steps: vec![Step {
                query: (queries[0].0.to_ascii(), queries[0].1.to_string()),
                outcome: Outcome::Panicked(format!("{} @ {}", p.msg, vcore::short_loc(&p.loc))),
                log: vec![],
            }],
        },
    }
}

// ------------------------------------------------------------------------------------------
// oracle

fn record_ip(r: &Record) -> Option<IpAddr> {
    match &r.data {
        RData::A(a) => Some(IpAddr::V4(a.0)),
        RData::AAAA(a) => Some(IpAddr::V6(a.0)),
        _ => None,
    }
}

fn exchange_bound(limits: (u8, u8), servers: usize) -> u64 {
    64 * (limits.0 as u64 + limits.1 as u64 + MAX_CNAME_LOOKUPS) * servers as u64
}

/// Clauses that hold for every run: completion, explicit exchange bound, filters, and that no
/// address outside the simulated internet is contacted.
fn judge_common(inet: &Internet, limits: (u8, u8), filters: &[usize; 4], scene: &str, run: &Run, l: &mut Local, wit: &dyn Fn() -> Value) {
    for st in &run.steps {
        match &st.outcome {
            Outcome::Hung => l.violation(&format!("no-termination:{scene}"), "a resolution did not complete within the virtual-time horizon", wit),
            Outcome::Panicked(p) => {
                let loc = p.rsplit(" @ ").next().unwrap_or("?");
                l.violation(&format!("panic:{loc}"), &format!("the recursor panicked: {p}"), wit)
            }
            _ => {}
        }
        let bound = exchange_bound(limits, inet.servers.len());
        if st.log.len() as u64 > bound {
            l.violation(
                &format!("exchange-bound-exceeded:{scene}"),
                &format!("{} upstream exchanges for one resolution, explicit bound {bound}", st.log.len()),
                wit,
            );
        }
        for e in &st.log {
            if server_denied(e.ip, filters) {
                if e.ip == IpAddr::V4(inet.servers[0].ip) {
                    // the root hints are configured addresses, not learned ones: not judged
                    l.outcome("obs:root-hint-inside-a-denied-network-contacted");
                } else {
                    l.violation("denied-server-contacted", &format!("{} is denied by the server filter but was sent {} {}", e.ip, e.qname, e.qtype), wit);
                }
                continue;
            }
            if inet.server_by_ip(e.ip).is_some() {
                continue;
            }
            if is_denied_server(e.ip) {
                // 6.6.7.x with a filter configuration that permits it: the attacker's in-bailiwick host
                l.outcome("obs:permitted-attacker-host-contacted");
                continue;
            }
            // an address that only the attacker's injected records carry: which record carried it?
            let hostile = inet.hostile_zone.map(|z| inet.zones[z].name.clone());
            let mut carriers: Vec<(usize, &Record)> = vec![];
            for (si, sec) in [&inet.injection.answers, &inet.injection.authorities, &inet.injection.additionals].into_iter().enumerate() {
                for r in sec.iter() {
                    if record_ip(r) == Some(e.ip) {
                        carriers.push((si, r));
                    }
                }
            }
            if carriers.is_empty() && e.ip == IpAddr::V4(Ipv4Addr::new(6, 6, 6, 66)) {
                // an address handed out by the attacker's own box: consequence of an earlier contact
                l.outcome("obs:address-from-the-attackers-server-contacted");
                continue;
            }
            if carriers.is_empty() {
                l.violation("unknown-address-contacted", &format!("{} is neither a server of the simulated internet nor carried by an injected record", e.ip), wit);
                continue;
            }
            // the same address may be injected in several sections (pairs): attribute the contact
            // once, to the first carrier in section order answer < authority < additional whose
            // owner lies outside the hostile zone (else to the first carrier)
            let pick = carriers
                .iter()
                .position(|(_, r)| !hostile.as_ref().map(|h| h.zone_of(&r.name)).unwrap_or(false))
                .unwrap_or(0);
            for (si, r) in carriers.into_iter().skip(pick).take(1) {
                let owner_inside = hostile.as_ref().map(|h| h.zone_of(&r.name)).unwrap_or(false);
                // glue of an attacker host that only out-of-bailiwick NS records point to
                let ns_outside = [&inet.injection.answers, &inet.injection.authorities, &inet.injection.additionals]
                    .into_iter()
                    .flat_map(|v| v.iter())
                    .any(|x| matches!(&x.data, RData::NS(t) if t.0 == r.name) && !hostile.as_ref().map(|h| h.zone_of(&x.name)).unwrap_or(false));
                if !owner_inside {
                    l.violation(
                        &format!("attacker-address-contacted:carrier=out-of-bailiwick-A@{}", SECTIONS[si]),
                        &format!("{} was sent {} {}: the address comes from the injected record {} A {} whose owner lies outside the hostile zone", e.ip, e.qname, e.qtype, r.name, r.data),
                        wit,
                    );
                } else if ns_outside {
                    l.violation(
                        "attacker-address-contacted:carrier=out-of-bailiwick-NS",
                        &format!("{} was sent {} {}: it is the address of {}, which only an injected out-of-bailiwick NS record names", e.ip, e.qname, e.qtype, r.name),
                        wit,
                    );
                } else {
                    l.outcome("obs:in-bailiwick-attacker-address-contacted");
                }
            }
        }
        for (sec, r) in st.outcome.returned() {
            if let Some(ip) = record_ip(r) {
                if answer_denied(ip, filters) {
                    l.violation(&format!("denied-answer-returned:{sec}"), &format!("{} {} is denied by the answer filter", r.name, r.data), wit);
                }
            }
        }
    }
}

/// Provenance: every record handed back is published data, or lies in the bailiwick of the
/// hostile zone (whose servers may say what they like about their own names).
fn judge_provenance(inet: &Internet, run: &Run, phase: &dyn Fn(usize) -> &'static str, l: &mut Local, wit: &dyn Fn() -> Value) {
    let hostile = inet.hostile_zone.map(|z| inet.zones[z].name.clone());
    let attacker_contacted = run.steps.iter().any(|s| s.log.iter().any(|e| inet.server_by_ip(e.ip).is_none()));
    for (i, st) in run.steps.iter().enumerate() {
        for (sec, r) in st.outcome.returned() {
            if inet.is_published(r) {
                continue;
            }
            let in_bailiwick = hostile.as_ref().map(|h| h.zone_of(&r.name)).unwrap_or(false);
            if in_bailiwick {
                l.outcome("obs:in-bailiwick-attacker-record-returned");
                continue;
            }
            // data served by the attacker's own box is a consequence of having contacted it, which
            // is reported under its own key
            let from_evil_box = matches!(record_ip(r), Some(IpAddr::V4(v)) if v == Ipv4Addr::new(6, 6, 6, 66)) || matches!(&r.data, RData::NS(t) if t.0 == n("evil.invalid."));
            if attacker_contacted && from_evil_box {
                l.outcome("obs:data-of-the-attackers-server-returned-after-contact");
                continue;
            }
            if sec == "forward-ns-error" {
                // RecursorError::ForwardNS is not a response and is not relayed to clients
                l.outcome("obs:out-of-bailiwick-record-inside-forward-ns-error");
                continue;
            }
            l.violation(
                &format!("out-of-bailiwick-returned:{}:{sec}", phase(i)),
                &format!(
                    "{} {} {} is not published by the zone graph and lies outside the hostile zone {:?}, yet it was returned for {} {}",
                    r.name,
                    r.record_type(),
                    r.data,
                    hostile.as_ref().map(|h| h.to_ascii()),
                    st.query.0,
                    st.query.1
                ),
                wit,
            );
        }
    }
}

/// Zones whose servers can legitimately influence the resolution of names in zone `z`: its
/// ancestors and itself, and (transitively) the zones that host the NS names of those.
fn dependency_closure(inet: &Internet, z: usize) -> BTreeSet<usize> {
    let mut set: BTreeSet<usize> = BTreeSet::new();
    let mut todo = vec![z];
    while let Some(x) = todo.pop() {
        if !set.insert(x) {
            continue;
        }
        if let Some(p) = inet.zones[x].parent {
            todo.push(p);
        }
        for h in &inet.zones[x].ns_names {
            todo.push(inet.owning_zone(h));
        }
    }
    set
}

// ------------------------------------------------------------------------------------------
// case descriptors (for replay)

#[derive(Clone, Debug)]
struct CaseDesc {
    spec: Spec,
    limits: (u8, u8),
    hostile: Option<usize>,
    /// (kind, section) list
    inj: Vec<(usize, usize)>,
    queries: Vec<(String, String)>,
    /// RecursorOptions::case_randomization (0x20)
    case_rand: bool,
    /// the first query is a warm-up (another name of the main query's zone): the main query
    /// then runs with the name-server cache already holding every ancestor's pool
    warm: bool,
    /// how the hostile servers treat their genuine response (index into MODES)
    mode: usize,
    /// indices into SERVER_DENY, SERVER_ALLOW, ANSWER_DENY, ANSWER_ALLOW
    filters: [usize; 4],
    /// index into CACHE_SIZES (ns_cache_size, response_cache_size)
    caches: usize,
    /// construction path: 0 `Recursor::with_options`, 1 `Recursor::new`, 2 `Recursor::from_config`
    /// (a deserialised RecursiveConfig + a roots file), 10-12 the same with the construction
    /// family's extra knobs (edns_payload_len 1400, avoid_local_udp_ports {5353})
    ctor: u8,
}

impl CaseDesc {
    fn to_json(&self) -> Value {
        json!({
            "graph": self.spec.to_json(),
            "limits": [self.limits.0, self.limits.1],
            "hostile_zone": self.hostile.map(|z| ZONE_NAMES[z]),
            "injections": self.inj.iter().map(|(k, s)| json!({"kind": k, "kind_name": kind_name(*k), "section": s, "section_name": SECTIONS[*s]})).collect::<Vec<_>>(),
            "queries": self.queries.iter().map(|(a, b)| json!([a, b])).collect::<Vec<_>>(),
            "case_randomization": self.case_rand,
            "warm": self.warm,
            "mode": self.mode,
            "mode_name": MODES[self.mode],
            "filters": self.filters,
            "cache_sizes": [CACHE_SIZES[self.caches].0, CACHE_SIZES[self.caches].1 as usize],
            "caches": self.caches,
            "ctor": self.ctor,
            "filters_text": {"deny_server": SERVER_DENY[self.filters[0]], "allow_server": SERVER_ALLOW[self.filters[1]], "deny_answers": ANSWER_DENY[self.filters[2]], "allow_answers": ANSWER_ALLOW[self.filters[3]]},
        })
    }
    fn from_json(v: &Value) -> CaseDesc {
        CaseDesc {
            spec: Spec::from_json(&v["graph"]),
            limits: (v["limits"][0].as_u64().unwrap_or(8) as u8, v["limits"][1].as_u64().unwrap_or(8) as u8),
            hostile: v["hostile_zone"].as_str().and_then(|s| ZONE_NAMES.iter().position(|x| *x == s)),
            inj: v["injections"].as_array().map(|a| a.iter().map(|x| (x["kind"].as_u64().unwrap() as usize, x["section"].as_u64().unwrap() as usize)).collect()).unwrap_or_default(),
            queries: v["queries"].as_array().unwrap().iter().map(|q| (q[0].as_str().unwrap().to_string(), q[1].as_str().unwrap().to_string())).collect(),
            case_rand: v["case_randomization"].as_bool().unwrap_or(false),
            warm: v["warm"].as_bool().unwrap_or(false),
            mode: v["mode"].as_u64().unwrap_or(0) as usize,
            caches: v["caches"].as_u64().unwrap_or(0) as usize,
            ctor: v["ctor"].as_u64().unwrap_or(0) as u8,
            filters: v["filters"].as_array().map(|a| [a[0].as_u64().unwrap() as usize, a[1].as_u64().unwrap() as usize, a[2].as_u64().unwrap() as usize, a[3].as_u64().unwrap() as usize]).unwrap_or(DEFAULT_FILTERS),
        }
    }
    fn internet(&self) -> Internet {
        let mut inet = build(&self.spec);
        if let Some(hz) = self.hostile {
            inet.hostile_zone = Some(hz);
            let mut inj = Injection::default();
            for (k, s) in &self.inj {
                inj = merge(&inj, &injection(hz, *k, *s));
            }
            inet.injection = inj;
            inet.hostile_mode = self.mode as u8;
            let (vz, _, _) = victims(hz);
            inet.reown = Some((n(&format!("www.{}", ZONE_NAMES[vz])), n(ZONE_NAMES[vz])));
        }
        inet
    }
    fn parsed_queries(&self) -> Vec<(Name, RecordType)> {
        self.queries.iter().map(|(a, b)| (n(a), b.parse::<RecordType>().unwrap_or(RecordType::A))).collect()
    }
}

fn main_queries() -> Vec<(&'static str, &'static str)> {
    vec![
        ("www.l.t.", "A"),
        ("www.v.o.", "A"),
        ("nx.l.t.", "A"),
        ("www.l.t.", "AAAA"),
        ("alias.l.t.", "A"),
        ("alias.v.o.", "A"),
        ("l.t.", "NS"),
        ("www.t.", "A"),
        // query types with paths of their own in the response classification / zone choice
        ("l.t.", "SOA"),
        ("www.l.t.", "ANY"),
        ("alias.l.t.", "CNAME"),
        ("l.t.", "DS"),
    ]
}

/// Follow-up queries after the main one: names outside the hostile zone's subtree.
fn followups(hz: usize) -> Vec<(String, String)> {
    let (vz, vp, sib) = victims(hz);
    let mut v = vec![
        (format!("www.{}", ZONE_NAMES[vz]), "A".to_string()),
        (format!("other.{}", ZONE_NAMES[vz]), "A".to_string()),
        (format!("www.{}", ZONE_NAMES[vp]), "A".to_string()),
    ];
    if !v.iter().any(|x| x.0 == sib) {
        v.push((sib.to_string(), "A".to_string()));
    }
    v
}

/// Run one descriptor and judge it. `honest` = the run of the same graph/queries without a
/// hostile zone (None for honest cases themselves).
fn run_and_judge(desc: &CaseDesc, honest: Option<&Run>, l: &mut Local) -> Run {
    l.eval();
    // unbounded recursion in the recursor overflows the stack and kills the process: the
    // supervising parent (vcore::supervise) reports the marked case as a termination violation
    vcore::mark_case(l.worker, || desc.to_json().to_string());
    let inet = Arc::new(desc.internet());
    CTOR.with(|c| c.set(desc.ctor));
    let run = execute_caught(inet.clone(), desc.limits, desc.case_rand, desc.filters, desc.caches, &desc.parsed_queries());
    CTOR.with(|c| c.set(0));
    let wit = || {
        let mut j = desc.to_json();
        j["observed"] = run.to_json();
        j
    };
    if std::env::var("VERIF_C19_DEBUG").is_ok() {
        eprintln!("{}", serde_json::to_string_pretty(&wit()).unwrap());
    }
    let main_idx = if desc.warm && run.steps.len() > 1 { 1 } else { 0 };
    // scene of the termination clauses: cache-size class and world shape
    let scene = format!(
        "{}:{}",
        if desc.caches == 0 { "default-caches" } else { "tiny-caches" },
        match &desc.spec.family {
            Family::Base => "base-graph",
            Family::CnameChain { .. } => "cname-chain",
            Family::CnameLoop { .. } => "cname-loop",
            Family::NsChain { .. } => "ns-for-ns-chain",
            Family::Cycle { names, .. } if *names >= 2 => "branching-glueless-cycle",
            Family::Cycle { .. } => "glueless-cycle",
            Family::Deep { .. } => "deep-delegation",
        }
    );
    judge_common(&inet, desc.limits, &desc.filters, &scene, &run, l, &wit);
    // exact bound on a single delegation path (every label a zone cut served by the same hosts):
    // one resolution makes at most ns_recursion_limit zone-cut lookups
    if matches!(desc.spec.family, Family::Deep { .. }) {
        let probes: BTreeSet<&str> = run.steps[0].log.iter().filter(|e| e.qtype == "NS").map(|e| e.qname.as_str()).collect();
        if probes.len() > desc.limits.1 as usize {
            l.violation(
                "depth-exceeds-configured-limit:zone-cut-lookups",
                &format!("{} distinct zone-cut (NS) lookups on one delegation path with ns_recursion_limit = {}", probes.len(), desc.limits.1),
                &wit,
            );
        }
    }
    let skip_provenance = matches!(desc.spec.family, Family::Deep { .. });
    if !skip_provenance {
        // a warm-up is a first-time resolution like the main query: same phase label
        judge_provenance(&inet, &run, &|i| if i <= main_idx { "main" } else { "followup" }, l, &wit);
    }
    if let (Some(hz), Some(h)) = (desc.hostile, honest) {
        // follow-ups: names outside the hostile zone must resolve exactly as without the attacker
        // unless the honest resolution of that name itself depends on the hostile zone's servers
        let hostile_ips: BTreeSet<IpAddr> = inet.zones[hz].servers.iter().map(|s| IpAddr::V4(inet.servers[*s].ip)).collect();
        let contacted = run.steps.iter().any(|s| s.log.iter().any(|e| hostile_ips.contains(&e.ip)));
        if contacted {
            l.nontrivial(fnv_str(&desc.to_json().to_string()));
            l.outcome("hostile-server-contacted");
        } else {
            l.outcome("hostile-server-not-contacted");
        }
        let attacker_contacted = run.steps.iter().any(|s| s.log.iter().any(|e| inet.server_by_ip(e.ip).is_none()));
        let last = run.steps.len() - 1;
        for (i, st) in run.steps.iter().enumerate().skip(main_idx + 1) {
            let Some(hst) = h.steps.get(i) else { continue };
            if i == last && st.query == run.steps[main_idx].query {
                // the repeated main query is about the hostile zone itself: provenance, and the
                // warm answer holds nothing the cold answer of the same query did not hold
                if let (Outcome::Ok { .. }, Outcome::Ok { .. }) = (&st.outcome, &run.steps[main_idx].outcome) {
                    let cold: BTreeSet<Rec> = run.steps[main_idx].outcome.returned().into_iter().map(|(_, r)| rec_of(r)).collect();
                    let extra: Vec<Rec> = st.outcome.returned().into_iter().map(|(_, r)| rec_of(r)).filter(|r| !cold.contains(r)).collect();
                    if !extra.is_empty() && !attacker_contacted {
                        l.violation(
                            "warm-answer-not-a-subset-of-the-cold-answer",
                            &format!("the repeated query {} {} returns {:?}, which the first (cold) answer did not contain", st.query.0, st.query.1, extra),
                            &wit,
                        );
                    } else {
                        l.outcome("warm-answer-subset-of-cold");
                    }
                }
                continue;
            }
            if i > main_idx + followups(hz).len() {
                // a second-step query for something the first resolution touched: it may be an
                // alias into, or a name server of, the hostile zone - provenance only
                l.outcome("second-step-query-for-a-touched-name");
                continue;
            }
            let qz = inet.owning_zone(&n(&st.query.0));
            if dependency_closure(&inet, qz).contains(&hz) {
                l.outcome("obs:followup-depends-on-hostile-zone");
                continue;
            }
            if attacker_contacted {
                // consequence of a contact that is reported under its own key
                l.outcome("obs:followup-after-attacker-contact");
                continue;
            }
            let ans = |o: &Outcome| match o {
                Outcome::Ok { answers, .. } => Some(answers.iter().map(rec_of).collect::<BTreeSet<_>>()),
                _ => None,
            };
            if ans(&st.outcome) != ans(&hst.outcome) || st.outcome.class() != hst.outcome.class() {
                l.violation(
                    &format!("followup-differs-from-published:{}->{}", hst.outcome.class(), st.outcome.class()),
                    &format!(
                        "after the hostile run the follow-up {} {} gives {} but without the attacker {}",
                        st.query.0,
                        st.query.1,
                        st.outcome.canon(),
                        hst.outcome.canon()
                    ),
                    &wit,
                );
            } else {
                l.outcome("followup-equals-honest");
            }
        }
    }
    l.outcome(&format!("main:{}", run.steps[main_idx].outcome.class()));
    if desc.warm {
        l.outcome("warm-cache-main-query");
    }
    run
}

// ------------------------------------------------------------------------------------------
// stub side

/// Shapes of a hostile / odd upstream of the stub resolver.
const STUB_SHAPES: [&str; 7] = [
    "cname-chain",
    "srv-chain",                 // the address query is answered with SRV records, whose target is followed like an alias
    "plus-unrelated-records",    // every response also carries a foreign CNAME and a foreign address
    "reverse-order",             // the CNAMEs of one response in reverse chain order
    "alias-and-address",         // every alias owner also has an address record in the response
    "duplicated-cnames",         // every CNAME twice
    "cname-to-out-of-question",  // the chain leaves the queried domain (other TLD) at every hop
];

#[derive(Clone)]
struct StubConn {
    shape: usize,
    /// chain length (number of hops before the address), or loop length
    n: usize,
    is_loop: bool,
    /// how many hops of the chain the upstream puts into one response
    per_response: usize,
    ttl: u32,
    log: Arc<Mutex<Vec<String>>>,
}

impl StubConn {
    fn name(&self, i: usize) -> Name {
        if self.shape == 6 && i % 2 == 1 {
            n(&format!("c{i}.elsewhere."))
        } else {
            n(&format!("c{i}.s."))
        }
    }
}

impl DnsHandle for StubConn {
    type Response = Pin<Box<dyn Stream<Item = Result<DnsResponse, NetError>> + Send>>;
    type Runtime = TokioRuntimeProvider;
    fn send(&self, request: DnsRequest) -> Self::Response {
        let q = request.queries[0].clone();
        let asked = {
            let mut l = self.log.lock().unwrap();
            l.push(q.name.to_ascii());
            l.len()
        };
        let mut m = Message::new(request.id, MessageType::Response, OpCode::Query);
        m.add_query(q.clone());
        let ttl = self.ttl;
        let with_ttl = |mut r: Record| {
            r.ttl = ttl;
            r
        };
        let label = q.name.to_ascii();
        let idx = label.strip_prefix('c').and_then(|s| s.split('.').next()).and_then(|s| s.parse::<usize>().ok());
        // a runaway client is cut off (and reported through the query count)
        if asked > 64 {
            m.metadata.response_code = ResponseCode::ServFail;
            return Box::pin(stream::once(async move { DnsResponse::from_message(m).map_err(NetError::from) }));
        }
        match idx {
            Some(mut i) => {
                let mut hops: Vec<Record> = vec![];
                for _ in 0..self.per_response.max(1) {
                    if !self.is_loop && i >= self.n {
                        break;
                    }
                    let next = if self.is_loop { (i + 1) % self.n } else { i + 1 };
                    let hop = if self.shape == 1 {
                        Record::from_rdata(self.name(i), ttl, RData::SRV(hickory_proto::rr::rdata::SRV::new(0, 0, 80, self.name(next))))
                    } else {
                        with_ttl(rec_cname(&self.name(i), &self.name(next)))
                    };
                    hops.push(hop);
                    if self.shape == 4 {
                        hops.push(with_ttl(rec_a(&self.name(i), Ipv4Addr::new(12, 8, 8, 1))));
                    }
                    if self.shape == 5 {
                        hops.push(hops.last().unwrap().clone());
                    }
                    i = next;
                    if self.is_loop && i == 0 {
                        break;
                    }
                }
                if self.shape == 3 {
                    hops.reverse();
                }
                for h in hops {
                    m.add_answer(h);
                }
                if self.shape == 2 {
                    m.add_answer(with_ttl(rec_cname(&n("foreign.s."), &n("c0.s."))));
                    m.add_answer(with_ttl(rec_a(&n("other.s."), Ipv4Addr::new(12, 8, 8, 9))));
                    m.add_additional(with_ttl(rec_a(&n("c0.s."), Ipv4Addr::new(12, 8, 8, 7))));
                }
                if !self.is_loop && i >= self.n {
                    m.add_answer(with_ttl(rec_a(&self.name(self.n), Ipv4Addr::new(12, 8, 8, 8))));
                }
            }
            None => m.metadata.response_code = ResponseCode::NXDomain,
        }
        Box::pin(stream::once(async move { DnsResponse::from_message(m).map_err(NetError::from) }))
    }
}

/// Per lookup (the same name is looked up `lookups` times on one client): (upstream queries, class).
fn stub_run(shape: usize, n_hops: usize, is_loop: bool, per_response: usize, preserve: bool, ttl: u32, lookups: usize) -> Vec<(usize, String)> {
    let rt = vsim::rt();
    let log = Arc::new(Mutex::new(vec![]));
    let conn = StubConn { shape, n: n_hops, is_loop, per_response, ttl, log: log.clone() };
    // (shape 1 answers the address query with SRV records: the client follows their targets)
    let qtype = RecordType::A;
    rt.block_on(async {
        let client = CachingClient::new(64, conn, preserve);
        let mut out = vec![];
        for _ in 0..lookups {
            let before = log.lock().unwrap().len();
            let fut: Pin<Box<dyn Future<Output = _>>> = Box::pin(client.lookup(Query::new(n("c0.s."), qtype), DnsRequestOptions::default()));
            let class = match tokio::time::timeout(HORIZON, fut).await {
                Err(_) => "hung".to_string(),
                Ok(Ok(lookup)) => {
                    if lookup.answers().iter().any(|r| r.record_type() == RecordType::A) {
                        "answer".into()
                    } else {
                        "ok-without-address".into()
                    }
                }
                Ok(Err(_)) => "error".into(),
            };
            out.push((log.lock().unwrap().len() - before, class));
        }
        out
    })
}

// ------------------------------------------------------------------------------------------

fn graph_specs(thorough: bool) -> Vec<Spec> {
    let mut out = vec![];
    let nservs: &[usize] = if thorough { &[1, 2] } else { &[1] };
    for &nserv in nservs {
        for a in 0..ns_styles(T).len() {
            for b in 0..ns_styles(O).len() {
                for c in 0..ns_styles(LT).len() {
                    for d in 0..ns_styles(VO).len() {
                        out.push(Spec { nserv, style: [a, b, c, d], lame: None, chase: false, family: Family::Base });
                    }
                }
            }
        }
    }
    if !thorough {
        // quick: the two-server variant of the plain graph and of each single-style deviation
        let mut s = Spec::base();
        s.nserv = 2;
        out.push(s);
    }
    out
}

fn lame_specs() -> Vec<Spec> {
    let mut out = vec![];
    for z in [T, O, LT, VO] {
        for kind in 1..=5u8 {
            for (nserv, all) in [(1usize, true), (2, true), (2, false)] {
                let mut s = Spec::base();
                s.nserv = nserv;
                s.lame = Some((z, all, kind));
                out.push(s);
            }
        }
    }
    out
}

/// Termination families: (family label, limit class, list of (n, spec, query)).
fn termination_families(thorough: bool) -> Vec<(String, Vec<(usize, Spec, (String, String))>)> {
    let mut out = vec![];
    let maxn = if thorough { 72 } else { 70 };
    for cross in [false, true] {
        for chase in [false, true] {
            let mut v = vec![];
            for len in 1..=maxn {
                let mut s = Spec::base();
                s.chase = chase;
                s.family = Family::CnameChain { n: len, cross };
                v.push((len, s, ("c0.l.t.".to_string(), "A".to_string())));
            }
            out.push((format!("cname-chain:cross={cross}:server-chases={chase}"), v));
        }
        let mut v = vec![];
        for len in 1..=3 {
            let mut s = Spec::base();
            s.family = Family::CnameLoop { n: len, cross };
            v.push((len, s, ("c0.l.t.".to_string(), "A".to_string())));
        }
        out.push((format!("cname-loop:cross={cross}"), v));
    }
    let mut v = vec![];
    for len in (1..=30).chain([126, 127, 128, 252, 253, 258]) {
        let mut s = Spec::base();
        s.family = Family::NsChain { n: len };
        v.push((len, s, ("www.z1.t.".to_string(), "A".to_string())));
    }
    out.push(("ns-for-ns-chain".to_string(), v));
    for names in [1usize, 2] {
        let mut v = vec![];
        for len in 1..=if names == 1 { 8 } else { 6 } {
            let mut s = Spec::base();
            s.family = Family::Cycle { n: len, names };
            v.push((len, s, ("www.z1.t.".to_string(), "A".to_string())));
        }
        out.push((format!("glueless-cycle:ns-names={names}"), v));
    }
    let mut v = vec![];
    for depth in (1..=40).chain([100, 120]) {
        let mut s = Spec::base();
        s.family = Family::Deep { n: depth };
        let q = format!("{}l.t.", "x.".repeat(depth));
        v.push((depth, s, (q, "A".to_string())));
    }
    out.push(("deep-delegation".to_string(), v));
    out
}

fn main() {
    vcore::supervise("C19");
    vcore::install_log_evaluation(); // logging is part of the environment: log arguments are evaluated as under a real subscriber
    let ctx = Ctx::from_args("C19", "fault_enumeration");
    let thorough = !ctx.quick();

    if let Some((_key, case)) = ctx.replay_case() {
        ctx.with_local(|l| {
            if case.get("stub").is_some() {
                let st = &case["stub"];
                let g = |k: &str| st[k].as_u64().unwrap_or(0) as usize;
                l.eval();
                let runs = stub_run(g("shape"), g("n"), st["loop"].as_bool().unwrap_or(false), g("per_response").max(1), st["preserve"].as_bool().unwrap_or(false), st["ttl"].as_u64().unwrap_or(300) as u32, 2);
                for (count, class) in runs {
                    if count > 8 {
                        l.violation(&format!("stub-alias-chasing-unbounded:{}", STUB_SHAPES[g("shape")]), &format!("{count} upstream queries, result {class}"), || case.clone());
                    }
                }
                return;
            }
            let desc = CaseDesc::from_json(&case);
            let honest = desc.hostile.map(|_| {
                let mut h = desc.clone();
                h.hostile = None;
                h.inj.clear();
                execute_caught(Arc::new(h.internet()), h.limits, h.case_rand, h.filters, h.caches, &h.parsed_queries())
            });
            run_and_judge(&desc, honest.as_ref(), l);
        });
        ctx.finish(false);
    }

    ctx.set_rule(
        "(A) zone graphs root/t./o./l.t./v.o. with every combination of NS styles (t.: in-zone+glue, in-zone-no-glue, sibling-glueless, in-child+glue; o.: in-zone+glue, sibling-glueless; \
         l.t.: in-zone+glue, no-glue, sibling-tld, sibling-leaf, parent-zone; v.o.: in-zone+glue, sibling-tld, sibling-leaf; 120 graphs incl. all mutual glueless cycles) x 1 (quick) / 1-2 (thorough) servers per zone \
         x 12 queries (A, AAAA, NS, SOA, ANY, CNAME, DS; existing, missing, alias names) x limits {(4,4),(8,8),(24,24)}, honest; (B) every graph (quick: the plain graph and the graphs one NS style away from it) x hostile zone in {t., o., l.t., v.o.} (all its servers) x injection kind (12: victim A, victim-zone NS+glue, victim-parent NS+glue, root NS+glue, \
         CNAME->victim + victim A, in-bailiwick A at a denied answer address, in-bailiwick NS + glue at a denied server address, sibling A, victim NS + victim glue, NS for the hostile zone's own names naming a victim-zone host + forged glue for it, victim CNAME, victim-zone SOA; plus the systematic kinds record type {A, NS+glue, SOA} x OWNER {inside the hostile zone, hostile apex, parent apex, grandparent apex (= every strict ancestor up to the root), sibling, victim apex, unrelated TLD}) x response mode {append; on the plain graph (thorough: all single-server graphs) also: genuine records dropped with NOERROR / with NXDOMAIN, AA bit flipped, genuine records re-owned to the victim} x section {answer, authority, additional} added to EVERY response \
         x main query (cold, and - when the hostile zone is the one holding the queried name - also after a warm-up query for another name of that zone, i.e. with every ancestor's pool already in the name-server cache), followed on the same recursor by 3-4 follow-up queries for names outside the hostile subtree, by a SECOND-STEP query for everything the first resolution touched internally (every (name, type in A/AAAA/NS) it asked upstream and the address of every NS host name of the zones it asked: glueless NS names, zone cuts, alias targets), and by the first query again (warm answer must be a subset of the cold one); thorough adds all unordered pairs of injections on the plain graph and on every graph that differs from it in at most one zone's NS style; \
         (F) every filter configuration the builder accepts out of deny_server {none, 6.6.7.0/24, 0.0.0.0/0} x allow_server {none, 6.6.7.1/32, 11.0.0.0/8} x deny_answers {none, 6.6.8.0/24, 0.0.0.0/0} x allow_answers {none, 6.6.8.1/32, 12/8+11/8} (quick: one filter at its default; thorough: the full product, 49) x hostile zone {ROOT, t., l.t.} x filter-relevant injections x 5 queries (each asked twice), judged against the documented deny/allow table; \
         (G) construction paths: Recursor::with_options / Recursor::new / Recursor::from_config (a deserialised RecursiveConfig + a roots file written at run time) with EVERY knob at a non-default value and same-typed neighbours at different values (recursion_limit 6 / ns_recursion_limit 10, deny_server 6.6.7.0/24 + allow_server 6.6.7.1/32 vs deny_answers 6.6.8.0/24 + allow_answers 6.6.8.1/32, ns_cache_size 7 / response_cache_size 300, case_randomization, edns_payload_len 1400, avoid_local_udp_ports) x 29 probes (filter injections at a hostile l.t., NS chains, CNAME chains, delegation depth), judged by the usual oracle for those values and differentially against the with_options-built object, plus per-knob effect clauses (advertised payload = edns_payload_len, mixed-case query names, an NS chain is bounded by ns_recursion_limit and not by recursion_limit); the two cache sizes have different types (usize / u64) and eviction is not observable deterministically from upstream traffic (each cache masks the other), so they are only compared differentially; there is no RecursorBuilder, and the DNSSEC policy / trust-anchor knobs are outside C19's non-validating statement; \
         (C) lame kinds {REFUSED, upward referral, self referral, empty NOERROR, timeout} x zone x {1 server, 2 servers both lame, 2 servers first lame}; \
         (D) CNAME chains 1..70 (in-zone / cross-zone, server chases in-zone or not), CNAME loops 1..3, NS-for-NS chains 1..30, glueless cycles 1..8 (1 NS name) / 1..6 (2 NS names), delegation depth 1..40/100/120, NS-for-NS chains also of 126-128 and 252-258 zones, each x (recursion_limit, ns_recursion_limit) in {0,1,2,4,8,24,254,255} equal and crossed (thorough: more), and x (ns_cache_size, response_cache_size) in {(0,0),(1,1),(2,2)}; exact bound on a single delegation path: at most ns_recursion_limit zone-cut lookups; a panic in the recursor is `panic:<loc>`; \
         (E) stub CachingClient over a hostile/odd upstream: shapes {CNAME chain, SRV-target chain, plus foreign CNAME/address records, reverse record order, alias owner also has an address, duplicated CNAMEs, chain leaving the queried domain at every hop} x chains 1..20 / loops 1..3 x 1-2 hops per response x preserve_intermediates on/off x TTL {300, 0}, the name looked up twice on the same client. \
         Oracle: completes; upstream exchanges <= 64*(recursion_limit+ns_recursion_limit+64)*servers and constant in n for every n beyond limit+2; no exchange with an attacker/denied/unknown address; no denied address returned; \
         every returned record (incl. SOA/authorities of negative results) is published data or lies inside the hostile zone; follow-ups equal the attacker-free run; stub <= 8 upstream queries. \
         Non-trivial = distinct (graph, hostile zone, injection, query) in which a hostile server was actually contacted.",
    );
    ctx.assume("the simulated authoritative servers (inet.rs) follow RFC 1034 4.3.2 for referrals, CNAMEs, NODATA and NXDOMAIN");
    ctx.assume("name-server order inside a pool is random (initial SRTT); hostility is therefore per zone, and observations are compared as sets of (zone, question)");

    let limits_all: [(u8, u8); 3] = [(4, 4), (8, 8), (24, 24)];
    let queries = main_queries();

    // ---------------- (A) honest graphs
    let specs = graph_specs(thorough);
    let mut honest_descs: Vec<CaseDesc> = vec![];
    for s in &specs {
        for lim in limits_all {
            for q in &queries {
                honest_descs.push(CaseDesc { spec: s.clone(), limits: lim, hostile: None, inj: vec![], queries: vec![(q.0.to_string(), q.1.to_string())], case_rand: false, warm: false, mode: 0, filters: DEFAULT_FILTERS, caches: 0, ctor: 0 });
            }
        }
    }
    for s in lame_specs() {
        for q in &queries {
            honest_descs.push(CaseDesc { spec: s.clone(), limits: (8, 8), hostile: None, inj: vec![], queries: vec![(q.0.to_string(), q.1.to_string())], case_rand: false, warm: false, mode: 0, filters: DEFAULT_FILTERS, caches: 0, ctor: 0 });
        }
    }
    ctx.set("graphs", json!(specs.len()));
    ctx.set("honest_cases", json!(honest_descs.len()));
    ctx.par_run(honest_descs.len() as u64, 8, |i, l| {
        let d = &honest_descs[i as usize];
        let run = run_and_judge(d, None, l);
        let order_dependent = d.spec.lame.map(|(_, all, _)| !all).unwrap_or(false);
        if i % 8 == 0 && !order_dependent {
            let again = execute_caught(Arc::new(d.internet()), d.limits, d.case_rand, d.filters, d.caches, &d.parsed_queries());
            let inet = d.internet();
            if again.digest(&inet) != run.digest(&inet) {
                ctx.machinery_failure(&format!("nondeterminism: {} gave two different observations", d.to_json()));
            }
            l.outcome("selftest:replayed-identically");
        }
        if d.spec.lame.is_some() {
            l.outcome(&format!("lame:{}", run.steps[0].outcome.class()));
        }
        if i % 997 == 0 {
            l.sample(json!({"family": "honest", "case": d.to_json(), "outcome": run.steps[0].outcome.class(), "exchanges": run.steps[0].log.len()}));
        }
    });

    // the plain graph must resolve: otherwise everything below is vacuous
    {
        let d = CaseDesc { spec: Spec::base(), limits: (8, 8), hostile: None, inj: vec![], queries: vec![("www.l.t.".into(), "A".into()), ("alias.l.t.".into(), "A".into())], case_rand: false, warm: false, mode: 0, filters: DEFAULT_FILTERS, caches: 0, ctor: 0 };
        let run = execute_caught(Arc::new(d.internet()), d.limits, d.case_rand, d.filters, d.caches, &d.parsed_queries());
        let ok = run.steps.iter().all(|s| matches!(&s.outcome, Outcome::Ok { answers, .. } if answers.iter().any(|r| r.record_type() == RecordType::A)));
        if !ok {
            ctx.machinery_failure(&format!("vacuous: the plain graph does not resolve: {}", run.to_json()));
        }
    }

    // ---------------- 0x20: with case randomisation every observation is the same (names are
    // compared case-insensitively; the simulated servers echo the question as asked)
    {
        let mut cases = vec![];
        for s in specs.iter().filter(|s| s.style.iter().sum::<usize>() <= 1) {
            for q in &queries {
                cases.push(CaseDesc { spec: s.clone(), limits: (8, 8), hostile: None, inj: vec![], queries: vec![(q.0.to_string(), q.1.to_string())], case_rand: true, warm: false, mode: 0, filters: DEFAULT_FILTERS, caches: 0, ctor: 0 });
            }
        }
        ctx.set("case_randomization_cases", json!(cases.len()));
        ctx.par_run(cases.len() as u64, 4, |i, l| {
            let d = &cases[i as usize];
            let run = run_and_judge(d, None, l);
            let mut plain = d.clone();
            plain.case_rand = false;
            let inet = d.internet();
            let reference = execute_caught(Arc::new(plain.internet()), plain.limits, false, plain.filters, plain.caches, &plain.parsed_queries());
            if reference.digest(&inet) != run.digest(&inet) {
                ctx.machinery_failure(&format!("0x20 leak: {} differs from the run without case randomisation", d.to_json()));
            }
            l.outcome("selftest:case-randomisation-invisible");
        });
    }

    // ---------------- (B) hostile zones
    // honest reference runs with follow-ups, per (graph, hostile zone (-> follow-up list), query)
    let inj_limits = (8u8, 8u8);
    // class (d) second step: what did the first resolution touch internally? One honest run of
    // every (graph, main query) collects every (name, type) that was asked upstream and every NS
    // host name of the zones whose servers were asked; each of them becomes a follow-up query on
    // the same recursor (the NS names' addresses, the zone cuts' NS sets, alias targets, ...).
    let touch_keys: Vec<(usize, usize)> = (0..specs.len()).flat_map(|si| (0..queries.len()).map(move |qi| (si, qi))).collect();
    let touched: Vec<Mutex<Vec<(String, String)>>> = touch_keys.iter().map(|_| Mutex::new(vec![])).collect();
    ctx.par_run(touch_keys.len() as u64, 8, |i, l| {
        let (si, qi) = touch_keys[i as usize];
        let s = &specs[si];
        if !thorough && s.style.iter().filter(|x| **x != 0).count() > 1 {
            return;
        }
        l.eval();
        let q = &queries[qi];
        let d = CaseDesc { spec: s.clone(), limits: inj_limits, hostile: None, inj: vec![], queries: vec![(q.0.to_string(), q.1.to_string())], case_rand: false, warm: false, mode: 0, filters: DEFAULT_FILTERS, caches: 0, ctor: 0 };
        let inet = d.internet();
        let run = execute_caught(Arc::new(d.internet()), d.limits, d.case_rand, d.filters, d.caches, &d.parsed_queries());
        let mut set: BTreeSet<(String, String)> = BTreeSet::new();
        for e in &run.steps[0].log {
            if ["A", "AAAA", "NS"].contains(&e.qtype.as_str()) {
                set.insert((e.qname.clone(), e.qtype.clone()));
            }
            if let Some(srv) = inet.server_by_ip(e.ip) {
                for z in &inet.servers[srv].zones {
                    for h in &inet.zones[*z].ns_names {
                        set.insert((h.to_ascii(), "A".to_string()));
                    }
                }
            }
        }
        set.remove(&(q.0.to_string(), q.1.to_string()));
        *touched[i as usize].lock().unwrap() = set.into_iter().collect();
    });
    let touched: Vec<Vec<(String, String)>> = touched.into_iter().map(|m| m.into_inner().unwrap()).collect();
    let mut refs: Vec<(CaseDesc, usize)> = vec![];
    for (si, s) in specs.iter().enumerate() {
        // quick: the query-type extension only on the graphs near the plain one
        let nq = if thorough || (s.nserv == 1 && s.style.iter().filter(|x| **x != 0).count() <= 1) { queries.len() } else { 8 };
        for hz in [T, O, LT, VO] {
            for (qi, q) in queries.iter().enumerate().take(nq) {
                // the zone the main query's name lives in (its first label stripped, unless it asks
                // for the NS set of the zone itself)
                let qzone = if q.1 == "NS" || q.1 == "SOA" { q.0.to_string() } else { q.0.split_once('.').map(|x| x.1.to_string()).unwrap_or_default() };
                for warm in [false, true] {
                    // the warm variant only matters when the hostile zone is the one that is
                    // asked for the main query's (then only uncached) label
                    if warm && ZONE_NAMES[hz] != qzone {
                        continue;
                    }
                    let mut qs = vec![];
                    if warm {
                        qs.push((format!("other.{qzone}"), "A".to_string()));
                    }
                    qs.push((q.0.to_string(), q.1.to_string()));
                    qs.extend(followups(hz));
                    for t in &touched[si * queries.len() + qi] {
                        if !qs.contains(t) {
                            qs.push(t.clone());
                        }
                    }
                    // and the main query once more: what the first resolution left in the caches
                    qs.push((q.0.to_string(), q.1.to_string()));
                    refs.push((CaseDesc { spec: s.clone(), limits: inj_limits, hostile: None, inj: vec![], queries: qs, case_rand: false, warm, mode: 0, filters: DEFAULT_FILTERS, caches: 0, ctor: 0 }, hz));
                }
            }
        }
    }
    let ref_runs: Vec<Mutex<Option<Run>>> = refs.iter().map(|_| Mutex::new(None)).collect();
    ctx.par_run(refs.len() as u64, 8, |i, l| {
        let (d, _) = &refs[i as usize];
        l.eval();
        let run = execute_caught(Arc::new(d.internet()), d.limits, d.case_rand, d.filters, d.caches, &d.parsed_queries());
        *ref_runs[i as usize].lock().unwrap() = Some(run);
    });
    let ref_runs: Vec<Run> = ref_runs.into_iter().map(|m| m.into_inner().unwrap().unwrap()).collect();

    let mut jobs: Vec<(usize, Vec<(usize, usize)>, usize)> = vec![];
    for (ri, (d, hz)) in refs.iter().enumerate() {
        // skip references in which the would-be hostile zone is never contacted (the injection
        // could not be seen): counted as trivial
        let inet = d.internet();
        let ips: BTreeSet<IpAddr> = inet.zones[*hz].servers.iter().map(|s| IpAddr::V4(inet.servers[*s].ip)).collect();
        if !ref_runs[ri].steps.iter().any(|s| s.log.iter().any(|e| ips.contains(&e.ip))) {
            continue;
        }
        let deviations = d.spec.style.iter().filter(|x| **x != 0).count();
        let near_plain = d.spec.nserv == 1 && deviations <= 1;
        // quick: hostile cases on the plain graph and the graphs one NS style away from it (all
        // graphs run honestly; the full graph product x injections is left to thorough)
        if !thorough && deviations > 1 {
            continue;
        }
        for k in 0..n_kinds() {
            if !kind_exists(*hz, k) {
                continue;
            }
            // quick: the record-type kinds 10-11 and the (rtype x owner) kinds only near the plain graph
            if !thorough && !near_plain && k >= 10 {
                continue;
            }
            // quick: the (rtype x owner) kinds on the plain graph only
            if !thorough && k >= FIXED_KINDS && deviations != 0 {
                continue;
            }
            // thorough: the (rtype x owner) kinds on single-server graphs
            if k >= FIXED_KINDS && d.spec.nserv != 1 {
                continue;
            }
            for s in 0..SECTIONS.len() {
                jobs.push((ri, vec![(k, s)], 0));
                // the hostile servers ALTER their genuine response instead of only adding to it
                // (quick: on the plain graph)
                if d.spec.nserv == 1 && (thorough || deviations == 0) {
                    for mode in 1..=3 {
                        // (rtype x owner) kinds: the two "genuine records dropped" modes
                        if k >= FIXED_KINDS && mode == 3 {
                            continue;
                        }
                        jobs.push((ri, vec![(k, s)], mode));
                    }
                }
            }
        }
        if d.spec.nserv == 1 && (thorough || near_plain) {
            // genuine records re-owned to the victim, nothing added
            jobs.push((ri, vec![], 4));
        }
        if thorough && near_plain {
            let all: Vec<(usize, usize)> = (0..FIXED_KINDS).flat_map(|k| (0..SECTIONS.len()).map(move |s| (k, s))).collect();
            for a in 0..all.len() {
                for b in a + 1..all.len() {
                    jobs.push((ri, vec![all[a], all[b]], 0));
                }
            }
        }
    }
    ctx.set("hostile_reference_runs", json!(refs.len()));
    ctx.set("hostile_cases", json!(jobs.len()));
    ctx.par_run(jobs.len() as u64, 8, |i, l| {
        let (ri, inj, mode) = &jobs[i as usize];
        let (rd, hz) = &refs[*ri];
        let mut d = rd.clone();
        d.hostile = Some(*hz);
        d.inj = inj.clone();
        d.mode = *mode;
        if *mode != 0 {
            l.outcome(&format!("mode:{}", MODES[*mode]));
        }
        let run = run_and_judge(&d, Some(&ref_runs[*ri]), l);
        if i % 64 == 0 {
            let again = execute_caught(Arc::new(d.internet()), d.limits, d.case_rand, d.filters, d.caches, &d.parsed_queries());
            let inet = d.internet();
            // once an attacker address sits in a pool next to a genuine one, which of the two is
            // asked depends on hickory's random initial SRTT: such runs are already violations
            let stray = |r: &Run| r.steps.iter().any(|s| s.log.iter().any(|e| inet.server_by_ip(e.ip).is_none()));
            if !stray(&again) && !stray(&run) && again.digest(&inet) != run.digest(&inet) {
                ctx.machinery_failure(&format!("nondeterminism: {} gave two different observations", d.to_json()));
            }
            l.outcome("selftest:replayed-identically");
        }
        if i % 9973 == 0 {
            l.sample(json!({"family": "hostile", "case": d.to_json(), "outcomes": run.steps.iter().map(|s| s.outcome.class()).collect::<Vec<_>>() }));
        }
    });

    // ---------------- (F) filter configurations x hostile zones incl. the root
    {
        let fgraphs: Vec<&Spec> = specs.iter().filter(|s| s.nserv == 1 && s.style.iter().filter(|x| **x != 0).count() <= if thorough { 1 } else { 0 }).collect();
        let fqueries = [("www.l.t.", "A"), ("nx.l.t.", "A"), ("www.t.", "A"), ("www-root.", "A"), ("l.t.", "NS")];
        let mut fjobs: Vec<CaseDesc> = vec![];
        for s in &fgraphs {
            for hz in [ROOT, T, LT] {
                let kinds: &[usize] = if hz == ROOT { &[5, 6] } else { &[0, 4, 5, 6, 9] };
                for k in kinds {
                    for sec in 0..SECTIONS.len() {
                        for q in &fqueries {
                            for f in filter_configs(thorough) {
                                fjobs.push(CaseDesc {
                                    spec: (*s).clone(),
                                    limits: (8, 8),
                                    hostile: Some(hz),
                                    inj: vec![(*k, sec)],
                                    queries: vec![(q.0.to_string(), q.1.to_string()), (q.0.to_string(), q.1.to_string())],
                                    case_rand: false,
                                    warm: false,
                                    mode: 0,
                                    filters: f,
                                    caches: 0,
                                    ctor: 0,
                                });
                            }
                        }
                    }
                }
            }
        }
        ctx.set("filter_configurations", json!(filter_configs(thorough).len()));
        ctx.set("filter_cases", json!(fjobs.len()));
        ctx.par_run(fjobs.len() as u64, 8, |i, l| {
            let d = &fjobs[i as usize];
            let run = run_and_judge(d, None, l);
            l.nontrivial(fnv_str(&d.to_json().to_string()));
            l.outcome("filter-configuration-case");
            if d.hostile == Some(ROOT) {
                l.outcome("hostile-root-case");
            }
            if i % 4001 == 0 {
                l.sample(json!({"family": "filters", "case": d.to_json(), "outcome": run.steps[0].outcome.class()}));
            }
        });
    }

    // ---------------- (G) construction paths: every public way production code builds a Recursor,
    // every knob at a non-default value, same-typed neighbours at DIFFERENT values
    {
        let knobs_limits = (6u8, 10u8);
        let knob_filters = [1usize, 1, 1, 1]; // deny 6.6.7.0/24 + allow 6.6.7.1/32 (servers), deny 6.6.8.0/24 + allow 6.6.8.1/32 (answers)
        let mut probes: Vec<CaseDesc> = vec![];
        let mk = |spec: Spec, hostile: Option<usize>, inj: Vec<(usize, usize)>, q: (&str, &str), limits: (u8, u8)| CaseDesc {
            spec,
            limits,
            hostile,
            inj,
            queries: vec![(q.0.to_string(), q.1.to_string()), (q.0.to_string(), q.1.to_string())],
            case_rand: true,
            warm: false,
            mode: 0,
            filters: knob_filters,
            caches: 4,
            ctor: 10,
        };
        for k in [5usize, 6] {
            for sec in 0..SECTIONS.len() {
                for q in [("www.l.t.", "A"), ("l.t.", "NS"), ("www.l.t.", "AAAA")] {
                    probes.push(mk(Spec::base(), Some(LT), vec![(k, sec)], q, knobs_limits));
                }
            }
        }
        let world = |family: Family| {
            let mut s = Spec::base();
            s.family = family;
            s
        };
        for nn in [5usize, 6, 7, 8] {
            probes.push(mk(world(Family::NsChain { n: nn }), None, vec![], ("www.z1.t.", "A"), knobs_limits));
        }
        for nn in [1usize, 2, 3, 4] {
            probes.push(mk(world(Family::CnameChain { n: nn, cross: false }), None, vec![], ("c0.l.t.", "A"), knobs_limits));
        }
        for nn in [4usize, 8, 12] {
            probes.push(mk(world(Family::Deep { n: nn }), None, vec![], (&format!("{}l.t.", "x.".repeat(nn)), "A"), knobs_limits));
        }
        ctx.set("construction_path_probes", json!(probes.len()));
        ctx.par_run(probes.len() as u64, 2, |i, l| {
            let direct = &probes[i as usize];
            // expectation side: the usual oracle (filters judged against the documented table for
            // THESE lists, depth clause for THIS ns limit) on the directly built object
            let base = run_and_judge(direct, None, l);
            let (payloads, upper) = REQ_OBS.with(|o| o.borrow().clone());
            let inet = direct.internet();
            for ctor in [11u8, 12] {
                let mut d = direct.clone();
                d.ctor = ctor;
                let run = run_and_judge(&d, None, l);
                let (p2, u2) = REQ_OBS.with(|o| o.borrow().clone());
                let path = if ctor == 11 { "Recursor::new" } else { "Recursor::from_config" };
                if run.digest(&inet) != base.digest(&inet) {
                    l.violation(
                        &format!("construction-path-differs:{path}"),
                        &format!("the recursor built through {path} behaves differently from the one built with Recursor::with_options for the same knob values"),
                        || json!({"graph": d.to_json(), "with_options": base.to_json(), "this_path": run.to_json()}),
                    );
                }
                for (what, pl, up) in [("with_options", &payloads, upper), (path, &p2, u2)] {
                    if pl.iter().any(|x| *x != 1400) {
                        l.violation(&format!("knob-not-effective:edns_payload_len:{what}"), &format!("requests advertise {pl:?}, configured 1400"), || d.to_json());
                    }
                    if !up && !pl.is_empty() {
                        l.violation(&format!("knob-not-effective:case_randomization:{what}"), "no upstream request name carried an upper-case letter", || d.to_json());
                    }
                }
                l.outcome("construction-path-probe");
            }
            // only the NS limit matters on a CNAME-free NS chain: the built object (6, 10) must
            // behave there like (200, 10) - a swap of the two limits anywhere would not
            if matches!(direct.spec.family, Family::NsChain { .. }) {
                let mut r = direct.clone();
                r.limits = (200, knobs_limits.1);
                let other = run_and_judge(&r, None, l);
                if other.digest(&inet) != base.digest(&inet) {
                    l.violation("knob-not-effective:ns_recursion_limit-vs-recursion_limit", "on a CNAME-free NS chain the outcome depends on recursion_limit", || json!({"case": direct.to_json(), "limits_6_10": base.to_json(), "limits_200_10": other.to_json()}));
                }
            }
        });
    }

    // ---------------- (D) termination families
    let fams = termination_families(thorough);
    // the two recursion-limit knobs at their boundary values: 0, 1, 2, small, default (24), 254
    // and 255 (= u8::MAX: the depth counters are u8), equal and crossed
    let mut term_limits: Vec<(u8, u8)> = vec![(0, 0), (1, 1), (2, 2), (4, 4), (8, 8), (24, 24), (254, 254), (255, 255), (255, 4), (4, 255)];
    if thorough {
        term_limits.extend([(0, 24), (24, 0), (1, 255), (255, 1), (254, 255), (255, 254), (3, 3), (5, 5), (16, 16), (128, 128)]);
    }
    let mut tjobs: Vec<(usize, usize, (u8, u8))> = vec![];
    for (fi, (_, v)) in fams.iter().enumerate() {
        for (vi, _) in v.iter().enumerate() {
            for lim in term_limits.iter().copied() {
                tjobs.push((fi, vi, lim));
            }
        }
    }
    // the cache-size knobs at their boundary values x the non-terminating shapes and the plain
    // graph (a cache that holds nothing must not turn bounded work into unbounded work)
    {
        let mut cjobs: Vec<CaseDesc> = vec![];
        for caches in 1..4 {
            for lim in [(4u8, 4u8), (8, 8), (32, 32), (24, 24), (255, 255)] {
                for (_, v) in fams.iter() {
                    for (nn, spec, q) in v.iter() {
                        // a cycle with two NS names per zone branches at every level: without a
                        // cache the work is ~2^(limit/2) (open finding), so its cost is kept finite
                        // here: limits <= 8, plus one case at 32 where the explicit bound is
                        // exceeded deterministically (98,302 exchanges)
                        let branching = matches!(spec.family, Family::Cycle { names, .. } if names >= 2);
                        if branching && lim.1 > 8 && !(lim == (32, 32) && caches == 1 && *nn == 2) {
                            continue;
                        }
                        if lim == (32, 32) && !branching {
                            continue;
                        }
                        if [1usize, 2, 3, 9, 30].contains(nn) {
                            cjobs.push(CaseDesc { spec: spec.clone(), limits: lim, hostile: None, inj: vec![], queries: vec![q.clone(), q.clone()], case_rand: false, warm: false, mode: 0, filters: DEFAULT_FILTERS, caches, ctor: 0 });
                        }
                    }
                }
                for q in queries.iter().filter(|_| lim != (32, 32)) {
                    cjobs.push(CaseDesc { spec: Spec::base(), limits: lim, hostile: None, inj: vec![], queries: vec![(q.0.to_string(), q.1.to_string()), (q.0.to_string(), q.1.to_string())], case_rand: false, warm: false, mode: 0, filters: DEFAULT_FILTERS, caches, ctor: 0 });
                }
            }
        }
        ctx.set("cache_size_cases", json!(cjobs.len()));
        ctx.par_run(cjobs.len() as u64, 4, |i, l| {
            run_and_judge(&cjobs[i as usize], None, l);
            l.outcome("cache-size-boundary-case");
        });
    }
    let counts: Mutex<BTreeMap<(usize, (u8, u8)), BTreeMap<usize, (usize, String)>>> = Mutex::new(BTreeMap::new());
    let depths: Mutex<BTreeMap<(usize, (u8, u8)), BTreeMap<usize, usize>>> = Mutex::new(BTreeMap::new());
    ctx.set("termination_cases", json!(tjobs.len()));
    ctx.par_run(tjobs.len() as u64, 2, |i, l| {
        let (fi, vi, lim) = tjobs[i as usize];
        let (nn, spec, q) = &fams[fi].1[vi];
        let d = CaseDesc { spec: spec.clone(), limits: lim, hostile: None, inj: vec![], queries: vec![q.clone()], case_rand: false, warm: false, mode: 0, filters: DEFAULT_FILTERS, caches: 0, ctor: 0 };
        let run = run_and_judge(&d, None, l);
        l.outcome(&format!("termination:{}:{}", fams[fi].0.split(':').next().unwrap(), run.steps[0].outcome.class()));
        let probes: BTreeSet<&str> = run.steps[0].log.iter().filter(|e| e.qtype == "NS").map(|e| e.qname.as_str()).collect();
        depths.lock().unwrap().entry((fi, lim)).or_default().insert(*nn, probes.len());
        counts.lock().unwrap().entry((fi, lim)).or_default().insert(*nn, (run.steps[0].log.len(), run.steps[0].outcome.class()));
    });
    let counts = counts.into_inner().unwrap();
    let mut maxima = serde_json::Map::new();
    ctx.with_local(|l| {
        for ((fi, lim), by_n) in &counts {
            let name = &fams[*fi].0;
            let limit = if name.starts_with("cname") { lim.0 } else { lim.1 } as usize;
            let max = by_n.values().map(|v| v.0).max().unwrap_or(0);
            let dmax = depths.lock().unwrap().get(&(*fi, *lim)).map(|m| m.values().copied().max().unwrap_or(0)).unwrap_or(0);
            maxima.insert(format!("{name} limits={lim:?}"), json!({"max_distinct_zone_cut_probes": dmax, "max_exchanges": max, "bound": exchange_bound(*lim, 6), "by_n": by_n.iter().map(|(n, v)| format!("{n}:{}:{}", v.0, v.1)).collect::<Vec<_>>().join(" ")}));
            // plateau: beyond limit+2 the number of exchanges does not depend on n any more
            let beyond: Vec<(&usize, &(usize, String))> = by_n.iter().filter(|(n, _)| **n >= limit + 2).collect();
            if let Some((n0, first)) = beyond.first() {
                for (nn, v) in &beyond {
                    if v.0 != first.0 {
                        let fam = name.clone();
                        l.violation(
                            &format!("exchanges-grow-past-limit:{}", name.split(':').next().unwrap()),
                            &format!("family {fam} limits {lim:?}: {} exchanges at n={n0} but {} at n={nn}", first.0, v.0),
                            || json!({"family": fam, "limits": [lim.0, lim.1], "by_n": by_n.iter().map(|(n, v)| json!([n, v.0, v.1])).collect::<Vec<_>>() }),
                        );
                        break;
                    }
                }
                l.outcome("plateau-checked");
            }
        }
    });
    ctx.set("termination_measured", Value::Object(maxima));

    // ---------------- (E) stub
    ctx.with_local(|l| {
        let mut stub = serde_json::Map::new();
        for shape in 0..STUB_SHAPES.len() {
            for is_loop in [false, true] {
                for per in [1usize, 2] {
                    for preserve in [false, true] {
                        for ttl in [300u32, 0] {
                            let range: Vec<usize> = if is_loop { (1..=3).collect() } else { (1..=20).collect() };
                            let mut by_n = vec![];
                            for nn in range {
                                l.eval();
                                // with TTL 0 nothing may be served from the cache: look the name up twice
                                let runs = match vcore::catch(|| stub_run(shape, nn, is_loop, per, preserve, ttl, 2)) {
                                    Ok(r) => r,
                                    Err(p) => {
                                        l.violation(&format!("stub-panic:{}", vcore::short_loc(&p.loc)), &p.msg, || json!({"stub": {"shape": shape, "n": nn, "loop": is_loop, "per_response": per, "preserve": preserve, "ttl": ttl}}));
                                        continue;
                                    }
                                };
                                for (li, (count, class)) in runs.iter().enumerate() {
                                    let wit = || json!({"stub": {"shape": shape, "shape_name": STUB_SHAPES[shape], "n": nn, "loop": is_loop, "per_response": per, "preserve": preserve, "ttl": ttl}, "lookup": li, "upstream_queries": count, "result": class});
                                    if class == "hung" {
                                        l.violation("stub-no-termination", "CachingClient::lookup did not complete", wit);
                                    }
                                    if *count > 8 {
                                        l.violation(&format!("stub-alias-chasing-unbounded:{}", STUB_SHAPES[shape]), &format!("{count} upstream queries for an alias chain of {nn}"), wit);
                                    }
                                    if is_loop && class == "answer" && shape != 4 && shape != 2 {
                                        l.violation("stub-loop-answered", "an alias loop produced an address", wit);
                                    }
                                    l.outcome(&format!("stub:{class}"));
                                }
                                by_n.push((nn, runs[0].0, runs[0].1.clone(), runs[1].0));
                            }
                            if shape == 0 || ttl == 0 {
                                stub.insert(
                                    format!("{} loop={is_loop} per_response={per} preserve={preserve} ttl={ttl}", STUB_SHAPES[shape]),
                                    json!(by_n.iter().map(|(n, c, k, c2)| format!("{n}:{c}:{k}:{c2}")).collect::<Vec<_>>().join(" ")),
                                );
                            }
                        }
                    }
                }
            }
        }
        ctx.set("stub_measured", Value::Object(stub));
    });

    for class in ["construction-path-probe", "cache-size-boundary-case", "second-step-query-for-a-touched-name", "warm-answer-subset-of-cold", "filter-configuration-case", "hostile-root-case", "mode:append+aa-flipped", "mode:reown-genuine-records-to-victim", "warm-cache-main-query", "hostile-server-contacted", "followup-equals-honest", "plateau-checked", "selftest:replayed-identically", "stub:error", "stub:answer", "main:answer", "main:nxdomain", "main:nodata"] {
        if ctx.outcome_count(class) == 0 {
            ctx.machinery_failure(&format!("vacuous run: outcome class '{class}' was never exercised"));
        }
    }
    ctx.finish(true);
}
