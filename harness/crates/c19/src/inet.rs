//! The simulated internet of the C19 check: a zone graph (root, TLDs, leaves, optional chain
//! zones), authoritative servers answering from it like RFC 1034 4.3.2 servers do, lame server
//! kinds, one hostile zone whose servers add an injected record bundle to every response, and a
//! `ConnectionProvider` that lets the real `Recursor` talk to all of that under the paused clock
//! while recording every (server ip, question) pair.

use std::future::Future;
use std::net::{IpAddr, Ipv4Addr};
use std::pin::Pin;
use std::str::FromStr;
use std::sync::{Arc, Mutex};
use std::time::Duration;

use futures_util::{stream, Stream};
use hickory_net::runtime::TokioRuntimeProvider;
use hickory_net::xfer::DnsHandle;
use hickory_net::NetError;
use hickory_proto::op::{DnsRequest, DnsResponse, Message, MessageType, OpCode, Query, ResponseCode};
use hickory_proto::rr::rdata::{A, CNAME, NS, SOA};
use hickory_proto::rr::{Name, RData, Record, RecordType};
use hickory_resolver::config::ConnectionConfig;
use hickory_resolver::{ConnectionProvider, PoolContext};

pub fn n(s: &str) -> Name {
    Name::from_str(s).unwrap()
}

pub const TTL: u32 = 300;

pub fn rec_a(owner: &Name, ip: Ipv4Addr) -> Record {
    Record::from_rdata(owner.clone(), TTL, RData::A(A(ip)))
}
pub fn rec_ns(owner: &Name, target: &Name) -> Record {
    Record::from_rdata(owner.clone(), TTL, RData::NS(NS(target.clone())))
}
pub fn rec_cname(owner: &Name, target: &Name) -> Record {
    Record::from_rdata(owner.clone(), TTL, RData::CNAME(CNAME(target.clone())))
}
pub fn rec_soa(zone: &Name) -> Record {
    Record::from_rdata(
        zone.clone(),
        60,
        RData::SOA(SOA::new(n("soa-mname.invalid."), n("h.invalid."), 1, 60, 60, 60, 60)),
    )
}

/// Address classes.
pub fn is_marker(ip: IpAddr) -> bool {
    matches!(ip, IpAddr::V4(v) if v.octets()[..3] == [6, 6, 6])
}
pub fn is_denied_server(ip: IpAddr) -> bool {
    matches!(ip, IpAddr::V4(v) if v.octets()[..3] == [6, 6, 7])
}
pub fn is_denied_answer(ip: IpAddr) -> bool {
    matches!(ip, IpAddr::V4(v) if v.octets()[..3] == [6, 6, 8])
}

#[derive(Clone, Copy, Debug, PartialEq, Eq, Hash)]
pub enum Lame {
    None,
    Refused,
    /// referral to the root for everything
    UpwardReferral,
    /// referral to its own zone (NS set of the zone it is asked about, no answer)
    SelfReferral,
    /// NOERROR, no records at all
    Empty,
    Timeout,
}

#[derive(Clone, Debug)]
pub struct Zone {
    pub name: Name,
    pub parent: Option<usize>,
    /// indices into `Internet::servers`
    pub servers: Vec<usize>,
    pub ns_names: Vec<Name>,
    /// does the parent's referral carry glue for NS names at or below this zone?
    pub glue: bool,
    /// authoritative records other than SOA / apex NS
    pub records: Vec<Record>,
}

#[derive(Clone, Debug)]
pub struct Server {
    pub ip: Ipv4Addr,
    pub zones: Vec<usize>,
    pub lame: Lame,
}

/// What the servers of the hostile zone add to **every** response they send.
#[derive(Clone, Debug, Default)]
pub struct Injection {
    pub answers: Vec<Record>,
    pub authorities: Vec<Record>,
    pub additionals: Vec<Record>,
}

#[derive(Clone, Debug)]
pub struct Internet {
    pub zones: Vec<Zone>,
    pub servers: Vec<Server>,
    /// authoritative servers add the in-zone targets of a CNAME they answer with
    pub chase_in_zone: bool,
    /// every name is a delegation to the same servers below this zone ("infinite delegation")
    pub deep_delegation: Option<usize>,
    pub hostile_zone: Option<usize>,
    pub injection: Injection,
    /// how the hostile servers treat the genuine response before adding the injection:
    /// 0 keep it; 1 drop its records (NOERROR, AA); 2 drop its records and say NXDOMAIN;
    /// 3 keep it but flip the AA bit; 4 keep it but re-own its records (see `reown`)
    pub hostile_mode: u8,
    /// (new owner for answer records owned by the question name, new owner for authority NS records)
    pub reown: Option<(Name, Name)>,
}

impl Internet {
    /// The deepest zone of the graph whose apex is an ancestor-or-self of `name`.
    pub fn owning_zone(&self, name: &Name) -> usize {
        let mut best = 0;
        let mut best_labels = -1i32;
        for (i, z) in self.zones.iter().enumerate() {
            if z.name.zone_of(name) && z.name.num_labels() as i32 > best_labels {
                best = i;
                best_labels = z.name.num_labels() as i32;
            }
        }
        best
    }

    pub fn server_by_ip(&self, ip: IpAddr) -> Option<usize> {
        self.servers.iter().position(|s| IpAddr::V4(s.ip) == ip)
    }

    /// All published records: zone data, apex NS sets and SOAs (the ground truth of the oracle).
    pub fn published(&self) -> Vec<Record> {
        let mut out = vec![];
        for z in &self.zones {
            out.push(rec_soa(&z.name));
            for t in &z.ns_names {
                out.push(rec_ns(&z.name, t));
            }
            out.extend(z.records.iter().cloned());
        }
        out
    }

    pub fn is_published(&self, r: &Record) -> bool {
        self.published().iter().any(|p| p.name == r.name && p.record_type() == r.record_type() && p.data == r.data)
    }

    fn zone_records<'a>(&'a self, z: usize, owner: &'a Name) -> impl Iterator<Item = &'a Record> + 'a {
        self.zones[z].records.iter().filter(move |r| &r.name == owner)
    }

    /// Address records published anywhere for `name` that server `srv` is authoritative for.
    fn local_addresses(&self, srv: usize, name: &Name) -> Vec<Record> {
        let mut out = vec![];
        for &z in &self.servers[srv].zones {
            if self.owning_zone_among(&self.servers[srv].zones, name) == Some(z) {
                out.extend(self.zone_records(z, name).filter(|r| r.record_type() == RecordType::A).cloned());
            }
        }
        out
    }

    fn owning_zone_among(&self, zones: &[usize], name: &Name) -> Option<usize> {
        zones
            .iter()
            .copied()
            .filter(|z| self.zones[*z].name.zone_of(name))
            .max_by_key(|z| self.zones[*z].name.num_labels())
    }

    /// The response of server `srv` to question `q` (before any injection).
    pub fn answer(&self, srv: usize, q: &Query) -> Option<Message> {
        let server = &self.servers[srv];
        let mut m = Message::new(0, MessageType::Response, OpCode::Query);
        m.add_query(q.clone());
        match server.lame {
            Lame::None => {}
            Lame::Refused => {
                m.metadata.response_code = ResponseCode::Refused;
                return Some(m);
            }
            Lame::UpwardReferral => {
                let root = &self.zones[0];
                for t in &root.ns_names {
                    m.add_authority(rec_ns(&root.name, t));
                }
                return Some(m);
            }
            Lame::SelfReferral => {
                if let Some(z) = self.owning_zone_among(&server.zones, &q.name) {
                    for t in &self.zones[z].ns_names {
                        m.add_authority(rec_ns(&self.zones[z].name, t));
                    }
                }
                return Some(m);
            }
            Lame::Empty => return Some(m),
            Lame::Timeout => return None,
        }
        let Some(z) = self.owning_zone_among(&server.zones, &q.name) else {
            m.metadata.response_code = ResponseCode::Refused;
            return Some(m);
        };
        let zone = &self.zones[z];

        // "infinite delegation": every name below the apex is a zone cut served by the same hosts
        if self.deep_delegation == Some(z) && q.name != zone.name && !zone.records.iter().any(|r| r.name == q.name) {
            if q.query_type == RecordType::NS {
                m.metadata.authoritative = true;
                for t in &zone.ns_names {
                    m.add_answer(rec_ns(&q.name, t));
                    for a in self.local_addresses(srv, t) {
                        m.add_additional(a);
                    }
                }
            } else {
                m.metadata.authoritative = true;
                m.add_answer(rec_a(&q.name, Ipv4Addr::new(12, 9, 9, 9)));
            }
            return Some(m);
        }

        // below a cut of this zone?  -> referral (unless this server also serves the child)
        let child = self
            .zones
            .iter()
            .enumerate()
            .filter(|(_, c)| c.parent == Some(z) && c.name.zone_of(&q.name))
            .max_by_key(|(_, c)| c.name.num_labels());
        if let Some((ci, c)) = child {
            if !server.zones.contains(&ci) {
                for t in &c.ns_names {
                    m.add_authority(rec_ns(&c.name, t));
                }
                for t in &c.ns_names {
                    // glue for names in the child's bailiwick if the delegation carries glue; and
                    // what this server knows authoritatively anyway
                    if c.name.zone_of(t) {
                        if c.glue {
                            let oz = self.owning_zone(t);
                            for a in self.zone_records(oz, t).filter(|r| r.record_type() == RecordType::A) {
                                m.add_additional(a.clone());
                            }
                        }
                    } else {
                        for a in self.local_addresses(srv, t) {
                            m.add_additional(a);
                        }
                    }
                }
                return Some(m);
            }
        }

        // authoritative data
        m.metadata.authoritative = true;
        let mut owner = q.name.clone();
        let mut hops = 0;
        loop {
            if owner == zone.name && q.query_type == RecordType::NS {
                for t in &zone.ns_names {
                    m.add_answer(rec_ns(&zone.name, t));
                    for a in self.local_addresses(srv, t) {
                        m.add_additional(a);
                    }
                }
                return Some(m);
            }
            if owner == zone.name && q.query_type == RecordType::SOA {
                m.add_answer(rec_soa(&zone.name));
                return Some(m);
            }
            let here: Vec<&Record> = self.zone_records(z, &owner).collect();
            let exact: Vec<&Record> = here.iter().copied().filter(|r| r.record_type() == q.query_type).collect();
            if !exact.is_empty() {
                for r in exact {
                    m.add_answer(r.clone());
                }
                return Some(m);
            }
            let cname = here.iter().copied().find(|r| r.record_type() == RecordType::CNAME);
            if let (Some(c), true) = (cname, q.query_type != RecordType::CNAME) {
                m.add_answer(c.clone());
                let RData::CNAME(CNAME(target)) = &c.data else { unreachable!() };
                hops += 1;
                if self.chase_in_zone && hops < 100 && self.owning_zone_among(&server.zones, target) == Some(z) && !self.below_cut(z, target) {
                    owner = target.clone();
                    continue;
                }
                return Some(m);
            }
            // negative
            let exists = owner == zone.name || !here.is_empty() || zone.records.iter().any(|r| owner.zone_of(&r.name)) || self.zones.iter().any(|c| c.parent == Some(z) && owner.zone_of(&c.name));
            if !exists && m.answers.is_empty() {
                m.metadata.response_code = ResponseCode::NXDomain;
            }
            m.add_authority(rec_soa(&zone.name));
            return Some(m);
        }
    }

    fn below_cut(&self, z: usize, name: &Name) -> bool {
        self.zones.iter().any(|c| c.parent == Some(z) && c.name.zone_of(name))
    }

    pub fn respond(&self, ip: IpAddr, q: &Query) -> Option<Message> {
        if is_marker(ip) || is_denied_server(ip) {
            // the attacker's box: answers everything, authoritatively, with marker data
            let mut m = Message::new(0, MessageType::Response, OpCode::Query);
            m.add_query(q.clone());
            m.metadata.authoritative = true;
            match q.query_type {
                RecordType::NS => m.add_answer(rec_ns(&q.name, &n("evil.invalid."))),
                _ => m.add_answer(rec_a(&q.name, Ipv4Addr::new(6, 6, 6, 66))),
            };
            return Some(m);
        }
        let Some(srv) = self.server_by_ip(ip) else {
            let mut m = Message::new(0, MessageType::Response, OpCode::Query);
            m.add_query(q.clone());
            m.metadata.response_code = ResponseCode::Refused;
            return Some(m);
        };
        let mut m = self.answer(srv, q)?;
        if let Some(hz) = self.hostile_zone {
            if self.servers[srv].zones.contains(&hz) {
                match self.hostile_mode {
                    1 | 2 => {
                        m.answers.clear();
                        m.authorities.clear();
                        m.additionals.clear();
                        m.metadata.authoritative = true;
                        m.metadata.response_code = if self.hostile_mode == 2 { ResponseCode::NXDomain } else { ResponseCode::NoError };
                    }
                    3 => m.metadata.authoritative = !m.metadata.authoritative,
                    4 => {
                        if let Some((ans_owner, ns_owner)) = &self.reown {
                            for r in m.answers.iter_mut() {
                                if r.name == q.name {
                                    r.name = ans_owner.clone();
                                }
                            }
                            for r in m.authorities.iter_mut() {
                                if r.record_type() == RecordType::NS {
                                    r.name = ns_owner.clone();
                                }
                            }
                        }
                    }
                    _ => {}
                }
                for r in &self.injection.answers {
                    m.add_answer(r.clone());
                }
                for r in &self.injection.authorities {
                    m.add_authority(r.clone());
                }
                for r in &self.injection.additionals {
                    m.add_additional(r.clone());
                }
            }
        }
        Some(m)
    }
}

// ------------------------------------------------------------------------------------------
// the network seam

#[derive(Clone, Debug, PartialEq, Eq, PartialOrd, Ord)]
pub struct Exchange {
    pub ip: IpAddr,
    pub qname: String,
    pub qtype: String,
}

pub struct NetState {
    pub log: Vec<Exchange>,
    /// EDNS payload sizes seen in requests, and whether any request name had an upper-case letter
    pub payloads: std::collections::BTreeSet<u16>,
    pub saw_upper: bool,
    /// letters seen in request names (a randomised name of few letters may be all lower case)
    pub letters: usize,
}

#[derive(Clone)]
pub struct Net {
    pub inet: Arc<Internet>,
    pub state: Arc<Mutex<NetState>>,
    pub timeout: Duration,
    rt: TokioRuntimeProvider,
}

impl Net {
    pub fn new(inet: Arc<Internet>, timeout: Duration) -> Net {
        Net { inet, state: Arc::new(Mutex::new(NetState { log: vec![], payloads: Default::default(), saw_upper: false, letters: 0 })), timeout, rt: TokioRuntimeProvider::new() }
    }
    pub fn exchanges(&self) -> usize {
        self.state.lock().unwrap().log.len()
    }
    pub fn log(&self) -> Vec<Exchange> {
        self.state.lock().unwrap().log.clone()
    }
}

#[derive(Clone)]
pub struct Conn {
    net: Net,
    ip: IpAddr,
}

impl DnsHandle for Conn {
    type Response = Pin<Box<dyn Stream<Item = Result<DnsResponse, NetError>> + Send>>;
    type Runtime = TokioRuntimeProvider;

    fn send(&self, request: DnsRequest) -> Self::Response {
        let q = request.queries[0].clone();
        // the recursor may randomise case; the simulated servers are case-insensitive
        let ql = Query::new(q.name.to_lowercase(), q.query_type);
        {
            let mut st = self.net.state.lock().unwrap();
            st.log.push(Exchange { ip: self.ip, qname: ql.name.to_ascii(), qtype: ql.query_type.to_string() });
            st.payloads.insert(request.max_payload());
            st.letters += q.name.to_ascii().chars().filter(|c| c.is_ascii_alphabetic()).count();
            if q.name.to_ascii().chars().any(|c| c.is_ascii_uppercase()) {
                st.saw_upper = true;
            }
        }
        let resp = self.net.inet.respond(self.ip, &ql);
        let id = request.id;
        let timeout = self.net.timeout;
        Box::pin(stream::once(async move {
            match resp {
                None => {
                    tokio::time::sleep(timeout).await;
                    Err(NetError::Timeout)
                }
                Some(mut m) => {
                    tokio::time::sleep(Duration::from_millis(5)).await;
                    m.metadata.id = id;
                    // echo the question exactly as asked
                    m.queries.clear();
                    m.add_query(q);
                    DnsResponse::from_message(m).map_err(NetError::from)
                }
            }
        }))
    }
}

impl ConnectionProvider for Net {
    type Conn = Conn;
    type FutureConn = Pin<Box<dyn Future<Output = Result<Conn, NetError>> + Send>>;
    type RuntimeProvider = TokioRuntimeProvider;

    fn new_connection(&self, ip: IpAddr, _config: &ConnectionConfig, _cx: &PoolContext) -> Result<Self::FutureConn, NetError> {
        let net = self.clone();
        Ok(Box::pin(async move { Ok(Conn { net, ip }) }))
    }
    fn runtime_provider(&self) -> &TokioRuntimeProvider {
        &self.rt
    }
}
