//! Family (vi): the pool driven through hickory's STOCK `ConnectionProvider` implementation
//! (`impl<P: RuntimeProvider> ConnectionProvider for P`, resolver/src/connection_provider.rs) over
//! a simulated `RuntimeProvider`: virtual time, scripted `connect_tcp` / `bind_udp`, simulated TCP
//! byte streams and UDP sockets. Inside the explored system are then connection_provider.rs, the
//! real `UdpClientStream` (its timeout and retransmissions), `TcpClientStream::exchange`, the real
//! `DnsMultiplexer` (request timeout, ids) and `DnsExchange`.
//!
//! The simulated servers speak real DNS wire format: a request is decoded, the response is a real
//! encoded message (two-byte length framing over TCP).

use std::collections::VecDeque;
use std::future::Future;
use std::io;
use std::net::{IpAddr, SocketAddr};
use std::pin::Pin;
use std::sync::{Arc, Mutex};
use std::task::{Context, Poll, Waker};
use std::time::Duration;

use futures_io::{AsyncRead, AsyncWrite};
use hickory_net::runtime::{DnsTcpStream, DnsUdpSocket, RuntimeProvider, TokioHandle, TokioRuntimeProvider, TokioTime};
use hickory_proto::op::{Message, MessageType, OpCode};
use hickory_proto::rr::rdata::A;
use hickory_proto::rr::{RData, Record};
use serde_json::{json, Value};

use crate::net::{server_of, tag_of, Ev};

/// How a simulated server treats a TCP connection attempt.
#[derive(Clone, Copy, Debug, PartialEq, Eq)]
pub enum Conn {
    /// SYN-ACK after `ms`
    After(u64),
    /// no reaction at all: only the connect timeout ends the attempt
    BlackHole,
    /// RST after 4 ms
    Refused,
}

/// How a simulated server treats a request: answers after `Some(ms)`, or never.
pub type Reply = Option<u64>;

#[derive(Clone, Debug, PartialEq, Eq)]
pub struct StockSrv {
    /// 0 = UDP only, 1 = TCP only, 2 = UDP + TCP where every UDP reply is truncated (after 10 ms)
    pub proto: u8,
    /// UDP (proto 0): the answer delay
    pub udp_reply: Reply,
    pub conn: Conn,
    /// TCP: the answer delay
    pub tcp_reply: Reply,
    /// the port the server listens on (requests to another port are lost / refused)
    pub port: u16,
    /// answers NXDOMAIN instead of the address record
    pub nx: bool,
}

impl StockSrv {
    pub fn to_json(&self) -> Value {
        let proto = ["udp-only", "tcp-only", "udp(truncates)+tcp"][self.proto as usize];
        json!({
            "proto": proto,
            "udp_reply_ms": self.udp_reply,
            "connect": match self.conn { Conn::After(d) => json!({"after_ms": d}), Conn::BlackHole => json!("black-hole"), Conn::Refused => json!("refused") },
            "tcp_reply_ms": self.tcp_reply,
            "port": self.port,
            "nx": self.nx,
        })
    }
    pub fn from_json(v: &Value) -> StockSrv {
        StockSrv {
            proto: match v["proto"].as_str() {
                Some("udp-only") => 0,
                Some("tcp-only") => 1,
                _ => 2,
            },
            udp_reply: v["udp_reply_ms"].as_u64(),
            conn: if let Some(d) = v["connect"]["after_ms"].as_u64() {
                Conn::After(d)
            } else if v["connect"].as_str() == Some("black-hole") {
                Conn::BlackHole
            } else {
                Conn::Refused
            },
            tcp_reply: v["tcp_reply_ms"].as_u64(),
            port: v["port"].as_u64().unwrap_or(53) as u16,
            nx: v["nx"].as_bool().unwrap_or(false),
        }
    }
}

pub struct St {
    pub t0: tokio::time::Instant,
    pub servers: Vec<StockSrv>,
    pub log: Vec<Ev>,
    serial: u64,
    pub owner: u16,
    /// the timeout values `connect_tcp` was called with (ms), for the witness
    pub connect_timeouts_seen: Vec<Option<u64>>,
    /// per request seen by a server: (server, over tcp, carries EDNS, name has an upper-case letter, port)
    pub requests_seen: Vec<(usize, bool, bool, bool, u16)>,
    /// the local addresses sockets were asked to bind to / connect from
    pub binds_seen: Vec<Option<SocketAddr>>,
}

#[derive(Clone)]
pub struct SimRt {
    pub st: Arc<Mutex<St>>,
    inner: TokioRuntimeProvider,
}

impl SimRt {
    pub fn new(servers: Vec<StockSrv>) -> SimRt {
        SimRt {
            st: Arc::new(Mutex::new(St { t0: tokio::time::Instant::now(), servers, log: vec![], serial: 0, owner: 1, connect_timeouts_seen: vec![], requests_seen: vec![], binds_seen: vec![] })),
            inner: TokioRuntimeProvider::new(),
        }
    }
    pub fn ms(&self) -> u64 {
        now_ms(&self.st)
    }
}

fn now_ms(st: &Arc<Mutex<St>>) -> u64 {
    let t0 = st.lock().unwrap().t0;
    tokio::time::Instant::now().saturating_duration_since(t0).as_millis() as u64
}

fn log_start(st: &Arc<Mutex<St>>, connect: bool, srv: usize, tcp: bool, tag: u8, step: String) -> u64 {
    let now = now_ms(st);
    let mut g = st.lock().unwrap();
    g.serial += 1;
    let serial = g.serial;
    let owner = g.owner;
    let k = g.log.iter().filter(|e| e.connect == connect && e.srv == srv && e.tcp == tcp).count();
    g.log.push(Ev { serial, owner: if connect { 0 } else { owner }, connect, srv, tcp, tag: if connect { 255 } else { tag }, k, start: now, end: None, step });
    serial
}

fn log_end(st: &Arc<Mutex<St>>, serial: u64) {
    let now = now_ms(st);
    let mut g = st.lock().unwrap();
    if let Some(e) = g.log.iter_mut().rev().find(|e| e.serial == serial) {
        e.end = Some(now);
    }
}

/// The server's response to the request bytes (None: the bytes are not a DNS query).
fn respond(st: &Arc<Mutex<St>>, port: u16, request: &[u8], srv: usize, tcp: bool, truncated: bool) -> Option<(Vec<u8>, u8)> {
    let req = Message::from_vec(request).ok()?;
    let q = req.queries.first()?.clone();
    let nx = {
        let mut g = st.lock().unwrap();
        let upper = q.name.to_ascii().chars().any(|c| c.is_ascii_uppercase());
        g.requests_seen.push((srv, tcp, req.edns.is_some(), upper, port));
        g.servers.get(srv).map(|s| s.nx).unwrap_or(false)
    };
    let tag = tag_of(&q.name);
    let mut m = Message::new(req.metadata.id, MessageType::Response, OpCode::Query);
    m.metadata.recursion_desired = req.metadata.recursion_desired;
    m.metadata.recursion_available = true;
    // the question exactly as asked (case included)
    m.add_query(q.clone());
    if truncated {
        m.metadata.truncation = true;
    } else if nx {
        m.metadata.response_code = hickory_proto::op::ResponseCode::NXDomain;
    } else {
        m.add_answer(Record::from_rdata(q.name.clone(), 60, RData::A(A::new(10, tcp as u8, tag, srv as u8 + 1))));
    }
    Some((m.to_vec().ok()?, tag))
}

// ------------------------------------------------------------------------------------------
// TCP

struct TcpSt {
    wbuf: Vec<u8>,
    /// (due, framed response bytes, log serial)
    inbound: VecDeque<(tokio::time::Instant, Vec<u8>, u64)>,
    rbuf: VecDeque<u8>,
    sleep: Option<Pin<Box<tokio::time::Sleep>>>,
    waker: Option<Waker>,
}

pub struct SimTcp {
    st: Arc<Mutex<St>>,
    srv: usize,
    port: u16,
    c: Mutex<TcpSt>,
}

impl DnsTcpStream for SimTcp {
    type Time = TokioTime;
}

impl AsyncWrite for SimTcp {
    fn poll_write(self: Pin<&mut Self>, _cx: &mut Context<'_>, buf: &[u8]) -> Poll<io::Result<usize>> {
        let reply = self.st.lock().unwrap().servers[self.srv].tcp_reply;
        let mut c = self.c.lock().unwrap();
        c.wbuf.extend_from_slice(buf);
        loop {
            if c.wbuf.len() < 2 {
                break;
            }
            let len = u16::from_be_bytes([c.wbuf[0], c.wbuf[1]]) as usize;
            if c.wbuf.len() < 2 + len {
                break;
            }
            let frame: Vec<u8> = c.wbuf[2..2 + len].to_vec();
            c.wbuf.drain(..2 + len);
            let Some((bytes, tag)) = respond(&self.st, self.port, &frame, self.srv, true, false) else { continue };
            match reply {
                Some(d) => {
                    let serial = log_start(&self.st, false, self.srv, true, tag, format!("answer:{d}"));
                    let mut framed = (bytes.len() as u16).to_be_bytes().to_vec();
                    framed.extend(bytes);
                    c.inbound.push_back((tokio::time::Instant::now() + Duration::from_millis(d), framed, serial));
                }
                None => {
                    log_start(&self.st, false, self.srv, true, tag, "silent".into());
                }
            }
        }
        c.sleep = None;
        if let Some(w) = c.waker.take() {
            w.wake();
        }
        Poll::Ready(Ok(buf.len()))
    }
    fn poll_flush(self: Pin<&mut Self>, _cx: &mut Context<'_>) -> Poll<io::Result<()>> {
        Poll::Ready(Ok(()))
    }
    fn poll_close(self: Pin<&mut Self>, _cx: &mut Context<'_>) -> Poll<io::Result<()>> {
        Poll::Ready(Ok(()))
    }
}

impl AsyncRead for SimTcp {
    fn poll_read(self: Pin<&mut Self>, cx: &mut Context<'_>, buf: &mut [u8]) -> Poll<io::Result<usize>> {
        let mut c = self.c.lock().unwrap();
        let c = &mut *c;
        loop {
            if !c.rbuf.is_empty() {
                let n = buf.len().min(c.rbuf.len());
                for b in buf.iter_mut().take(n) {
                    *b = c.rbuf.pop_front().unwrap();
                }
                return Poll::Ready(Ok(n));
            }
            match c.inbound.front() {
                Some((due, _, _)) if *due <= tokio::time::Instant::now() => {
                    let (_, bytes, serial) = c.inbound.pop_front().unwrap();
                    log_end(&self.st, serial);
                    c.rbuf.extend(bytes);
                    c.sleep = None;
                }
                Some((due, _, _)) => {
                    let due = *due;
                    let sl = c.sleep.get_or_insert_with(|| Box::pin(tokio::time::sleep_until(due)));
                    if sl.as_mut().poll(cx).is_pending() {
                        c.waker = Some(cx.waker().clone());
                        return Poll::Pending;
                    }
                    c.sleep = None;
                }
                None => {
                    c.waker = Some(cx.waker().clone());
                    return Poll::Pending;
                }
            }
        }
    }
}

// ------------------------------------------------------------------------------------------
// UDP

struct UdpSt {
    inbound: VecDeque<(tokio::time::Instant, Vec<u8>, SocketAddr, u64)>,
    sleep: Option<Pin<Box<tokio::time::Sleep>>>,
    waker: Option<Waker>,
}

pub struct SimUdp {
    st: Arc<Mutex<St>>,
    c: Mutex<UdpSt>,
}

impl DnsUdpSocket for SimUdp {
    type Time = TokioTime;

    fn poll_recv_from(&self, cx: &mut Context<'_>, buf: &mut [u8]) -> Poll<io::Result<(usize, SocketAddr)>> {
        let mut c = self.c.lock().unwrap();
        let c = &mut *c;
        loop {
            match c.inbound.front() {
                Some((due, _, _, _)) if *due <= tokio::time::Instant::now() => {
                    let (_, bytes, src, serial) = c.inbound.pop_front().unwrap();
                    log_end(&self.st, serial);
                    c.sleep = None;
                    let n = bytes.len().min(buf.len());
                    buf[..n].copy_from_slice(&bytes[..n]);
                    return Poll::Ready(Ok((n, src)));
                }
                Some((due, _, _, _)) => {
                    let due = *due;
                    let sl = c.sleep.get_or_insert_with(|| Box::pin(tokio::time::sleep_until(due)));
                    if sl.as_mut().poll(cx).is_pending() {
                        c.waker = Some(cx.waker().clone());
                        return Poll::Pending;
                    }
                    c.sleep = None;
                }
                None => {
                    c.waker = Some(cx.waker().clone());
                    return Poll::Pending;
                }
            }
        }
    }

    fn poll_send_to(&self, _cx: &mut Context<'_>, buf: &[u8], target: SocketAddr) -> Poll<io::Result<usize>> {
        let srv = server_of(target.ip());
        let cfg = self.st.lock().unwrap().servers.get(srv).cloned();
        let Some(cfg) = cfg else { return Poll::Ready(Ok(buf.len())) };
        // a datagram to a port nobody listens on, or to a TCP-only server, is lost
        let listening = cfg.port == target.port() && cfg.proto != 1;
        let truncates = cfg.proto == 2;
        let reply: Reply = if truncates { Some(10) } else { cfg.udp_reply };
        if let Some((bytes, tag)) = respond(&self.st, target.port(), buf, srv, false, truncates) {
            let mut c = self.c.lock().unwrap();
            match reply {
                Some(d) if listening => {
                    let serial = log_start(&self.st, false, srv, false, tag, if truncates { format!("truncated:{d}") } else { format!("answer:{d}") });
                    c.inbound.push_back((tokio::time::Instant::now() + Duration::from_millis(d), bytes, target, serial));
                }
                _ => {
                    log_start(&self.st, false, srv, false, tag, "silent".into());
                }
            }
            c.sleep = None;
            if let Some(w) = c.waker.take() {
                w.wake();
            }
        }
        Poll::Ready(Ok(buf.len()))
    }
}

// ------------------------------------------------------------------------------------------

impl RuntimeProvider for SimRt {
    type Handle = TokioHandle;
    type Timer = TokioTime;
    type Udp = SimUdp;
    type Tcp = SimTcp;

    fn create_handle(&self) -> TokioHandle {
        self.inner.create_handle()
    }

    fn connect_tcp(&self, server_addr: SocketAddr, bind_addr: Option<SocketAddr>, timeout: Option<Duration>) -> Pin<Box<dyn Send + Future<Output = io::Result<SimTcp>>>> {
        let st = self.st.clone();
        st.lock().unwrap().binds_seen.push(bind_addr);
        let srv = server_of(server_addr.ip());
        let cfg = st.lock().unwrap().servers.get(srv).cloned();
        st.lock().unwrap().connect_timeouts_seen.push(timeout.map(|t| t.as_millis() as u64));
        Box::pin(async move {
            let Some(cfg) = cfg else { return Err(io::Error::new(io::ErrorKind::ConnectionRefused, "no such host")) };
            // nobody listens on another port or on a UDP-only server: RST
            let conn = if cfg.port != server_addr.port() || cfg.proto == 0 { Conn::Refused } else { cfg.conn };
            let serial = log_start(&st, true, srv, true, 255, "pending".into());
            let work = async {
                match conn {
                    Conn::After(d) => {
                        tokio::time::sleep(Duration::from_millis(d)).await;
                        Ok(())
                    }
                    Conn::BlackHole => std::future::pending::<io::Result<()>>().await,
                    Conn::Refused => {
                        tokio::time::sleep(Duration::from_millis(4)).await;
                        Err(io::Error::new(io::ErrorKind::ConnectionRefused, "connection refused"))
                    }
                }
            };
            // the documented contract of `connect_tcp`: the attempt is bounded by `timeout`
            let r = match timeout {
                Some(t) => match tokio::time::timeout(t, work).await {
                    Ok(r) => r,
                    Err(_) => Err(io::Error::new(io::ErrorKind::TimedOut, "connect timed out")),
                },
                None => work.await,
            };
            {
                let now = now_ms(&st);
                let mut g = st.lock().unwrap();
                if let Some(e) = g.log.iter_mut().rev().find(|e| e.serial == serial) {
                    e.end = Some(now);
                    e.step = match &r {
                        Ok(()) => "ok".into(),
                        Err(x) if x.kind() == io::ErrorKind::TimedOut => format!("timeout:{}", now - e.start),
                        Err(_) => "refused:4".into(),
                    };
                }
            }
            r.map(|()| SimTcp { st: st.clone(), srv, port: server_addr.port(), c: Mutex::new(TcpSt { wbuf: vec![], inbound: VecDeque::new(), rbuf: VecDeque::new(), sleep: None, waker: None }) })
        })
    }

    fn bind_udp(&self, local_addr: SocketAddr, _server_addr: SocketAddr) -> Pin<Box<dyn Send + Future<Output = io::Result<SimUdp>>>> {
        let st = self.st.clone();
        st.lock().unwrap().binds_seen.push(Some(local_addr));
        Box::pin(async move { Ok(SimUdp { st, c: Mutex::new(UdpSt { inbound: VecDeque::new(), sleep: None, waker: None }) }) })
    }
}

pub fn server_addr(srv: usize, port: u16) -> SocketAddr {
    SocketAddr::new(IpAddr::from([192, 0, 2, srv as u8 + 1]), port)
}
