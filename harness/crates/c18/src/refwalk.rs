//! Reference pool walk for C18 — written from the property statement and the pool's *documented*
//! search procedure, sharing no code with hickory:
//!
//! * servers are tried in strategy order, in batches of `max(num_concurrent_reqs, 1)`; the next
//!   batch starts when every member of the current one has failed;
//! * the first definitive response (an answer, NODATA, or an NXDOMAIN of a server trusted for
//!   negative answers) ends the search;
//! * a truncated UDP reply puts the server back at the head of the queue to be asked over TCP;
//! * an NXDOMAIN of an untrusted server, an I/O error and a timeout let the search continue;
//! * busy servers are retried after the other servers, after a back-off of 20 ms doubling per
//!   round, as long as the back-off is below 300 ms;
//! * nothing is started at or after `start + timeout`;
//! * a TCP connection that answered stays open and is used again by a later lookup; one that
//!   failed is replaced by a new one; one that the server closed after answering (while idle) is
//!   still held by the pool: hickory's own connection handle then reports back-pressure (`Busy`) at
//!   once, the connection is dropped and the server retried after the back-off on a new connection
//!   (the server is healthy: the lookup has to recover).
//!
//! The walk answers one question only: *does the time budget allow a definitive response?* Where
//! the documentation leaves a choice open the caller walks every admissible variant (server order
//! under RoundRobin / QueryStatistics, whether "avoid UDP" after a truncated reply also applies to
//! the other servers, whether a reset connection is re-established once) and demands a definitive
//! result only if **every** variant reaches one strictly before the deadline.

use std::collections::{BTreeMap, VecDeque};

use crate::net::{ConnStep, Srv, Step};

#[derive(Clone, Copy, Debug, PartialEq, Eq)]
pub enum WalkOut {
    /// a definitive response arrives at this offset (ms)
    Definitive(u64),
    /// the search ends without one (or passes the deadline)
    Nothing,
    /// the walk met a behaviour outside the statement's fault class: nothing is demanded
    Unjudged,
}

#[derive(Clone, Copy, Debug, PartialEq, Eq)]
enum Out {
    Definitive,
    RetryTcp,
    Busy,
    Fail,
    Unjudged,
}

pub struct Variant {
    pub persist_udp_off: bool,
    /// bit i: the i-th connection reset met by the walk is followed by one immediate re-attempt on
    /// a new connection (what a client does for a *reused* connection the peer had closed)
    pub reset_retry_mask: u32,
    /// i-th entry: at the i-th attempt made while the pool holds a usable TCP connection to the
    /// server and UDP is still allowed, the request goes over that connection (which protocol is
    /// used when an established connection exists is not specified); missing entries = UDP
    pub open_tcp_choices: Vec<bool>,
}

/// Returns the outcome and the number of open-TCP choice points met.
pub fn walk(servers: &[Srv], order: &[usize], conc: usize, t_ms: u64, v: &Variant, alive0: &[u8]) -> (WalkOut, usize) {
    let mut choice_points = 0usize;
    let out = walk_inner(servers, order, conc, t_ms, v, alive0, &mut choice_points);
    (out, choice_points)
}

fn walk_inner(servers: &[Srv], order: &[usize], conc: usize, t_ms: u64, v: &Variant, alive0: &[u8], choice_points: &mut usize) -> WalkOut {
    let mut t: u64 = 0;
    let mut queue: VecDeque<usize> = order.iter().copied().collect();
    let mut busy: Vec<usize> = vec![];
    let mut backoff: u64 = 20;
    let mut udp_off_all = false;
    let mut udp_off = vec![false; servers.len()];
    let mut cnt: BTreeMap<(usize, bool), usize> = BTreeMap::new();
    let mut ccnt: BTreeMap<usize, usize> = BTreeMap::new();
    let mut resets_seen: u32 = 0;
    // does the pool hold a usable (established, not yet failed) TCP connection to the server?
    // 0 = none, 1 = open, 2 = still held by the pool although the server closed it while idle
    let mut alive: Vec<u8> = (0..servers.len()).map(|i| alive0.get(i).copied().unwrap_or(0)).collect();
    let mut rounds = 0;

    loop {
        rounds += 1;
        if t >= t_ms || rounds > 10_000 {
            return WalkOut::Nothing;
        }
        let allowed = |s: usize, udp_off_all: bool, udp_off: &Vec<bool>| !(udp_off_all || udp_off[s]) || servers[s].tcp.is_some();
        let mut batch = vec![];
        while batch.len() < conc.max(1) {
            match queue.pop_front() {
                None => break,
                Some(s) => {
                    if allowed(s, udp_off_all, &udp_off) {
                        batch.push(s)
                    }
                }
            }
        }
        if batch.is_empty() {
            if !busy.is_empty() && backoff < 300 {
                t += backoff.min(t_ms - t);
                for s in busy.drain(..) {
                    if allowed(s, udp_off_all, &udp_off) {
                        queue.push_back(s);
                    }
                }
                backoff *= 2;
                continue;
            }
            return WalkOut::Nothing;
        }

        // every member of the batch starts at t
        let mut results: Vec<(u64, u8, usize, Out)> = vec![];
        for &s in &batch {
            let mut tcp = udp_off_all || udp_off[s] || servers[s].no_udp;
            if !tcp && alive[s] != 0 && servers[s].tcp.is_some() {
                let i = *choice_points;
                *choice_points += 1;
                tcp = v.open_tcp_choices.get(i).copied().unwrap_or(false);
            }
            let (end, out) = attempt(servers, s, tcp, t, t_ms, v, &mut cnt, &mut ccnt, &mut resets_seen, &mut alive);
            // at equal instants an unjudged outcome is processed first (nothing is demanded then)
            let prio = if out == Out::Unjudged { 0 } else { 1 };
            results.push((end, prio, s, out));
        }
        results.sort_by_key(|r| (r.0, r.1));
        let mut batch_end = t;
        for (end, _, s, out) in results {
            batch_end = batch_end.max(end);
            match out {
                Out::Unjudged => return WalkOut::Unjudged,
                Out::Definitive => return WalkOut::Definitive(end),
                Out::RetryTcp => {
                    udp_off[s] = true;
                    if v.persist_udp_off {
                        udp_off_all = true;
                    }
                    queue.push_front(s);
                }
                Out::Busy => busy.push(s),
                Out::Fail => {}
            }
        }
        t = batch_end;
    }
}

#[allow(clippy::too_many_arguments)]
fn attempt(
    servers: &[Srv],
    s: usize,
    tcp: bool,
    t: u64,
    t_ms: u64,
    v: &Variant,
    cnt: &mut BTreeMap<(usize, bool), usize>,
    ccnt: &mut BTreeMap<usize, usize>,
    resets_seen: &mut u32,
    alive: &mut [u8],
) -> (u64, Out) {
    let mut now = t;
    let mut retried = false;
    loop {
        // a connection the pool already held when this attempt began (not one opened for it)
        let reused = tcp && alive[s] == 1 && !retried;
        if tcp && alive[s] == 2 {
            // the pool still holds a connection the server closed while it was idle: hickory's
            // handle reports back-pressure (Busy) at once for it, and the connection is dropped
            alive[s] = 0;
            return (now, Out::Busy);
        }
        if tcp && alive[s] == 0 {
            // no usable connection: open one
            let k = ccnt.entry(s).or_insert(0);
            let c = servers[s].tcp_conn.at(*k);
            *k += 1;
            match c {
                ConnStep::Ok => alive[s] = 1,
                ConnStep::OkAfter(l) => {
                    now += l;
                    alive[s] = 1;
                }
                ConnStep::Refused(l) | ConnStep::Timeout(l) => return (now + l, Out::Fail),
            }
        }
        let k = cnt.entry((s, tcp)).or_insert(0);
        let step = if tcp { servers[s].tcp.as_ref().unwrap().at(*k) } else { servers[s].udp.at(*k) };
        *k += 1;
        // a transport error fails the connection; a response (whatever it says) keeps it
        if tcp {
            alive[s] = match step {
                Step::Answer(_) | Step::NoData(_) | Step::NxDomain(_) | Step::Truncated(_) | Step::ServFail(_) | Step::Refused(_) => 1,
                Step::AnswerClose(_) => 2,
                _ => 0,
            };
        }
        return match step {
            Step::Answer(l) | Step::AnswerClose(l) | Step::NoData(l) => (now + l, Out::Definitive),
            Step::NxDomain(l) => (now + l, if servers[s].trust_nx { Out::Definitive } else { Out::Fail }),
            Step::Truncated(l) => (now + l, if tcp { Out::Unjudged } else { Out::RetryTcp }),
            Step::Silent => (now + t_ms, Out::Fail),
            Step::IoErr(l) => (now + l, Out::Fail),
            // documented (NameServer::send_inner): a REUSED connection the peer closed is not a
            // server fault - reconnect and retry once; on a connection opened for this attempt
            // it is a plain failure
            Step::CloseNoAnswer(l) => {
                if reused {
                    retried = true;
                    now += l;
                    continue;
                }
                (now + l, Out::Fail)
            }
            Step::Reset(l) => {
                let bit = *resets_seen;
                *resets_seen += 1;
                if bit < 32 && v.reset_retry_mask & (1 << bit) != 0 && !retried {
                    retried = true;
                    now += l;
                    continue;
                }
                (now + l, Out::Fail)
            }
            Step::Busy(l) => (now + l, Out::Busy),
            Step::ServFail(l) | Step::Refused(l) | Step::CaseMismatch(l) => (now + l, Out::Unjudged),
        };
    }
}

/// All server orders the documentation admits for a strategy.
pub fn admissible_orders(strategy: &str, n: usize) -> Vec<Vec<usize>> {
    match strategy {
        "user" => vec![(0..n).collect()],
        "roundrobin" => (0..n).map(|r| (0..n).map(|i| (i + r) % n).collect()).collect(),
        _ => vcore::enumerate::permutations(n),
    }
}

/// `Some(true)`: every admissible variant reaches a definitive response strictly before the
/// deadline (a definitive result is demanded). `Some(false)`: not demanded. `None`: unjudged.
pub fn must_be_definitive(servers: &[Srv], strategy: &str, conc: usize, t_ms: u64, alive0: &[u8]) -> Option<bool> {
    let mut all = true;
    // one choice bit per scripted reset (at most 6; later resets are not re-attempted)
    let resets: usize = servers
        .iter()
        .map(|s| {
            let c = |sc: &crate::net::Script<Step>| sc.steps.iter().chain([&sc.rest]).filter(|x| matches!(x, Step::Reset(_))).count();
            c(&s.udp) + s.tcp.as_ref().map(c).unwrap_or(0)
        })
        .sum();
    let masks = 1u32 << resets.min(6);
    for order in admissible_orders(strategy, servers.len()) {
        for persist_udp_off in [true, false] {
            for reset_retry_mask in 0..masks {
                // depth-first over the open-TCP choice points the walk meets
                let mut stack: Vec<Vec<bool>> = vec![vec![]];
                while let Some(prefix) = stack.pop() {
                    let plen = prefix.len();
                    let (out, points) = walk(servers, &order, conc, t_ms, &Variant { persist_udp_off, reset_retry_mask, open_tcp_choices: prefix.clone() }, alive0);
                    match out {
                        WalkOut::Unjudged => return None,
                        WalkOut::Definitive(t) if t < t_ms => {}
                        _ => all = false,
                    }
                    for i in plen..points.min(8) {
                        let mut q = prefix.clone();
                        q.resize(i, false);
                        q.push(true);
                        stack.push(q);
                    }
                }
            }
        }
    }
    Some(all)
}
