//! C18 — a lookup through the name-server pool succeeds if any configured server can answer,
//! within the deadline.
//!
//! Seam: the real `NameServerPool` / `NameServer` over a scripted `ConnectionProvider` (`net.rs`)
//! under tokio's paused clock; the pool's hooked `Instant::now()` call sites read the same
//! virtual clock and the random initial SRTT is pinned (`verif_set_srtt`).
//!
//! Families (all exhaustive over their declared space):
//!  (i)   coarse product (E-ENUM): n in 1..4 servers x behaviour per server x strategy x
//!        num_concurrent_reqs x TCP availability x trust_negative_responses;
//!  (ii)  refinement (E-SCHED): every schedule with <= d deviations from "every exchange is
//!        answered fast", the deviation alphabet holding latency classes, fault kinds, busy runs,
//!        TCP connect faults and out-of-class responses;
//!  (iii) callers (E-ENUM over plans): k in {2,3} identical callers + one different query, arrival
//!        and single-cancellation instants taken from the event instants of the scenario.
//!
//! Oracle: see `judge_single` / `judge_callers`; the reference pool walk is `refwalk.rs`.

mod net;
mod refwalk;
mod stock;

use std::collections::BTreeSet;
use std::sync::Arc;
use std::time::Duration;

use futures_util::StreamExt;
use hickory_net::xfer::DnsHandle;
use hickory_net::{DnsError, NetError};
use hickory_proto::op::{DnsRequest, DnsRequestOptions, DnsResponse, Message, Query, ResponseCode};
use hickory_proto::rr::{RData, RecordType};
use hickory_resolver::config::{NameServerConfig, ResolverOpts, ServerOrderingStrategy};
use hickory_resolver::{NameServer, NameServerPool, PoolContext, TlsConfig};
use net::{fast, qname, server_ip, ConnStep, Ev, Net, Script, Srv, Step, TAG_MAIN, TAG_OTHER, TAG_WARM};
use serde_json::{json, Value};
use vcore::{fnv_str, Chooser, Ctx, Local, Odometer};

/// `ResolverOpts::timeout` of every case (virtual milliseconds).
const T_MS: u64 = 1000;
/// The 0.6 T latency class.
const SLOW: u64 = 600;
/// Virtual-time horizon after which a caller counts as never completing.
const HORIZON_MS: u64 = 60_000;

// ------------------------------------------------------------------------------------------
// case description

#[derive(Clone, Debug, PartialEq, Eq)]
struct CallerPlan {
    tag: u8,
    arrive: u64,
    cancel: Option<u64>,
}

#[derive(Clone, Debug, PartialEq, Eq)]
struct Case {
    family: String,
    servers: Vec<Srv>,
    /// "user" | "roundrobin" | "querystats"
    strategy: String,
    /// lookups of another name performed before the measured one (advances the round-robin
    /// counter, leaves established connections behind)
    warmups: usize,
    conc: usize,
    callers: Vec<CallerPlan>,
    /// sequential lookups of the same query on the same pool after the callers are done
    extra_lookups: usize,
}

impl Case {
    fn to_json(&self) -> Value {
        json!({
            "family": self.family,
            "timeout_ms": T_MS,
            "servers": self.servers.iter().map(|s| s.to_json()).collect::<Vec<_>>(),
            "strategy": self.strategy,
            "warmups": self.warmups,
            "num_concurrent_reqs": self.conc,
            "callers": self.callers.iter().map(|c| json!({"tag": c.tag, "arrive": c.arrive, "cancel": c.cancel})).collect::<Vec<_>>(),
            "extra_lookups": self.extra_lookups,
        })
    }
    fn from_json(v: &Value) -> Case {
        Case {
            family: v["family"].as_str().unwrap_or("coarse").to_string(),
            servers: v["servers"].as_array().unwrap().iter().map(Srv::from_json).collect(),
            strategy: v["strategy"].as_str().unwrap_or("user").to_string(),
            warmups: v["warmups"].as_u64().unwrap_or(0) as usize,
            conc: v["num_concurrent_reqs"].as_u64().unwrap_or(1) as usize,
            callers: v["callers"]
                .as_array()
                .unwrap()
                .iter()
                .map(|c| CallerPlan {
                    tag: c["tag"].as_u64().unwrap_or(0) as u8,
                    arrive: c["arrive"].as_u64().unwrap_or(0),
                    cancel: c["cancel"].as_u64(),
                })
                .collect(),
            extra_lookups: v["extra_lookups"].as_u64().map(|x| x as usize).unwrap_or(if v["followup"].as_bool().unwrap_or(false) { 1 } else { 0 }),
        }
    }
    fn single(family: &str, servers: Vec<Srv>, strategy: &str, warmups: usize, conc: usize) -> Case {
        Case {
            family: family.to_string(),
            servers,
            strategy: strategy.to_string(),
            warmups,
            conc,
            callers: vec![CallerPlan { tag: TAG_MAIN, arrive: 0, cancel: None }],
            extra_lookups: 0,
        }
    }
}

// ------------------------------------------------------------------------------------------
// observations

#[derive(Clone, Debug, PartialEq, Eq)]
enum Res {
    /// an answer record of the scripted network: which endpoint produced it, for which query tag
    Answer { srv: usize, tcp: bool, tag: u8, tc: bool },
    /// an Ok response without a scripted answer record
    OkEmpty { tc: bool, rcode: String },
    Nx { srv: Option<usize> },
    NoData { srv: Option<usize> },
    Timeout,
    Io,
    Busy,
    NoConn,
    Rcode(String),
    CaseMismatch,
    Other(String),
}

impl Res {
    fn class(&self) -> String {
        match self {
            Res::Answer { tc: false, .. } => "answer".into(),
            Res::Answer { tc: true, .. } => "answer-with-tc".into(),
            Res::OkEmpty { tc: true, .. } => "truncated".into(),
            Res::OkEmpty { tc: false, rcode } => format!("ok-empty-{rcode}"),
            Res::Nx { .. } => "nxdomain".into(),
            Res::NoData { .. } => "nodata".into(),
            Res::Timeout => "timeout".into(),
            Res::Io => "io-error".into(),
            Res::Busy => "busy".into(),
            Res::NoConn => "no-connections".into(),
            Res::Rcode(c) => format!("rcode-{c}"),
            Res::CaseMismatch => "case-mismatch".into(),
            Res::Other(m) => format!("other-error({})", m.replace(' ', "-")),
        }
    }
}

fn classify(r: Option<Result<DnsResponse, NetError>>) -> Res {
    fn soa_srv(nr: &hickory_net::NoRecords) -> Option<usize> {
        let soa = nr.soa.as_ref()?;
        let m = soa.data.mname.to_ascii();
        m.strip_prefix('s')?.split('.').next()?.parse::<usize>().ok()
    }
    match r {
        None => Res::Other("response stream ended without an item".into()),
        Some(Ok(resp)) => {
            let tc = resp.truncation;
            for rec in &resp.answers {
                if let RData::A(a) = &rec.data {
                    let o = a.0.octets();
                    if o[0] == 10 && o[3] >= 1 {
                        return Res::Answer { srv: o[3] as usize - 1, tcp: o[1] == 1, tag: o[2], tc };
                    }
                }
            }
            Res::OkEmpty { tc, rcode: format!("{:?}", resp.response_code).to_lowercase() }
        }
        Some(Err(e)) => match e {
            NetError::Timeout => Res::Timeout,
            NetError::Io(_) => Res::Io,
            NetError::Busy => Res::Busy,
            NetError::NoConnections => Res::NoConn,
            NetError::QueryCaseMismatch => Res::CaseMismatch,
            NetError::Dns(DnsError::NoRecordsFound(nr)) => {
                if nr.response_code == ResponseCode::NXDomain {
                    Res::Nx { srv: soa_srv(&nr) }
                } else {
                    Res::NoData { srv: soa_srv(&nr) }
                }
            }
            NetError::Dns(DnsError::ResponseCode(c)) => Res::Rcode(format!("{c:?}").to_lowercase()),
            other => Res::Other(other.to_string()),
        },
    }
}

#[derive(Clone, Debug, PartialEq, Eq)]
struct CallerObs {
    start: u64,
    end: Option<u64>,
    res: Option<Res>,
    cancelled: bool,
    panicked: Option<String>,
}

#[derive(Clone, Debug, PartialEq, Eq)]
struct Obs {
    callers: Vec<CallerObs>,
    followups: Vec<CallerObs>,
    log: Vec<Ev>,
    servers: Vec<Srv>,
    hung: bool,
}

impl Obs {
    fn digest(&self) -> u64 {
        fnv_str(&format!("{:?}", self))
    }
    fn to_json(&self) -> Value {
        let c = |c: &CallerObs| json!({"start": c.start, "end": c.end, "result": c.res.as_ref().map(|r| format!("{r:?}")), "cancelled": c.cancelled, "panicked": c.panicked});
        json!({
            "callers": self.callers.iter().map(c).collect::<Vec<_>>(),
            "followups": self.followups.iter().map(c).collect::<Vec<_>>(),
            "log": self.log.iter().map(|e| e.to_json()).collect::<Vec<_>>(),
            "hung": self.hung,
        })
    }
}

#[derive(Clone, Default)]
struct Alphabets {
    udp: Vec<Step>,
    tcp: Vec<Step>,
    conn: Vec<ConnStep>,
}

/// Owner id (request message id) of caller `j`.
fn owner_id(j: usize) -> u16 {
    j as u16 + 1
}
const FOLLOWUP_OWNER: u16 = 900;
const WARM_OWNER: u16 = 800;

async fn one_lookup(pool: NameServerPool<Net>, net: Net, tag: u8, owner: u16) -> (u64, u64, Res) {
    let start = net.ms();
    let mut msg = Message::query();
    msg.metadata.id = owner;
    msg.add_query(Query::new(qname(tag), RecordType::A));
    let req = DnsRequest::new(msg, DnsRequestOptions::default());
    let r = pool.send(req).next().await;
    let end = net.ms();
    (start, end, classify(r))
}

fn build_pool(case: &Case, net: &Net) -> NameServerPool<Net> {
    let mut opts = ResolverOpts::default();
    opts.timeout = Duration::from_millis(T_MS);
    opts.num_concurrent_reqs = case.conc;
    opts.server_ordering_strategy = match case.strategy.as_str() {
        "user" => ServerOrderingStrategy::UserProvidedOrder,
        "roundrobin" => ServerOrderingStrategy::RoundRobin,
        _ => ServerOrderingStrategy::QueryStatistics,
    };
    opts.case_randomization = false;
    let cx = Arc::new(PoolContext::new(opts.clone(), TlsConfig::new().unwrap()));
    let nss = case
        .servers
        .iter()
        .enumerate()
        .map(|(i, s)| {
            let mut cfg = if s.tcp.is_some() { NameServerConfig::udp_and_tcp(server_ip(i)) } else { NameServerConfig::udp(server_ip(i)) };
            cfg.trust_negative_responses = s.trust_nx;
            let ns = NameServer::new([], cfg, &opts, net.clone());
            ns.verif_set_srtt(s.srtt);
            Arc::new(ns)
        })
        .collect();
    NameServerPool::from_nameservers(nss, cx)
}

/// A `DnsHandle` that forwards to the pool and records every `send` (start, end, result): the
/// seam between `RetryDnsHandle` and the pool.
#[derive(Clone)]
struct Tap {
    pool: NameServerPool<Net>,
    net: Net,
    sends: Arc<std::sync::Mutex<Vec<CallerObs>>>,
}

impl DnsHandle for Tap {
    type Response = std::pin::Pin<Box<dyn futures_util::Stream<Item = Result<DnsResponse, NetError>> + Send>>;
    type Runtime = <NameServerPool<Net> as DnsHandle>::Runtime;
    fn send(&self, request: DnsRequest) -> Self::Response {
        let idx = {
            let mut v = self.sends.lock().unwrap();
            v.push(CallerObs { start: self.net.ms(), end: None, res: None, cancelled: false, panicked: None });
            v.len() - 1
        };
        let (net, sends) = (self.net.clone(), self.sends.clone());
        Box::pin(self.pool.send(request).map(move |r| {
            let mut v = sends.lock().unwrap();
            if v[idx].end.is_none() {
                v[idx].end = Some(net.ms());
                v[idx].res = Some(classify(Some(r.clone())));
            }
            r
        }))
    }
}

/// Family (v): one lookup through `RetryDnsHandle::new(pool, attempts)`. Returns the outer
/// observation (as `callers[0]`) and the inner sends.
fn execute_retry(case: &Case, attempts: usize) -> (Obs, Vec<CallerObs>) {
    vsim::install_hook_clock_tokio();
    let rt = vsim::rt();
    let out = rt.block_on(async {
        let net = Net::new(case.servers.clone(), T_MS, None);
        let pool = build_pool(case, &net);
        net.rebase();
        let tap = Tap { pool, net: net.clone(), sends: Default::default() };
        let handle = hickory_net::xfer::RetryDnsHandle::new(tap.clone(), attempts);
        let mut msg = Message::query();
        msg.metadata.id = owner_id(0);
        msg.add_query(Query::new(qname(TAG_MAIN), RecordType::A));
        let req = DnsRequest::new(msg, DnsRequestOptions::default());
        let start = net.ms();
        let fut = async move { handle.send(req).next().await };
        let (res, hung) = match tokio::time::timeout(Duration::from_millis(HORIZON_MS), fut).await {
            Ok(r) => (Some(classify(r)), false),
            Err(_) => (None, true),
        };
        let end = net.ms();
        let outer = CallerObs { start, end: if hung { None } else { Some(end) }, res, cancelled: false, panicked: None };
        let sends = tap.sends.lock().unwrap().clone();
        (Obs { callers: vec![outer], followups: vec![], log: net.log(), servers: net.servers(), hung }, sends)
    });
    drop(rt);
    out
}

/// Oracle of family (v).
fn judge_retry(case: &Case, attempts: usize, obs: &Obs, sends: &[CallerObs], l: &mut Local) {
    let wit = || {
        let mut j = case.to_json();
        j["retry_attempts"] = json!(attempts);
        j["observed"] = obs.to_json();
        j["pool_sends"] = json!(sends.iter().map(|c| json!({"start": c.start, "end": c.end, "result": c.res.as_ref().map(|r| format!("{r:?}"))})).collect::<Vec<_>>());
        j
    };
    let outer = &obs.callers[0];
    if obs.hung || outer.end.is_none() {
        l.violation("retry:no-completion", "a lookup through RetryDnsHandle did not complete", wit);
        return;
    }
    // every attempt is a pool lookup of its own and is judged as one
    for c in sends {
        judge_lookup(case, obs, c, owner_id(0), l, &wit);
    }
    let (end, res) = (outer.end.unwrap(), outer.res.as_ref().unwrap());
    if sends.len() > attempts + 1 {
        l.violation("retry:too-many-attempts", &format!("{} pool lookups for attempts={attempts}", sends.len()), wit);
    }
    if end - outer.start > (attempts as u64 + 1) * T_MS {
        l.violation("retry:deadline-exceeded", &format!("{} ms for attempts={attempts}, timeout {T_MS} ms", end - outer.start), wit);
    }
    let Some(last) = sends.last() else {
        l.violation("retry:no-pool-lookup", "RetryDnsHandle returned without asking the pool", wit);
        return;
    };
    if last.res.as_ref() != Some(res) || last.end != Some(end) {
        l.violation("retry:result-is-not-the-last-attempts", &format!("returned {res:?} at {end}, the last pool lookup gave {:?} at {:?}", last.res, last.end), wit);
    }
    // documented: negative responses and answers are final; IO errors and timeouts are retried
    for c in &sends[..sends.len() - 1] {
        if matches!(c.res, Some(Res::Answer { .. } | Res::OkEmpty { .. } | Res::Nx { .. } | Res::NoData { .. })) {
            l.violation("retry:retried-after-a-response", &format!("a pool lookup ended with {:?} and was retried", c.res), wit);
        }
    }
    if matches!(res, Res::Timeout | Res::Io) && sends.len() < attempts + 1 {
        l.violation("retry:gave-up-early", &format!("ended with {res:?} after {} of {} allowed pool lookups", sends.len(), attempts + 1), wit);
    }
    if sends.len() > 1 && matches!(res, Res::Answer { .. }) {
        l.outcome("retry:answer-on-a-later-attempt");
    }
    l.outcome(&format!("retry:attempts-used={}", sends.len()));
}

// ------------------------------------------------------------------------------------------
// family (vi): the stock ConnectionProvider over a simulated RuntimeProvider

#[derive(Clone, Debug)]
struct StockCase {
    servers: Vec<stock::StockSrv>,
    /// ResolverOpts::connect_timeout (ms); ResolverOpts::timeout is T_MS
    connect_ms: u64,
    conc: usize,
    strategy: String,
    /// 0: every other knob at its default (case_randomization off, EDNS on, port 53, no bind address);
    /// 1: every other knob off its default (case_randomization on, EDNS off, port 5353, bind
    ///    address set, max_active_requests 2, os_port_selection on, avoid_local_udp_ports set)
    profile: u8,
}

impl StockCase {
    fn to_json(&self) -> Value {
        json!({
            "family": "stock",
            "timeout_ms": T_MS,
            "connect_timeout_ms": self.connect_ms,
            "num_concurrent_reqs": self.conc,
            "strategy": self.strategy,
            "profile": self.profile,
            "stock_servers": self.servers.iter().map(|s| s.to_json()).collect::<Vec<_>>(),
        })
    }
    fn from_json(v: &Value) -> StockCase {
        StockCase {
            servers: v["stock_servers"].as_array().unwrap().iter().map(stock::StockSrv::from_json).collect(),
            connect_ms: v["connect_timeout_ms"].as_u64().unwrap_or(400),
            conc: v["num_concurrent_reqs"].as_u64().unwrap_or(1) as usize,
            strategy: v["strategy"].as_str().unwrap_or("user").to_string(),
            profile: v["profile"].as_u64().unwrap_or(0) as u8,
        }
    }
    /// The servers under the DOCUMENTED meaning of the two timeouts: a connection attempt is
    /// bounded by connect_timeout, every request by timeout (the lookup as a whole by the pool's
    /// deadline, which the walk applies).
    fn documented(&self) -> Vec<Srv> {
        let (t, c) = (T_MS, self.connect_ms);
        let reply = |r: stock::Reply| match r {
            Some(d) if d < t => Step::Answer(d),
            _ => Step::Silent,
        };
        self.servers
            .iter()
            .enumerate()
            .map(|(i, s)| Srv {
                udp: match s.proto {
                    0 => Script::constant(reply(s.udp_reply)),
                    2 => Script::constant(Step::Truncated(10)),
                    _ => Script::constant(Step::Silent),
                },
                tcp: if s.proto == 0 { None } else { Some(Script::constant(reply(s.tcp_reply))) },
                tcp_conn: Script::constant(match s.conn {
                    stock::Conn::After(d) if d < c => ConnStep::OkAfter(d),
                    stock::Conn::After(_) | stock::Conn::BlackHole => ConnStep::Timeout(c),
                    stock::Conn::Refused => ConnStep::Refused(4),
                }),
                trust_nx: true,
                srtt: 10 + 3 * i as u32,
                no_udp: s.proto == 1,
            })
            .collect()
    }
    fn as_case(&self) -> Case {
        Case::single("stock", self.documented(), &self.strategy, 0, self.conc)
    }
}

fn execute_stock(sc: &StockCase) -> (Obs, Vec<Option<u64>>) {
    vsim::install_hook_clock_tokio();
    let rt = vsim::rt();
    let out = rt.block_on(async {
        let sim = stock::SimRt::new(sc.servers.clone());
        let mut opts = ResolverOpts::default();
        opts.timeout = Duration::from_millis(T_MS);
        opts.connect_timeout = Duration::from_millis(sc.connect_ms);
        opts.num_concurrent_reqs = sc.conc;
        opts.server_ordering_strategy = match sc.strategy.as_str() {
            "user" => ServerOrderingStrategy::UserProvidedOrder,
            "roundrobin" => ServerOrderingStrategy::RoundRobin,
            _ => ServerOrderingStrategy::QueryStatistics,
        };
        opts.case_randomization = sc.profile == 1;
        opts.edns0 = sc.profile == 0;
        if sc.profile == 1 {
            opts.max_active_requests = 2;
            opts.os_port_selection = true;
            opts.avoid_local_udp_ports = Arc::new([5353u16, 5355].into_iter().collect());
        }
        let cx = Arc::new(PoolContext::new(opts.clone(), TlsConfig::new().unwrap()));
        let nss = sc
            .servers
            .iter()
            .enumerate()
            .map(|(i, s)| {
                let ip = server_ip(i);
                let mut cfg = match s.proto {
                    0 => NameServerConfig::udp(ip),
                    1 => NameServerConfig::tcp(ip),
                    _ => NameServerConfig::udp_and_tcp(ip),
                };
                for c in cfg.connections.iter_mut() {
                    c.port = s.port;
                    if sc.profile == 1 {
                        c.bind_addr = Some("198.18.0.9:0".parse().unwrap());
                    }
                }
                // the stock provider: `SimRt` is a RuntimeProvider, hence a ConnectionProvider
                let ns = NameServer::new([], cfg, &opts, sim.clone());
                ns.verif_set_srtt(10 + 3 * i as u32);
                Arc::new(ns)
            })
            .collect();
        let pool = NameServerPool::from_nameservers(nss, cx);
        sim.st.lock().unwrap().t0 = tokio::time::Instant::now();
        let start = sim.ms();
        let mut ropts = DnsRequestOptions::default();
        ropts.use_edns = sc.profile == 0;
        let fut = async { pool.lookup(Query::new(qname(TAG_MAIN), RecordType::A), ropts).next().await };
        let (res, hung) = match tokio::time::timeout(Duration::from_millis(HORIZON_MS), fut).await {
            Ok(r) => (Some(classify(r)), false),
            Err(_) => (None, true),
        };
        let end = sim.ms();
        let g = sim.st.lock().unwrap();
        let caller = CallerObs { start, end: if hung { None } else { Some(end) }, res, cancelled: false, panicked: None };
        (Obs { callers: vec![caller], followups: vec![], log: g.log.clone(), servers: sc.documented(), hung }, g.connect_timeouts_seen.clone())
    });
    drop(rt);
    out
}

fn run_stock(sc: &StockCase, l: &mut Local) -> Obs {
    l.eval();
    let (obs, seen) = execute_stock(sc);
    let case = sc.as_case();
    let wit = || {
        let mut j = sc.to_json();
        j["documented_servers"] = json!(obs.servers.iter().map(|s| s.to_json()).collect::<Vec<_>>());
        j["connect_tcp_called_with_timeout_ms"] = json!(seen);
        j["observed"] = obs.to_json();
        j
    };
    if obs.hung {
        l.violation("no-completion", "a lookup through the stock connection provider did not complete", wit);
        return obs;
    }
    judge_lookup(&case, &obs, &obs.callers[0], owner_id(0), l, &wit);
    l.outcome("stock-provider-case");
    if let Some(Res::Answer { tcp: true, .. }) = obs.callers[0].res {
        l.outcome("stock:answer-over-real-tcp-stack");
    }
    if let Some(Res::Answer { tcp: false, .. }) = obs.callers[0].res {
        l.outcome("stock:answer-over-real-udp-stack");
    }
    obs
}

/// Behaviour alphabet of one server for connect timeout `c` (timeout T_MS): delays just below a
/// bound are 50 ms below it, "between" is the midpoint of the two bounds.
fn stock_behaviours(c: u64, port: u16) -> Vec<stock::StockSrv> {
    let t = T_MS;
    let mut delays: Vec<u64> = vec![10, c.min(t) - 50, t - 50];
    if c != t {
        delays.push((c + t) / 2);
    }
    delays.sort();
    delays.dedup();
    let mut replies: Vec<stock::Reply> = delays.iter().map(|d| Some(*d)).collect();
    replies.push(None);
    let mut conns: Vec<stock::Conn> = vec![stock::Conn::After(0), stock::Conn::After(c - 50), stock::Conn::BlackHole, stock::Conn::Refused];
    if c != t {
        conns.push(stock::Conn::After((c + t) / 2));
    }
    let mut out = vec![];
    for r in &replies {
        out.push(stock::StockSrv { proto: 0, udp_reply: *r, conn: stock::Conn::Refused, tcp_reply: None, port, nx: false });
    }
    for proto in [1u8, 2] {
        for conn in &conns {
            for r in &replies {
                out.push(stock::StockSrv { proto, udp_reply: None, conn: *conn, tcp_reply: *r, port, nx: false });
            }
        }
    }
    out
}

// ------------------------------------------------------------------------------------------
// family (vii): the production construction path Resolver::builder_with_config(..).with_options(..).build()

#[derive(Clone, Debug)]
struct CtorProbe {
    name: &'static str,
    /// (behaviour, trust_negative_responses)
    servers: Vec<(stock::StockSrv, bool)>,
    /// (timeout, connect_timeout, attempts, num_concurrent_reqs) - same-typed neighbours differ
    vals: (u64, u64, usize, usize),
    deny_answers: Vec<&'static str>,
    allow_answers: Vec<&'static str>,
}

struct CtorObs {
    elapsed: u64,
    res: Res,
    log: Vec<Ev>,
    connect_timeouts: Vec<Option<u64>>,
    requests: Vec<(usize, bool, bool, bool, u16)>,
    binds: Vec<Option<std::net::SocketAddr>>,
}

const CTOR_PORT: u16 = 5353;
const CTOR_QNAME: &str = "wwwabcdefghijklmnopqrstuvwxyz.abcdefghijklmnopqrstuvwxyz.example.";

fn ctor_run(p: &CtorProbe) -> CtorObs {
    use hickory_resolver::config::{ResolveHosts, ResolverConfig};
    vsim::install_hook_clock_tokio();
    let rt = vsim::rt();
    let out = rt.block_on(async {
        let sim = stock::SimRt::new(p.servers.iter().map(|s| s.0.clone()).collect());
        let mut opts = ResolverOpts::default();
        opts.timeout = Duration::from_millis(p.vals.0);
        opts.connect_timeout = Duration::from_millis(p.vals.1);
        opts.attempts = p.vals.2;
        opts.num_concurrent_reqs = p.vals.3;
        opts.server_ordering_strategy = ServerOrderingStrategy::UserProvidedOrder;
        opts.edns0 = false;
        opts.case_randomization = true;
        opts.use_hosts_file = ResolveHosts::Never;
        opts.cache_size = 0;
        opts.deny_answers = p.deny_answers.iter().map(|s| s.parse().unwrap()).collect();
        opts.allow_answers = p.allow_answers.iter().map(|s| s.parse().unwrap()).collect();
        let name_servers: Vec<NameServerConfig> = p
            .servers
            .iter()
            .enumerate()
            .map(|(i, (s, trust))| {
                let ip = server_ip(i);
                let mut cfg = match s.proto {
                    0 => NameServerConfig::udp(ip),
                    1 => NameServerConfig::tcp(ip),
                    _ => NameServerConfig::udp_and_tcp(ip),
                };
                cfg.trust_negative_responses = *trust;
                for c in cfg.connections.iter_mut() {
                    c.port = CTOR_PORT;
                    c.bind_addr = Some("198.18.0.9:0".parse().unwrap());
                }
                cfg
            })
            .collect();
        let resolver = hickory_resolver::Resolver::builder_with_config(ResolverConfig::from_name_servers(name_servers), sim.clone())
            .with_options(opts)
            .build()
            .expect("resolver");
        sim.st.lock().unwrap().t0 = tokio::time::Instant::now();
        let start = sim.ms();
        let r = tokio::time::timeout(Duration::from_millis(HORIZON_MS), resolver.lookup(CTOR_QNAME, RecordType::A)).await;
        let elapsed = sim.ms() - start;
        let res = match r {
            Err(_) => Res::Other("hung".into()),
            Ok(Ok(lookup)) => lookup
                .answers()
                .iter()
                .find_map(|rec| match &rec.data {
                    RData::A(a) if a.0.octets()[0] == 10 => Some(Res::Answer { srv: a.0.octets()[3] as usize - 1, tcp: a.0.octets()[1] == 1, tag: a.0.octets()[2], tc: false }),
                    _ => None,
                })
                .unwrap_or(Res::OkEmpty { tc: false, rcode: "noerror".into() }),
            Ok(Err(e)) => classify(Some(Err(e))),
        };
        let g = sim.st.lock().unwrap();
        CtorObs { elapsed, res, log: g.log.clone(), connect_timeouts: g.connect_timeouts_seen.clone(), requests: g.requests_seen.clone(), binds: g.binds_seen.clone() }
    });
    drop(rt);
    out
}

fn ctor_probes() -> Vec<CtorProbe> {
    let udp = |reply: stock::Reply, nx: bool| stock::StockSrv { proto: 0, udp_reply: reply, conn: stock::Conn::Refused, tcp_reply: None, port: CTOR_PORT, nx };
    let tcp_hole = stock::StockSrv { proto: 1, udp_reply: None, conn: stock::Conn::BlackHole, tcp_reply: Some(10), port: CTOR_PORT, nx: false };
    let mut out = vec![];
    for vals in [(700u64, 300u64, 1usize, 3usize), (900, 500, 2, 2)] {
        let mk = |name: &'static str, servers: Vec<(stock::StockSrv, bool)>| CtorProbe { name, servers, vals, deny_answers: vec![], allow_answers: vec![] };
        out.push(mk("silent-udp", vec![(udp(None, false), true)]));
        out.push(mk("black-holed-tcp", vec![(tcp_hole.clone(), true)]));
        out.push(mk("four-silent-udp", (0..4).map(|_| (udp(None, false), true)).collect()));
        out.push(mk("untrusted-nx-then-answer", vec![(udp(Some(10), true), false), (udp(Some(200), false), true)]));
        out.push(mk("trusted-nx-then-answer", vec![(udp(Some(10), true), true), (udp(Some(200), false), true)]));
        out.push(mk("swapped-trust-flags", vec![(udp(Some(200), false), false), (udp(Some(10), true), true)]));
        let mut d = mk("answer-denied", vec![(udp(Some(10), false), true)]);
        d.deny_answers = vec!["10.0.0.0/16"];
        out.push(d.clone());
        d.name = "answer-denied-but-allowed";
        // the simulated server answers 10.<tcp>.<tag of the name>.<server+1>; the tag of CTOR_QNAME is 3
        d.allow_answers = vec!["10.0.3.1/32"];
        out.push(d);
    }
    out
}

fn judge_ctor(p: &CtorProbe, o: &CtorObs, l: &mut Local) {
    const PATH: &str = "Resolver::builder_with_config";
    let (t, c, attempts, conc) = p.vals;
    let wit = || {
        json!({
            "family": "ctor", "probe": p.name, "timeout_ms": t, "connect_timeout_ms": c, "attempts": attempts, "num_concurrent_reqs": conc,
            "deny_answers": p.deny_answers, "allow_answers": p.allow_answers,
            "servers": p.servers.iter().map(|s| json!({"behaviour": s.0.to_json(), "trust_negative_responses": s.1})).collect::<Vec<_>>(),
            "observed": {"elapsed_ms": o.elapsed, "result": format!("{:?}", o.res), "connect_tcp_timeouts_ms": o.connect_timeouts,
                         "log": o.log.iter().map(|e| e.to_json()).collect::<Vec<_>>()},
        })
    };
    let bad = |knob: &str, what: String, l: &mut Local| l.violation(&format!("knob-not-effective:{knob}:{PATH}"), &what, &wit);
    match p.name {
        "silent-udp" => {
            let want = (attempts as u64 + 1) * t;
            if o.elapsed != want || o.res != Res::Timeout {
                bad("timeout-or-attempts", format!("one silent server: {:?} after {} ms, expected a timeout after (attempts+1) x timeout = {want} ms", o.res, o.elapsed), l);
            }
        }
        "black-holed-tcp" => {
            if o.connect_timeouts.is_empty() || o.connect_timeouts.iter().any(|x| *x != Some(c)) {
                bad("connect_timeout", format!("connect_tcp was given {:?}, configured connect_timeout {c} ms", o.connect_timeouts), l);
            }
            if o.elapsed != (attempts as u64 + 1) * c {
                bad("connect_timeout-or-attempts", format!("black-holed TCP server: ended after {} ms, expected (attempts+1) x connect_timeout = {}", o.elapsed, (attempts as u64 + 1) * c), l);
            }
        }
        "four-silent-udp" => {
            let first: BTreeSet<usize> = o.log.iter().filter(|e| !e.connect && e.start == 0).map(|e| e.srv).collect();
            let want: BTreeSet<usize> = (0..conc).collect();
            if first != want {
                bad("num_concurrent_reqs-or-ordering", format!("servers asked at t=0: {first:?}, expected the first {conc} in the configured order"), l);
            }
        }
        "untrusted-nx-then-answer" => {
            if !matches!(o.res, Res::Answer { .. }) {
                bad("trust_negative_responses", format!("an untrusted NXDOMAIN next to an answering server gave {:?}", o.res), l);
            }
        }
        "trusted-nx-then-answer" | "swapped-trust-flags" => {
            if !matches!(o.res, Res::Nx { .. }) {
                bad("trust_negative_responses", format!("a trusted NXDOMAIN (10 ms) before the other (here: untrusted or trusted) server's answer (200 ms) gave {:?}", o.res), l);
            }
        }
        "answer-denied" => {
            if matches!(o.res, Res::Answer { .. }) {
                bad("deny_answers", format!("an address inside deny_answers was returned: {:?}", o.res), l);
            }
        }
        _ => {
            if !matches!(o.res, Res::Answer { .. }) {
                bad("allow_answers", format!("an address inside deny_answers but excepted by allow_answers was not returned: {:?}", o.res), l);
            }
        }
    }
    // knobs every probe shows
    if o.requests.iter().any(|r| r.2) {
        bad("edns0", "edns0 = false, but a request carried an OPT record".into(), l);
    }
    if !o.requests.is_empty() && o.requests.iter().all(|r| !r.3) {
        bad("case_randomization", "case_randomization = true, but no request name carried an upper-case letter".into(), l);
    }
    if o.requests.iter().any(|r| r.4 != CTOR_PORT) {
        bad("port", format!("a request went to a port other than {CTOR_PORT}"), l);
    }
    if o.binds.iter().any(|b| b.map(|a| a.ip().to_string()) != Some("198.18.0.9".to_string())) {
        bad("bind_addr", format!("sockets were bound to {:?}, configured 198.18.0.9", o.binds), l);
    }
    l.outcome("construction-path-probe");
}

/// Execute one case on the real pool. Deterministic function of (case, chooser prefix).
fn execute(case: &Case, chooser: Option<Chooser>, alph: &Alphabets) -> (Obs, Option<Chooser>) {
    vsim::install_hook_clock_tokio();
    let rt = vsim::rt();
    let out = rt.block_on(async {
        let net = Net::new(case.servers.clone(), T_MS, chooser);
        {
            let mut st = net.inner.state.lock().unwrap();
            st.udp_alphabet = alph.udp.clone();
            st.tcp_alphabet = alph.tcp.clone();
            st.conn_alphabet = alph.conn.clone();
        }
        let pool = build_pool(case, &net);

        for _ in 0..case.warmups {
            let _ = one_lookup(pool.clone(), net.clone(), TAG_WARM, WARM_OWNER).await;
            tokio::time::sleep(Duration::from_millis(3)).await;
        }
        net.rebase();
        let base = tokio::time::Instant::now();

        // actions in time order; at equal instants arrivals come first, in caller order
        let mut actions: Vec<(u64, u8, usize)> = vec![];
        for (j, c) in case.callers.iter().enumerate() {
            actions.push((c.arrive, 0, j));
            if let Some(x) = c.cancel {
                actions.push((x, 1, j));
            }
        }
        actions.sort();
        let mut handles: Vec<Option<tokio::task::JoinHandle<(u64, u64, Res)>>> = case.callers.iter().map(|_| None).collect();
        for (t, kind, j) in actions {
            tokio::time::sleep_until(base + Duration::from_millis(t)).await;
            if kind == 0 {
                handles[j] = Some(tokio::spawn(one_lookup(pool.clone(), net.clone(), case.callers[j].tag, owner_id(j))));
            } else if let Some(h) = &handles[j] {
                h.abort();
            }
        }
        let mut hung = false;
        let mut callers = vec![];
        let horizon = base + Duration::from_millis(HORIZON_MS);
        for (j, h) in handles.into_iter().enumerate() {
            let h = h.unwrap();
            let plan = &case.callers[j];
            match tokio::time::timeout_at(horizon, h).await {
                Err(_) => {
                    hung = true;
                    callers.push(CallerObs { start: plan.arrive, end: None, res: None, cancelled: false, panicked: None });
                }
                Ok(Ok((start, end, res))) => callers.push(CallerObs { start, end: Some(end), res: Some(res), cancelled: false, panicked: None }),
                Ok(Err(e)) if e.is_cancelled() => callers.push(CallerObs { start: plan.arrive, end: None, res: None, cancelled: true, panicked: None }),
                Ok(Err(_)) => {
                    let p = vcore::take_last_panic().map(|p| format!("{} @ {}", p.msg, vcore::short_loc(&p.loc))).unwrap_or_else(|| "?".into());
                    callers.push(CallerObs { start: plan.arrive, end: None, res: None, cancelled: false, panicked: Some(p) });
                }
            }
        }
        let mut followups = vec![];
        for j in 0..case.extra_lookups {
            if hung {
                break;
            }
            tokio::time::sleep(Duration::from_millis(7)).await;
            let h = tokio::spawn(one_lookup(pool.clone(), net.clone(), TAG_MAIN, FOLLOWUP_OWNER + j as u16));
            let start = net.ms();
            let horizon = tokio::time::Instant::now() + Duration::from_millis(HORIZON_MS);
            followups.push(match tokio::time::timeout_at(horizon, h).await {
                Err(_) => {
                    hung = true;
                    CallerObs { start, end: None, res: None, cancelled: false, panicked: None }
                }
                Ok(Ok((start, end, res))) => CallerObs { start, end: Some(end), res: Some(res), cancelled: false, panicked: None },
                Ok(Err(_)) => {
                    let p = vcore::take_last_panic().map(|p| format!("{} @ {}", p.msg, vcore::short_loc(&p.loc))).unwrap_or_else(|| "?".into());
                    CallerObs { start, end: None, res: None, cancelled: false, panicked: Some(p) }
                }
            });
        }
        let obs = Obs { callers, followups, log: net.log(), servers: net.servers(), hung };
        (obs, net.take_chooser())
    });
    drop(rt);
    out
}

// ------------------------------------------------------------------------------------------
// oracle

fn is_definitive(res: &Res, servers: &[Srv]) -> bool {
    match res {
        Res::Answer { tc: false, .. } => true,
        Res::NoData { .. } => true,
        Res::Nx { srv: Some(s) } => servers.get(*s).map(|x| x.trust_nx).unwrap_or(false),
        _ => false,
    }
}

/// Abstract fault scene of a run: the kinds of upstream reactions the lookup met (sorted set).
fn fault_scene(log: &[Ev], owner: u16) -> String {
    let mut kinds: BTreeSet<String> = BTreeSet::new();
    for e in log {
        if e.connect {
            if e.step != "ok" {
                kinds.insert(format!("tcp-connect-{}", e.step.split(':').next().unwrap()));
            }
        } else if e.owner == owner {
            let k = e.step.split(':').next().unwrap();
            kinds.insert(if e.tcp { format!("tcp-{k}") } else { k.to_string() });
        }
    }
    kinds.into_iter().collect::<Vec<_>>().join("+")
}

/// Clauses that concern one completed caller: deadline, soundness of the result.
/// `inst_start` is the arrival of the caller that created the lookup this caller shares.
fn judge_caller(case: &Case, obs: &Obs, c: &CallerObs, owner: u16, tag: u8, l: &mut Local, wit: &dyn Fn() -> Value) {
    let owner_arrival = |o: u16| -> Option<u64> {
        if o == owner {
            return Some(c.start);
        }
        case.callers.get((o as usize).wrapping_sub(1)).map(|p| p.arrive)
    };
    if let Some(p) = &c.panicked {
        let loc = p.rsplit(" @ ").next().unwrap_or("?");
        l.violation(&format!("panic:{loc}"), &format!("a caller task panicked: {p}"), wit);
        return;
    }
    if c.cancelled {
        return;
    }
    let (Some(end), Some(res)) = (c.end, c.res.as_ref()) else {
        l.violation("no-completion", "a lookup did not complete within 60 s of virtual time", wit);
        return;
    };
    // (1) deadline
    let dur = end - c.start;
    if dur > T_MS {
        let deadline = c.start + T_MS;
        // exchanges of the lookup this caller is attached to: owned by a caller that arrived no
        // later than this one (a later arrival's own lookup is none of this caller's business)
        let mine = |e: &&Ev| e.start <= end && (e.connect || (e.tag == tag && owner_arrival(e.owner).map(|a| a <= c.start).unwrap_or(false)));
        let started_late = obs.log.iter().filter(mine).any(|e| !e.connect && e.start >= deadline);
        let in_flight = obs.log.iter().filter(mine).any(|e| e.start < deadline && e.end.map(|x| x > deadline).unwrap_or(true));
        let scene = if started_late {
            "attempt-started-at-or-after-deadline"
        } else if in_flight {
            "attempt-started-before-deadline-runs-full-timeout"
        } else {
            "idle-wait-past-deadline"
        };
        l.violation(
            &format!("deadline-exceeded:{scene}"),
            &format!("lookup completed {dur} ms after it started, configured timeout {T_MS} ms"),
            wit,
        );
        l.outcome("deadline-late");
    }
    // (2) soundness of an Ok result
    match res {
        Res::Answer { srv, tcp, tag: atag, tc } => {
            if *atag != tag {
                l.violation("wrong-answer:question-mismatch", "the answer belongs to a different query", wit);
            }
            let logged = obs.log.iter().any(|e| {
                !e.connect && e.srv == *srv && e.tcp == *tcp && e.tag == *atag && e.step.starts_with("answer") && e.end.map(|x| x <= end).unwrap_or(false)
            });
            if !logged {
                l.violation("wrong-answer:not-from-a-completed-exchange", "the returned answer was not produced by any completed upstream exchange", wit);
            }
            if *tc {
                l.violation("truncated-returned:answer-with-tc", "a response with TC set was returned", wit);
            }
        }
        Res::OkEmpty { tc: true, .. } => {
            // which server truncated? any UDP truncated exchange whose TCP side is healthy
            let healthy_tcp = obs.log.iter().any(|e| {
                !e.connect && !e.tcp && e.tag == tag && e.step.starts_with("truncated") && {
                    let s = &obs.servers[e.srv];
                    s.tcp.as_ref().map(|t| t.steps.iter().chain([&t.rest]).all(|x| matches!(x, Step::Answer(_)))).unwrap_or(false)
                        && s.tcp_conn.steps.iter().chain([&s.tcp_conn.rest]).all(|x| *x == ConnStep::Ok)
                }
            });
            if healthy_tcp {
                l.violation("truncated-returned:tcp-healthy", "a truncated UDP reply was returned although TCP to that server answers", wit);
            } else {
                l.outcome("obs:truncated-returned-tcp-unhealthy");
            }
        }
        _ => {}
    }
}

/// Oracle for a single-caller case (families i and ii).
fn judge_single(case: &Case, obs: &Obs, l: &mut Local) {
    let wit = || {
        let mut c = case.clone();
        c.servers = obs.servers.clone();
        let mut j = c.to_json();
        j["observed"] = obs.to_json();
        j
    };
    if obs.hung {
        l.violation("no-completion", "a lookup did not complete within 60 s of virtual time", wit);
        return;
    }
    // the measured lookup and every later lookup on the same pool are judged alike; a later one
    // against the scripts as they stand when it starts and the connections the pool then holds
    judge_lookup(case, obs, &obs.callers[0], owner_id(0), l, &wit);
    for (j, f) in obs.followups.iter().enumerate() {
        let owner = FOLLOWUP_OWNER + j as u16;
        if f.end.is_some() && !obs.log.iter().any(|e| !e.connect && e.owner == owner) && !matches!(f.res, Some(Res::NoConn)) {
            l.violation("stale-shared-result", "a lookup issued after the previous one completed caused no upstream exchange", wit);
        }
        judge_lookup(case, obs, f, owner, l, &wit);
        l.outcome("later-lookup-judged");
    }
}

/// The scripts as they stand at virtual time `t` (what has been consumed is cut off) and, per
/// server, whether the pool then holds a usable TCP connection.
fn state_at(obs: &Obs, t: u64) -> (Vec<Srv>, Vec<u8>) {
    let mut servers = obs.servers.clone();
    let mut alive = vec![0u8; servers.len()];
    for (s, srv) in servers.iter_mut().enumerate() {
        let used = |tcp: bool| obs.log.iter().filter(|e| !e.connect && e.tag == TAG_MAIN && e.srv == s && e.tcp == tcp && e.step != "closed" && e.start < t).count();
        let cut = |sc: &mut Script<Step>, k: usize| {
            let k = k.min(sc.steps.len());
            sc.steps.drain(..k);
        };
        cut(&mut srv.udp, used(false));
        let ut = used(true);
        if let Some(tcp) = srv.tcp.as_mut() {
            cut(tcp, ut);
        }
        let connects = obs.log.iter().filter(|e| e.connect && e.srv == s && e.start < t).count();
        let k = connects.min(srv.tcp_conn.steps.len());
        srv.tcp_conn.steps.drain(..k);
        // the last thing that happened on TCP to this server before t
        if let Some(e) = obs.log.iter().filter(|e| e.srv == s && e.tcp && e.start < t).max_by_key(|e| e.serial) {
            alive[s] = if e.connect {
                (e.step == "ok") as u8
            } else {
                match e.end {
                    // abandoned in flight (another server won): the connection is kept
                    None => 1,
                    // answered, then closed by the server: the pool still holds it
                    Some(_) if e.step.starts_with("answerclose") => 2,
                    Some(_) => ["answer:", "nxdomain", "nodata", "truncated", "servfail", "refused"].iter().any(|p| e.step.starts_with(p)) as u8,
                }
            };
        }
    }
    (servers, alive)
}

/// The single-lookup oracle (clauses 1-5).
fn judge_lookup(case: &Case, obs: &Obs, c: &CallerObs, owner: u16, l: &mut Local, wit: &dyn Fn() -> Value) {
    judge_caller(case, obs, c, owner, TAG_MAIN, l, wit);
    let (Some(end), Some(res)) = (c.end, c.res.as_ref()) else { return };
    let (servers, alive) = state_at(obs, c.start);
    let servers = &servers;
    let deadline = c.start + T_MS;
    let definitive = is_definitive(res, servers);
    let main_log: Vec<&Ev> = obs.log.iter().filter(|e| (e.connect && e.start >= c.start && e.start <= end) || (!e.connect && e.tag == TAG_MAIN && e.owner == owner && e.start >= c.start && e.start <= end)).collect();

    // (3) a healthy server's answer is demanded when every admissible reading of the search
    // procedure reaches a definitive response strictly within the budget
    let must = refwalk::must_be_definitive(servers, &case.strategy, case.conc, T_MS, &alive);
    match must {
        Some(true) => {
            l.outcome("walk:definitive-demanded");
            if !definitive {
                // scene: what the lookup returned and the last upstream reaction it saw before giving up
                let last = main_log
                    .iter()
                    .filter(|e| e.end.is_some())
                    .max_by_key(|e| (e.end, e.serial))
                    .map(|e| format!("{}{}", if e.connect { "tcp-connect-" } else if e.tcp { "tcp-" } else { "" }, e.step.split(':').next().unwrap()))
                    .unwrap_or_else(|| "nothing".into());
                l.violation(
                    &format!("healthy-answer-missed:got={}:last-reaction={last}", res.class()),
                    &format!(
                        "a healthy server was reachable within the budget but the lookup returned {} (reactions met: {})",
                        res.class(),
                        fault_scene(&obs.log, owner)
                    ),
                    wit,
                );
            }
        }
        Some(false) => {
            l.outcome("walk:not-demanded");
            let saw_tc = main_log.iter().any(|e| !e.connect && !e.tcp && e.step.starts_with("truncated"));
            let unasked_udp_healthy = (0..servers.len()).any(|s| !main_log.iter().any(|e| e.srv == s) && matches!(servers[s].udp.at(0), Step::Answer(_)));
            if saw_tc && unasked_udp_healthy && !definitive && end < deadline {
                l.outcome("obs:after-truncation-servers-are-not-asked-over-udp-any-more");
            }
        }
        None => {
            l.outcome("walk:unjudged-out-of-class");
            if let Res::Rcode(rc) = res {
                let untried = (0..servers.len()).any(|s| !main_log.iter().any(|e| e.srv == s));
                if untried {
                    l.outcome(&format!("obs:{rc}-ended-search-with-untried-servers"));
                }
            }
        }
    }

    // (4) an NXDOMAIN of an untrusted server does not end the search
    if let Res::Nx { srv } = res {
        let nx_srvs: BTreeSet<usize> = main_log.iter().filter(|e| !e.connect && e.step.starts_with("nxdomain") && e.end.is_some()).map(|e| e.srv).collect();
        if nx_srvs.is_empty() {
            l.violation("wrong-answer:nxdomain-not-from-an-exchange", "NXDOMAIN returned but no server said so", wit);
        }
        let from = srv.filter(|s| nx_srvs.contains(s));
        let trusted = from.map(|s| servers[s].trust_nx).unwrap_or_else(|| nx_srvs.iter().any(|s| servers[*s].trust_nx));
        let policy_changed = main_log.iter().any(|e| !e.connect && (e.step.starts_with("truncated") || e.step.starts_with("casemismatch")));
        if !trusted && !policy_changed && end < deadline {
            let untried: Vec<usize> = (0..servers.len()).filter(|s| !main_log.iter().any(|e| e.srv == *s)).collect();
            if !untried.is_empty() {
                l.violation(
                    "untrusted-nxdomain-ended-search",
                    &format!("NXDOMAIN of an untrusted server was returned at {} ms while server(s) {untried:?} were never asked", end - c.start),
                    wit,
                );
            }
        }
        if !trusted {
            l.outcome("untrusted-nx-returned-after-full-search");
        }
    }
    if main_log.iter().any(|e| !e.connect && e.step.starts_with("nxdomain") && !servers[e.srv].trust_nx) && definitive {
        l.outcome("untrusted-nx-continued");
    }

    // (5) a truncated UDP reply is retried over TCP
    for e in main_log.iter().filter(|e| !e.connect && !e.tcp && e.step.starts_with("truncated")) {
        let Some(tc_at) = e.end else { continue };
        if servers[e.srv].tcp.is_none() || tc_at >= deadline || tc_at >= end && definitive {
            continue;
        }
        let retried = main_log.iter().any(|x| x.srv == e.srv && x.tcp && x.start >= tc_at);
        // the search may legitimately end first with another server's definitive response
        // the search may legitimately end first with another server's definitive response; an
        // ending for a reason outside the statement's fault class (SERVFAIL, REFUSED, ...) is not judged
        let in_class_failure = matches!(res, Res::Timeout | Res::Io | Res::Busy | Res::NoConn | Res::OkEmpty { tc: true, .. } | Res::Nx { .. }) && !definitive
            || matches!(res, Res::Other(m) if m.contains("truncated"));
        if !retried && in_class_failure && end < deadline {
            l.violation("truncated-not-retried-over-tcp", "after a truncated UDP reply no TCP attempt was made to that server", wit);
        }
        if retried && matches!(res, Res::Answer { srv, tcp: true, .. } if *srv == e.srv) {
            l.outcome("tc-retried-over-tcp");
        }
    }
    if main_log.iter().any(|e| !e.connect && e.step.starts_with("busy")) && matches!(res, Res::Answer { .. }) {
        l.outcome("answer-after-busy");
    }
    if main_log.iter().any(|e| !e.connect && (e.step == "silent" || e.step.starts_with("ioerr") || e.step.starts_with("reset"))) && definitive {
        l.outcome("answer-after-transport-fault");
    }
    l.outcome(&format!("result:{}", res.class()));
    if obs.log.iter().any(|e| e.step == "closed" && e.owner == owner) && definitive {
        l.outcome("answer-after-idle-connection-closed");
    }
}

/// Oracle for family (iii): identical concurrent callers, one different query, <= 1 cancellation.
/// `single` is the same scenario run with the first caller (and the different-query caller) only.
fn judge_callers(case: &Case, obs: &Obs, single: &Obs, l: &mut Local) {
    let wit = || {
        let mut j = case.to_json();
        j["observed"] = obs.to_json();
        j["single_caller_run"] = single.to_json();
        j
    };
    if obs.hung {
        // find out who hangs
        let stranded = obs.callers.iter().enumerate().any(|(j, c)| c.end.is_none() && !c.cancelled && case.callers[j].tag == TAG_MAIN);
        l.violation(
            if stranded && case.callers.iter().any(|c| c.cancel.is_some()) { "waiter-stranded" } else { "no-completion" },
            "a non-cancelled caller never completed",
            wit,
        );
        return;
    }
    // per-caller clauses
    for (j, c) in obs.callers.iter().enumerate() {
        judge_caller(case, obs, c, owner_id(j), case.callers[j].tag, l, &wit);
        if case.callers[j].tag == TAG_OTHER {
            match &c.res {
                Some(Res::Answer { tag: TAG_OTHER, .. }) => {}
                other => l.violation(
                    "different-query-affected",
                    &format!("the concurrent different query did not get its own answer: {other:?}"),
                    wit,
                ),
            }
            if !obs.log.iter().any(|e| !e.connect && e.tag == TAG_OTHER && e.owner == owner_id(j)) {
                l.violation("different-query-affected:no-own-exchange", "the different query caused no exchange of its own", wit);
            }
        }
    }
    // sharing: walk the identical callers in arrival order
    let mut order: Vec<usize> = (0..case.callers.len()).filter(|j| case.callers[*j].tag == TAG_MAIN).collect();
    order.sort_by_key(|j| (case.callers[*j].arrive, *j));
    let own_exchanges = |j: usize| obs.log.iter().filter(|e| !e.connect && e.tag == TAG_MAIN && e.owner == owner_id(j)).count();
    let single_exchanges = single.log.iter().filter(|e| !e.connect && e.tag == TAG_MAIN).count();
    let cancel_of = |j: usize| case.callers[j].cancel.filter(|x| obs.callers[j].cancelled && *x >= case.callers[j].arrive);

    // The lookup instance the next arrival may have to share: created by `owner`, registered
    // (joinable) until `registered_until` (= the owner's completion, or its cancellation); after a
    // cancelled owner the exchange lives on for the attached waiters until `orphan_until`.
    struct Inst {
        owner: usize,
        owner_cancelled: bool,
        registered_until: u64,
        orphan_until: u64,
    }
    let mut cur: Option<Inst> = None;
    let mut waiter_cancelled = false;
    let mut first_instance = true;
    for &j in &order {
        let a = case.callers[j].arrive;
        let c = &obs.callers[j];
        if let Some(inst) = cur.as_mut() {
            if a == inst.registered_until {
                // arrival in the very instant the lookup completes / its creator is cancelled:
                // both orders are admissible, nothing is judged for this caller
                l.outcome("obs:arrival-ties-with-completion");
                if own_exchanges(j) == 0 {
                    continue;
                }
                // it started a lookup of its own: later arrivals are judged against that one
                cur = Some(match cancel_of(j) {
                    Some(x) => Inst { owner: j, owner_cancelled: true, registered_until: x, orphan_until: 0 },
                    None => Inst { owner: j, owner_cancelled: false, registered_until: c.end.unwrap_or(u64::MAX), orphan_until: 0 },
                });
                first_instance = false;
                continue;
            }
            if a < inst.registered_until {
                let o = inst.owner;
                if own_exchanges(j) > 0 {
                    let scene = if waiter_cancelled { "after-waiter-cancel" } else { "no-cancel" };
                    l.violation(
                        &format!("dedup-broken:{scene}"),
                        &format!(
                            "caller {j} arrived at {a} ms while the identical lookup of caller {o} was in flight and caused {} upstream exchange(s) of its own",
                            own_exchanges(j)
                        ),
                        wit,
                    );
                } else {
                    l.outcome("shared-with-creator");
                }
                if cancel_of(j).is_some() {
                    waiter_cancelled = true;
                } else if inst.owner_cancelled {
                    // waiter of a cancelled creator: must complete (no-completion is judged per
                    // caller); remember how long the orphaned exchange lives
                    inst.orphan_until = inst.orphan_until.max(c.end.unwrap_or(u64::MAX));
                    if c.end.is_some() {
                        l.outcome("waiter-survived-creator-cancel");
                    }
                } else {
                    let oc = &obs.callers[o];
                    if c.res != oc.res || c.end != oc.end {
                        l.violation(
                            "callers-disagree",
                            &format!("caller {j} shares the lookup of caller {o} but got {:?} at {:?} instead of {:?} at {:?}", c.res, c.end, oc.res, oc.end),
                            wit,
                        );
                    }
                }
                continue;
            }
            if a <= inst.orphan_until {
                // the creator of the still running exchange was cancelled: the statement does not
                // say who owns it now; hickory starts a second exchange. Observed, not judged.
                if own_exchanges(j) > 0 {
                    l.outcome("obs:new-exchange-while-orphaned-lookup-in-flight");
                } else {
                    l.outcome("obs:joined-orphaned-lookup");
                    continue;
                }
            }
        }
        // j creates a new lookup
        let cancelled_at = cancel_of(j);
        if own_exchanges(j) == 0 && !matches!(c.res, Some(Res::NoConn)) {
            l.violation(
                "stale-shared-result",
                &format!("caller {j} arrived at {a} ms with no identical lookup in flight but caused no upstream exchange"),
                wit,
            );
        }
        if first_instance {
            first_instance = false;
            if cancelled_at.is_none() {
                if own_exchanges(j) > single_exchanges {
                    l.violation(
                        "dedup-broken:extra-exchanges",
                        &format!("the shared lookup caused {} exchanges, a single caller causes {}", own_exchanges(j), single_exchanges),
                        wit,
                    );
                }
                let sc = &single.callers[0];
                if sc.res != c.res || sc.end != c.end {
                    l.violation(
                        "callers-disagree:creator-differs-from-single-run",
                        &format!("with waiters attached the creator got {:?} at {:?}; alone it gets {:?} at {:?}", c.res, c.end, sc.res, sc.end),
                        wit,
                    );
                }
            }
        }
        cur = Some(match cancelled_at {
            Some(x) => Inst { owner: j, owner_cancelled: true, registered_until: x, orphan_until: 0 },
            None => Inst { owner: j, owner_cancelled: false, registered_until: c.end.unwrap_or(u64::MAX), orphan_until: 0 },
        });
    }
    for f in &obs.followups {
        judge_caller(case, obs, f, FOLLOWUP_OWNER, TAG_MAIN, l, &wit);
        if f.end.is_some() && !obs.log.iter().any(|e| !e.connect && e.owner == FOLLOWUP_OWNER) && !matches!(f.res, Some(Res::NoConn)) {
            l.violation("stale-shared-result:after-quiescence", "a lookup issued after all callers completed caused no upstream exchange", wit);
        }
    }
}

// ------------------------------------------------------------------------------------------
// families

/// `tcp_mode`: 0 = UDP+TCP, TCP reachable; 1 = UDP+TCP, TCP connection refused; 2 = configured with UDP only.
fn behaviour_srv(b: u64, i: usize, tcp_mode: u64, trust: bool, srtt: u32) -> Srv {
    let f = fast(i, false);
    let ft = fast(i, true);
    let udp = match b {
        0 => Script::constant(Step::Answer(f)),
        1 => Script::constant(Step::NxDomain(f)),
        2 => Script::constant(Step::Truncated(f)),
        3 => Script::constant(Step::Silent),
        4 => Script::constant(Step::IoErr(f)),
        5 => Script { steps: vec![Step::Busy(0)], rest: Step::Answer(f) },
        // latency classes (thorough tier): the 0.6 T variants
        6 => Script::constant(Step::Answer(SLOW)),
        7 => Script::constant(Step::NxDomain(SLOW)),
        8 => Script::constant(Step::Truncated(SLOW)),
        _ => Script::constant(Step::IoErr(SLOW)),
    };
    // over TCP a server behaves as over UDP, except that the truncating one answers in full
    let tcp = match b {
        0 | 2 | 5 | 6 | 8 => Script::constant(Step::Answer(ft)),
        1 | 7 => Script::constant(Step::NxDomain(ft)),
        3 => Script::constant(Step::Silent),
        _ => Script::constant(Step::IoErr(ft)),
    };
    Srv {
        udp,
        tcp: if tcp_mode == 2 { None } else { Some(tcp) },
        tcp_conn: Script::constant(if tcp_mode == 0 { ConnStep::Ok } else { ConnStep::Refused(ft) }),
        trust_nx: trust,
        srtt,
 no_udp: false,
    }
}

const TCP_MODES: [&str; 3] = ["udp+tcp", "udp+tcp(tcp-refused)", "udp-only"];

/// Per-server protocol modes of a coarse case: for n <= 3 every assignment of the three modes
/// (digit in base 3 per server); for n = 4 the patterns {all reachable, all refused, first server
/// UDP-only}.
fn tcp_modes(n: usize, digit: u64) -> Vec<u64> {
    if n <= 3 {
        let mut d = digit;
        (0..n)
            .map(|_| {
                let m = d % 3;
                d /= 3;
                m
            })
            .collect()
    } else {
        match digit {
            0 => vec![0; n],
            1 => (0..n).map(|i| if i == 0 { 2 } else { 0 }).collect(),
            _ => vec![1; n],
        }
    }
}

fn tcp_radix(n: usize) -> u64 {
    if n <= 3 {
        3u64.pow(n as u32)
    } else {
        3
    }
}

const BEHAVIOURS: [&str; 10] = [
    "answer",
    "nxdomain",
    "truncated-then-tcp-answer",
    "timeout",
    "io-error",
    "busy-then-answer",
    "answer@0.6T",
    "nxdomain@0.6T",
    "truncated@0.6T-then-tcp-answer",
    "io-error@0.6T",
];

/// Family (i): decode index -> list of cases (the trust flags of the NXDOMAIN servers are
/// enumerated inside).
fn coarse_cases(n: usize, d: &[u64]) -> Vec<Case> {
    // d = [b_0..b_{n-1}, strategy, conc, tcp]
    let beh = &d[..n];
    let strat = d[n];
    let conc = d[n + 1] as usize + 1;
    let modes = tcp_modes(n, d[n + 2]);
    // strategies: 0 user, 1..=n roundrobin with r = strat-1 warm-ups, n+1 / n+2 query statistics
    let (strategy, warmups, srtt_desc) = if strat == 0 {
        ("user", 0, false)
    } else if strat <= n as u64 {
        ("roundrobin", strat as usize - 1, false)
    } else {
        ("querystats", 0, strat == n as u64 + 2)
    };
    let nx: Vec<usize> = (0..n).filter(|i| beh[*i] == 1 || beh[*i] == 7).collect();
    let mut out = vec![];
    for mask in 0..(1u32 << nx.len()) {
        let servers = (0..n)
            .map(|i| {
                let trust = match nx.iter().position(|x| *x == i) {
                    Some(p) => mask & (1 << p) == 0,
                    None => true,
                };
                let srtt = if srtt_desc { 10 + 3 * (n - i) as u32 } else { 10 + 3 * i as u32 };
                behaviour_srv(beh[i], i, modes[i], trust, srtt)
            })
            .collect();
        out.push(Case::single("coarse", servers, strategy, warmups, conc));
    }
    out
}

fn run_single(case: &Case, l: &mut Local) -> Obs {
    l.eval();
    let (obs, _) = execute(case, None, &Alphabets::default());
    judge_single(case, &obs, l);
    note_first_server(case, &obs, l);
    obs
}

/// Which server the strategy put first (observation only; shows that the strategies are live).
fn note_first_server(case: &Case, obs: &Obs, l: &mut Local) {
    if case.servers.len() < 2 || case.strategy == "user" {
        return;
    }
    if let Some(e) = obs.log.iter().find(|e| !e.connect && e.owner == owner_id(0)) {
        let lowest_srtt = (0..case.servers.len()).min_by_key(|i| case.servers[*i].srtt).unwrap();
        match case.strategy.as_str() {
            "roundrobin" => l.outcome(if e.srv == 0 { "obs:roundrobin-first=configured-first" } else { "obs:roundrobin-first=rotated" }),
            _ => l.outcome(if e.srv == lowest_srtt { "obs:querystats-first=lowest-srtt" } else { "obs:querystats-first=other" }),
        }
    }
}

fn nontrivial_mark(case: &Case, l: &mut Local) {
    let healthy = case.servers.iter().any(|s| s.udp.steps.is_empty() && matches!(s.udp.rest, Step::Answer(_)));
    let faulty = case.servers.iter().any(|s| !(s.udp.steps.is_empty() && matches!(s.udp.rest, Step::Answer(_))));
    if healthy && faulty {
        l.nontrivial(fnv_str(&case.to_json().to_string()));
    }
}

fn refine_alphabets(thorough: bool) -> Alphabets {
    // index 0 (not listed) is always "the script's rest step" = answer fast
    let mut udp = vec![
        Step::Answer(SLOW),
        Step::NxDomain(24),
        Step::Truncated(24),
        Step::Silent,
        Step::IoErr(24),
        Step::IoErr(SLOW),
        Step::IoErr(900),
        Step::Reset(24),
        Step::Busy(0),
        Step::ServFail(24),
        Step::Refused(24),
        Step::NoData(24),
        Step::CaseMismatch(24),
    ];
    if thorough {
        udp.push(Step::NxDomain(SLOW));
        udp.push(Step::Truncated(SLOW));
        udp.push(Step::Busy(SLOW));
    }
    let tcp = vec![
        Step::AnswerClose(fast(0, true)),
        Step::CloseNoAnswer(28),
        Step::Answer(SLOW),
        Step::NxDomain(28),
        Step::Silent,
        Step::IoErr(28),
        Step::Reset(28),
        Step::Busy(0),
        Step::Truncated(28),
        Step::ServFail(28),
    ];
    let conn = vec![ConnStep::Refused(28), ConnStep::Timeout(400), ConnStep::Refused(SLOW)];
    Alphabets { udp, tcp, conn }
}

/// Static configurations under which family (ii) explores deviations.
fn refine_configs(thorough: bool) -> Vec<Case> {
    let mut out = vec![];
    let ns: &[usize] = if thorough { &[1, 2, 3, 4] } else { &[1, 2, 3] };
    for &n in ns {
        for conc in [1usize, 2] {
            if conc > n {
                continue;
            }
            for (strategy, warmups) in [("user", 0usize), ("roundrobin", 1), ("querystats", 0)] {
                if n == 1 && strategy != "user" {
                    continue;
                }
                // which servers are configured with UDP only (every subset for n <= 3; none / all /
                // first / last for n = 4); trust: all / none; busy runs: a server that is busy k
                // times before following its script
                let mut masks: Vec<u32> = if n <= 3 { (0..(1u32 << n)).collect() } else { vec![0, (1 << n) - 1, 1, 1 << (n - 1)] };
                if (strategy != "user" || !thorough) && n >= 3 {
                    // the order-insensitive strategies (quick: all) only with none / all / first / last UDP-only
                    masks.retain(|m| [0, (1 << n) - 1, 1, 1 << (n - 1)].contains(m));
                }
                if !thorough && strategy != "user" && n >= 3 {
                    masks.retain(|m| [0, (1 << n) - 1].contains(m));
                }
                for udp_only in masks {
                    for trust in [true, false] {
                        for busy_run in [0usize, 2, 5] {
                            if busy_run > 0 && (udp_only != 0 || !trust || strategy != "user") {
                                continue;
                            }
                            let servers = (0..n)
                                .map(|i| Srv {
                                    udp: Script { steps: if i == 0 { vec![Step::Busy(0); busy_run] } else { vec![] }, rest: Step::Answer(fast(i, false)) },
                                    tcp: if udp_only & (1 << i) == 0 { Some(Script::constant(Step::Answer(fast(i, true)))) } else { None },
                                    tcp_conn: Script::constant(ConnStep::Ok),
                                    trust_nx: trust,
                                    srtt: 10 + 3 * i as u32,
 no_udp: false,
                                })
                                .collect();
                            let mut c = Case::single("refine", servers, strategy, warmups, conc);
                            c.extra_lookups = 2;
                            out.push(c.clone());
                            // the same with a first server that truncates every UDP reply: every
                            // lookup then goes through its TCP connection, which is reused
                            if busy_run == 0 && trust && udp_only & 1 == 0 && strategy == "user" && (thorough || n <= 2) {
                                c.servers[0].udp = Script::constant(Step::Truncated(fast(0, false)));
                                out.push(c);
                            }
                        }
                    }
                }
            }
        }
    }
    out
}

/// Family (iii) base scenarios: behaviour assignments to 1..=2 servers.
fn caller_scenarios(thorough: bool) -> Vec<(Vec<Srv>, usize)> {
    let mut out = vec![];
    let mk = |beh: &[u64]| -> Vec<Srv> {
        beh.iter()
            .enumerate()
            .map(|(i, b)| {
                let mut s = behaviour_srv(*b % 10, i, 0, *b < 10, 10 + 3 * i as u32);
                if *b % 10 == 4 {
                    // an I/O error that takes a while: the lookup is mid-flight for longer
                    s.udp = Script::constant(Step::IoErr(SLOW / 2));
                }
                s
            })
            .collect()
    };
    // one server: every behaviour; two servers: (faulty | answering, answering | faulty)
    for b in 0..6u64 {
        out.push((mk(&[b]), 1));
    }
    let pairs: Vec<[u64; 2]> = if thorough {
        (0..6u64).flat_map(|a| (0..6u64).map(move |b| [a, b])).collect()
    } else {
        vec![[4, 0], [2, 0], [5, 3], [11, 0], [3, 0], [4, 4], [0, 3]]
    };
    for p in pairs {
        out.push((mk(&p), 1));
        if thorough || p == [3, 0] || p == [4, 0] {
            out.push((mk(&p), 2));
        }
    }
    out
}

/// All caller plans for a scenario: k identical callers, one different query, arrivals and at most
/// one cancellation at instants derived from the single-caller run's event instants.
fn caller_plans(single: &Obs, k: usize, thorough: bool) -> Vec<Vec<CallerPlan>> {
    let done = single.callers[0].end.unwrap_or(T_MS);
    // Upstream events of the first lookup happen at multiples of 4 ms (all scripted latencies and
    // the pool's back-off are). Arrivals are placed 1 ms before/after every event, cancellations
    // 2 ms before/after, so that no action ties with an event of the first lookup or with each
    // other.
    let mut events: BTreeSet<u64> = BTreeSet::new();
    events.insert(0);
    for e in single.log.iter().filter(|e| e.connect || e.tag == TAG_MAIN) {
        for t in [Some(e.start), e.end].into_iter().flatten() {
            if t <= done {
                events.insert(t);
            }
        }
    }
    let around = |d: u64| -> Vec<u64> {
        let mut v: BTreeSet<u64> = BTreeSet::new();
        for e in &events {
            if *e >= d + 1 && e - d < done {
                v.insert(e - d);
            }
            if e + d < done {
                v.insert(e + d);
            }
        }
        v.into_iter().collect()
    };
    let thin = |v: Vec<u64>| -> Vec<u64> {
        if thorough || v.len() <= 5 {
            return v;
        }
        // quick tier: the first two, the middle one and the last two instants
        let n = v.len();
        let mut w = vec![v[0], v[1], v[n / 2], v[n - 2], v[n - 1]];
        w.dedup();
        w
    };
    let mut arrivals: Vec<u64> = vec![0];
    arrivals.extend(thin(around(1)));
    arrivals.push(done + 1);
    let mut cancels: Vec<u64> = thin(around(2));
    cancels.push(done + 2);

    let mut plans = vec![];
    // arrival vectors for callers 1..k (caller 0 arrives at 0), non-decreasing to drop symmetric
    // duplicates
    let mut arr_vecs: Vec<Vec<u64>> = vec![vec![]];
    for _ in 1..k {
        let mut next = vec![];
        for v in &arr_vecs {
            for a in &arrivals {
                if v.last().map(|x| a >= x).unwrap_or(true) {
                    let mut w = v.clone();
                    w.push(*a);
                    next.push(w);
                }
            }
        }
        arr_vecs = next;
    }
    for av in arr_vecs {
        let mut base: Vec<CallerPlan> = vec![CallerPlan { tag: TAG_MAIN, arrive: 0, cancel: None }];
        for a in &av {
            base.push(CallerPlan { tag: TAG_MAIN, arrive: *a, cancel: None });
        }
        base.push(CallerPlan { tag: TAG_OTHER, arrive: 0, cancel: None });
        plans.push(base.clone());
        // the different query may also arrive while the first lookup is in flight (it then meets
        // connections the first lookup opened, possibly already failed)
        let other_mid = arrivals.get(1).copied().filter(|a| *a > 0 && *a < done);
        if let Some(a) = other_mid {
            let mut p = base.clone();
            p[k].arrive = a;
            plans.push(p);
        }
        for target in 0..k {
            for x in &cancels {
                if *x > base[target].arrive {
                    let mut p = base.clone();
                    p[target].cancel = Some(*x);
                    plans.push(p.clone());
                    if thorough {
                        if let Some(a) = other_mid {
                            let mut q = p.clone();
                            q[k].arrive = a;
                            plans.push(q);
                        }
                        // a second cancellation (another identical caller, not earlier)
                        for t2 in target + 1..k {
                            for y in &cancels {
                                if *y > base[t2].arrive {
                                    let mut q = p.clone();
                                    q[t2].cancel = Some(*y);
                                    plans.push(q);
                                }
                            }
                        }
                    }
                }
            }
        }
    }
    plans
}

fn main() {
    // a stack overflow / abort in the code under test must become a verdict, not a dead check
    vcore::supervise("C18");
    vcore::install_log_evaluation(); // logging is part of the environment: log arguments are evaluated as under a real subscriber
    let ctx = Ctx::from_args("C18", "fault_enumeration");
    let thorough = !ctx.quick();

    if let Some((_key, v)) = ctx.replay_case().filter(|(_, v)| v["family"].as_str() == Some("ctor")) {
        ctx.with_local(|l| {
            {
                let leak = |a: &Value| -> Vec<&'static str> { a.as_array().map(|x| x.iter().filter_map(|s| s.as_str()).map(|s| &*Box::leak(s.to_string().into_boxed_str())).collect()).unwrap_or_default() };
                let p = CtorProbe {
                    name: Box::leak(v["probe"].as_str().unwrap_or("").to_string().into_boxed_str()),
                    servers: v["servers"].as_array().map(|a| a.iter().map(|s| (stock::StockSrv::from_json(&s["behaviour"]), s["trust_negative_responses"].as_bool().unwrap_or(true))).collect()).unwrap_or_default(),
                    vals: (v["timeout_ms"].as_u64().unwrap_or(700), v["connect_timeout_ms"].as_u64().unwrap_or(300), v["attempts"].as_u64().unwrap_or(1) as usize, v["num_concurrent_reqs"].as_u64().unwrap_or(3) as usize),
                    deny_answers: leak(&v["deny_answers"]),
                    allow_answers: leak(&v["allow_answers"]),
                };
                l.eval();
                let o = ctor_run(&p);
                judge_ctor(&p, &o, l);
            }
        });
        ctx.finish(false);
    }
    if let Some((_key, case)) = ctx.replay_case() {
        let case = Case::from_json(&case);
        ctx.with_local(|l| {
            if case.family == "stock" {
                let sc = StockCase::from_json(&ctx.replay_case().unwrap().1);
                run_stock(&sc, l);
            } else if case.family == "retry" {
                let attempts = ctx.replay_case().map(|(_, v)| v["retry_attempts"].as_u64().unwrap_or(1) as usize).unwrap_or(1);
                l.eval();
                let (obs, sends) = execute_retry(&case, attempts);
                judge_retry(&case, attempts, &obs, &sends, l);
            } else if case.family == "callers" {
                let mut sc = case.clone();
                sc.callers = vec![case.callers[0].clone(), case.callers.last().unwrap().clone()];
                sc.callers[0].cancel = None;
                sc.callers[1].arrive = 0;
                let (single, _) = execute(&sc, None, &Alphabets::default());
                l.eval();
                let (obs, _) = execute(&case, None, &Alphabets::default());
                judge_callers(&case, &obs, &single, l);
            } else {
                run_single(&case, l);
            }
        });
        ctx.finish(false);
    }

    ctx.set_rule(
        "(i) every assignment of {answer, NXDOMAIN, truncated-then-TCP-answer, timeout, io-error, busy-then-answer} to n=1..4 servers x \
         {UserProvidedOrder, RoundRobin after 0..n-1 earlier lookups, QueryStatistics with ascending/descending pinned SRTT} x \
         num_concurrent_reqs {1,2,3} x per-server protocol set {UDP+TCP reachable, UDP+TCP with TCP refused, UDP only} (every assignment for n<=3; all-reachable / all-refused / first-server-UDP-only for n=4) x trust_negative_responses of every NXDOMAIN server; \
         (ii) every schedule with <= d deviations (d=2; thorough d=3 for n<=2 and for n=3 in user order with one request at a time) from 'every exchange is answered fast' over the alphabet \
         {answer 0.6T, NXDOMAIN, truncated, silent(>T), io-error fast/0.6T, reset, busy, SERVFAIL, REFUSED, NODATA, case-mismatch; TCP connect refused/timeout} \
         under static configurations n x conc x strategy x every subset of UDP-only servers (n<=3) x trust x busy runs {0,2,5} x {first server answers / truncates every UDP reply}, each a SESSION of three sequential lookups on the same pool, every one judged in full against the scripts and TCP connections as they stand when it starts (TCP connections are the real DnsExchange over a scripted transport; TCP alphabet incl. 'answer, then the server closes the idle connection' and 'the server closes the connection instead of answering'); \
         (iii) k in {2,3} identical callers + one different query, arrival and at most one (thorough: two) cancellation(s) (creator and/or waiters) at the instants \
         just before/after every upstream event of the scenario, plus arrival just after completion and a follow-up after quiescence; the different query arrives at t0 or mid-flight. \
         (v) RetryDnsHandle::new(pool, attempts 0..2 (3)) over 1-2 servers each failing k=1..3 (4) times with one of {io-error, silent, busy, SERVFAIL, untrusted NXDOMAIN, reset} before answering (or answering / trusted NXDOMAIN at once): every pool lookup judged as in (i), at most attempts+1 of them, the last one's result returned, responses never retried, io-errors/timeouts retried while attempts remain, total <= (attempts+1) x timeout. \
         (vi) the pool through hickory's STOCK ConnectionProvider (connection_provider.rs) over a simulated RuntimeProvider (scripted connect_tcp / bind_udp, simulated TCP byte streams and UDP sockets speaking real wire format; real UdpClientStream, TcpClientStream::exchange, DnsMultiplexer, DnsExchange inside): timeout T=1000 x connect_timeout C in {400 (C<T), 1000 (C=T), 1600 (C>T)} x 1-2 servers, each {UDP-only: answer after {10, min(C,T)-50, (C+T)/2, T-50, never}; TCP-only and UDP(truncates)+TCP: connect {at once, after C-50, after (C+T)/2, black hole, refused} x answer after the same delays} (quick: one server of a pair from a 6-element partner set) x num_concurrent_reqs {1,2} x strategy {user; thorough also QueryStatistics} x profile {all other knobs default | all off default: case_randomization, EDNS off, port 5353, bind_addr, max_active_requests 2, os_port_selection, avoid_local_udp_ports}; judged by the same oracle against the DOCUMENTED meaning of the two timeouts (connect bounded by connect_timeout, every request by timeout, the lookup by the pool deadline). \
         (vii) the production construction path Resolver::builder_with_config(ResolverConfig::from_name_servers(..), provider).with_options(ResolverOpts).build() (-> PoolContext, NameServerPool::from_config, RetryDnsHandle) over the simulated RuntimeProvider with EVERY knob at a non-default value and same-typed neighbours at different values, two value sets (timeout 700/900, connect_timeout 300/500, attempts 1/2, num_concurrent_reqs 3/2, UserProvidedOrder, edns0 off, case_randomization on, hosts file off, per-server trust_negative_responses, port 5353, bind_addr, deny_answers/allow_answers) x 8 probes each of which only one knob explains (silent server -> (attempts+1) x timeout; black-holed TCP -> connect_tcp is given connect_timeout; four silent servers -> the first num_concurrent_reqs in configured order asked at t=0; untrusted/trusted NXDOMAIN next to an answer, also with the flags on the other server; denied / excepted answer address; OPT, name case, port, bind address seen by the servers). Not driven: Resolver::builder(provider) / builder_tokio() (read the system's resolv.conf). try_tcp_on_error is read by no code. \
         timeout = 1000 ms virtual. Oracle: completion - start <= timeout; result sound (answer produced by a completed exchange, never TC when TCP is healthy); \
         a definitive result whenever every admissible reading of the documented search procedure (reference walk) reaches one strictly within the budget; \
         untrusted NXDOMAIN never ends the search; truncated UDP is followed by a TCP attempt; overlapping identical callers cause no exchange of their own and get the creator's result. \
         Non-trivial = distinct case with at least one faulty and one healthy server.",
    );
    ctx.assume("the scripted ConnectionProvider stands for the transports: a silent server surfaces as NetError::Timeout after options.timeout, as the real UDP/TCP streams do");
    ctx.assume("busy back-off schedule (20 ms doubling, give up at >= 300 ms) and batch-wise search are taken from the pool's documentation as the meaning of 'the time budget allows'");
    ctx.assume("tokio's paused clock + hook clock: all time the pool reads is virtual; DecayingSrtt's real-clock reads only affect the ordering of later lookups (not judged)");

    let alph_none = Alphabets::default();

    // ---------------- (i) coarse product
    let mut total_space = 0u64;
    let nbeh: u64 = if thorough { 10 } else { 6 };
    ctx.set("coarse_behaviours", json!(BEHAVIOURS[..nbeh as usize]));
    for n in 1..=4usize {
        let mut rad: Vec<u64> = vec![nbeh; n];
        rad.push(n as u64 + 3); // strategies
        rad.push(3); // conc
        // per-server protocol modes (quick, n = 4: all reachable / first server UDP-only)
        rad.push(if n == 4 && !thorough { 2 } else { tcp_radix(n) });
        let od = Odometer::new(&rad);
        let space = od.space();
        total_space += space;
        ctx.par_run(space, 16, |i, l| {
            let d = od.get(i);
            for case in coarse_cases(n, &d) {
                let obs = run_single(&case, l);
                nontrivial_mark(&case, l);
                // determinism self-test on a slice
                if i % 8 == 0 && i < 8 * 400 {
                    let (again, _) = execute(&case, None, &alph_none);
                    if again.digest() != obs.digest() {
                        ctx.machinery_failure(&format!("nondeterminism: case {} gave two different observations", case.to_json()));
                    }
                    l.outcome("selftest:replayed-identically");
                }
                if i % 20011 == 0 {
                    l.sample(json!({"family": "coarse", "behaviours": d[..n].iter().map(|b| BEHAVIOURS[*b as usize]).collect::<Vec<_>>(), "strategy": case.strategy, "warmups": case.warmups, "conc": case.conc, "protocols": tcp_modes(n, d[n + 2]).iter().map(|m| TCP_MODES[*m as usize]).collect::<Vec<_>>(),
                        "result": obs.callers[0].res.as_ref().map(|r| r.class()), "elapsed_ms": obs.callers[0].end}));
                }
            }
        });
    }
    ctx.set("coarse_assignments_x_config", json!(total_space));
    ctx.set("coarse_runs", json!(ctx.evals()));

    // ---------------- (ii) deviation-bounded refinement
    let alph = refine_alphabets(thorough);
    let configs = refine_configs(thorough);
    let mut sched_runs = 0u64;
    let mut max_points = 0usize;
    for cfg in &configs {
        // three deviations only where the space stays small: <= 2 servers, or 3 servers asked
        // one at a time in the configured order
        let bound = if thorough && (cfg.servers.len() <= 2 || (cfg.servers.len() == 3 && cfg.strategy == "user" && cfg.conc == 1)) { 3 } else { 2 };
        let st = vcore::explore_deviations(&ctx, bound, |ch, l| {
            l.eval();
            let (obs, ch2) = execute(cfg, Some(ch.clone()), &alph);
            if let Some(c2) = ch2 {
                *ch = c2;
            }
            judge_single(cfg, &obs, l);
            note_first_server(cfg, &obs, l);
            if ch.deviations() <= 1 {
                // determinism self-test: the same choices must give the same observations (the
                // follow-up under QueryStatistics is left out: its server order depends on SRTT
                // decay, which hickory computes from the real clock)
                let (mut again, _) = execute(cfg, Some(Chooser::new(ch.choices())), &alph);
                let mut first = obs.clone();
                if cfg.strategy == "querystats" {
                    for o in [&mut again, &mut first] {
                        o.followups.clear();
                        o.log.retain(|e| e.owner < FOLLOWUP_OWNER && !e.connect);
                        o.servers.clear();
                    }
                }
                if again.digest() != first.digest() {
                    ctx.machinery_failure(&format!("nondeterminism: schedule {:?} of {} gave two different observations", ch.choices(), cfg.to_json()));
                }
                l.outcome("selftest:replayed-identically");
            }
            let mut realized = cfg.clone();
            realized.servers = obs.servers.clone();
            nontrivial_mark(&realized, l);
            if ch.deviations() == bound && ch.choices().iter().sum::<u32>() % 97 == 0 {
                l.sample(json!({"family": "refine", "choices": ch.choices(), "n": cfg.servers.len(), "conc": cfg.conc, "strategy": cfg.strategy,
                    "result": obs.callers[0].res.as_ref().map(|r| r.class()), "elapsed_ms": obs.callers[0].end}));
            }
        });
        sched_runs += st.executions;
        max_points = max_points.max(st.max_points);
        if ctx.out_of_time() {
            break;
        }
    }
    ctx.set("refine_configs", json!(configs.len()));
    ctx.set("refine_schedules", json!(sched_runs));
    ctx.set("refine_deviation_bound", json!(if thorough { "3 for n<=2 and for n=3/user order/conc 1, else 2" } else { "2" }));
    ctx.set("refine_max_decision_points", json!(max_points));

    // ---------------- (iii) callers
    let scenarios = caller_scenarios(thorough);
    let mut jobs: Vec<(Case, Arc<Obs>)> = vec![];
    for (servers, conc) in &scenarios {
        let mut sc = Case::single("callers", servers.clone(), "user", 0, *conc);
        sc.callers.push(CallerPlan { tag: TAG_OTHER, arrive: 0, cancel: None });
        let (single, _) = execute(&sc, None, &alph_none);
        let single = Arc::new(single);
        for k in [2usize, 3] {
            for plan in caller_plans(&single, k, thorough) {
                let mut c = sc.clone();
                c.callers = plan;
                c.extra_lookups = 1;
                jobs.push((c, single.clone()));
            }
        }
    }
    ctx.set("caller_scenarios", json!(scenarios.len()));
    ctx.set("caller_plans", json!(jobs.len()));
    ctx.par_run(jobs.len() as u64, 8, |i, l| {
        let (case, single) = &jobs[i as usize];
        l.eval();
        let (obs, _) = execute(case, None, &alph_none);
        judge_callers(case, &obs, single, l);
        l.nontrivial(fnv_str(&case.to_json().to_string()));
        if i % 8 == 0 && i < 8 * 300 {
            let (again, _) = execute(case, None, &alph_none);
            if again.digest() != obs.digest() {
                ctx.machinery_failure(&format!("nondeterminism: caller plan {} gave two different observations", case.to_json()));
            }
            l.outcome("selftest:replayed-identically");
        }
        if i % 5003 == 0 {
            l.sample(json!({"family": "callers", "callers": case.to_json()["callers"], "results": obs.callers.iter().map(|c| c.res.as_ref().map(|r| r.class())).collect::<Vec<_>>() }));
        }
    });

    // ---------------- (v) RetryDnsHandle on top of the pool
    {
        // per server: k failures of one kind, then answers; or a plain answer / trusted NXDOMAIN
        let mut behaviours: Vec<(String, Script<Step>, bool)> = vec![
            ("answer".into(), Script::constant(Step::Answer(20)), true),
            ("nxdomain".into(), Script::constant(Step::NxDomain(20)), true),
        ];
        let kmax = if thorough { 4 } else { 3 };
        for (name, step) in [("ioerr", Step::IoErr(24)), ("silent", Step::Silent), ("busy", Step::Busy(0)), ("servfail", Step::ServFail(24)), ("nxdomain-untrusted", Step::NxDomain(24)), ("reset", Step::Reset(24))] {
            for k in 1..=kmax {
                behaviours.push((format!("{name}x{k}-then-answer"), Script { steps: vec![step; if name == "busy" { 3 * k } else { k }], rest: Step::Answer(20) }, name != "nxdomain-untrusted"));
            }
        }
        let mut jobs: Vec<(Case, usize)> = vec![];
        let nb = behaviours.len();
        for n in 1..=2usize {
            for code in 0..nb.pow(n as u32) {
                let idx: Vec<usize> = (0..n).map(|i| (code / nb.pow(i as u32)) % nb).collect();
                let servers: Vec<Srv> = idx
                    .iter()
                    .enumerate()
                    .map(|(i, b)| Srv {
                        udp: behaviours[*b].1.clone(),
                        tcp: Some(Script::constant(Step::Answer(fast(i, true)))),
                        tcp_conn: Script::constant(ConnStep::Ok),
                        trust_nx: behaviours[*b].2,
                        srtt: 10 + 3 * i as u32,
 no_udp: false,
                    })
                    .collect();
                for conc in 1..=n {
                    for attempts in 0..=if thorough { 3 } else { 2 } {
                        jobs.push((Case::single("retry", servers.clone(), "user", 0, conc), attempts));
                    }
                }
            }
        }
        ctx.set("retry_cases", json!(jobs.len()));
        ctx.par_run(jobs.len() as u64, 8, |i, l| {
            let (case, attempts) = &jobs[i as usize];
            l.eval();
            let (obs, sends) = execute_retry(case, *attempts);
            judge_retry(case, *attempts, &obs, &sends, l);
            l.nontrivial(fnv_str(&format!("{}{attempts}", case.to_json())));
            if i % 16 == 0 {
                let (again, sends2) = execute_retry(case, *attempts);
                if again.digest() != obs.digest() || sends2 != sends {
                    ctx.machinery_failure(&format!("nondeterminism: retry case {} gave two different observations", case.to_json()));
                }
                l.outcome("selftest:replayed-identically");
            }
            if i % 1009 == 0 {
                l.sample(json!({"family": "retry", "attempts": attempts, "servers": case.to_json()["servers"], "pool_lookups": sends.len(), "result": obs.callers[0].res.as_ref().map(|r| r.class())}));
            }
        });
    }

    // ---------------- (vi) stock ConnectionProvider over the simulated RuntimeProvider
    {
        let mut jobs: Vec<StockCase> = vec![];
        for connect_ms in [400u64, 1000, 1600] {
            for profile in [0u8, 1] {
                let port = if profile == 0 { 53 } else { 5353 };
                let beh = stock_behaviours(connect_ms, port);
                // a few fixed partners for the two-server cases of the quick tier
                let partners: Vec<usize> = beh
                    .iter()
                    .enumerate()
                    .filter(|(_, b)| {
                        (b.proto == 0 && (b.udp_reply == Some(10) || b.udp_reply.is_none()))
                            || (b.proto != 0 && b.conn == stock::Conn::After(0) && b.tcp_reply == Some(10))
                            || (b.proto == 1 && b.conn == stock::Conn::BlackHole && b.tcp_reply == Some(10))
                    })
                    .map(|(i, _)| i)
                    .collect();
                for a in 0..beh.len() {
                    jobs.push(StockCase { servers: vec![beh[a].clone()], connect_ms, conc: 1, strategy: "user".into(), profile });
                    for b in 0..beh.len() {
                        if !thorough && !partners.contains(&a) && !partners.contains(&b) {
                            continue;
                        }
                        for conc in [1usize, 2] {
                            for strategy in ["user", "querystats"] {
                                if strategy != "user" && (profile == 1 || !thorough && !(partners.contains(&a) && partners.contains(&b))) {
                                    continue;
                                }
                                jobs.push(StockCase { servers: vec![beh[a].clone(), beh[b].clone()], connect_ms, conc, strategy: strategy.into(), profile });
                            }
                        }
                    }
                }
            }
        }
        ctx.set("stock_provider_cases", json!(jobs.len()));
        ctx.par_run(jobs.len() as u64, 8, |i, l| {
            let sc = &jobs[i as usize];
            let obs = run_stock(sc, l);
            l.nontrivial(fnv_str(&sc.to_json().to_string()));
            if i % 16 == 0 {
                let (again, _) = execute_stock(sc);
                if again.digest() != obs.digest() {
                    ctx.machinery_failure(&format!("nondeterminism: stock-provider case {} gave two different observations", sc.to_json()));
                }
                l.outcome("selftest:replayed-identically");
            }
            if i % 2003 == 0 {
                l.sample(json!({"family": "stock", "case": sc.to_json(), "result": obs.callers[0].res.as_ref().map(|r| r.class()), "elapsed_ms": obs.callers[0].end}));
            }
        });
    }

    // ---------------- (vii) production construction path
    {
        let probes = ctor_probes();
        ctx.set("construction_path_probes", json!(probes.len()));
        ctx.par_run(probes.len() as u64, 1, |i, l| {
            let p = &probes[i as usize];
            l.eval();
            let o = ctor_run(p);
            judge_ctor(p, &o, l);
            l.nontrivial(fnv_str(&format!("{p:?}")));
        });
    }

    // ---------------- vacuity
    for class in [
        "answer-after-transport-fault",
        "tc-retried-over-tcp",
        "untrusted-nx-continued",
        "answer-after-busy",
        "walk:definitive-demanded",
        "walk:not-demanded",
        "later-lookup-judged",
        "answer-after-idle-connection-closed",
        "retry:answer-on-a-later-attempt",
        "retry:attempts-used=1",
        "retry:attempts-used=3",
        "stock:answer-over-real-tcp-stack",
        "stock:answer-over-real-udp-stack",
        "construction-path-probe",
        "shared-with-creator",
        "waiter-survived-creator-cancel",
        "selftest:replayed-identically",
        "obs:roundrobin-first=rotated",
        "obs:roundrobin-first=configured-first",
        "obs:querystats-first=lowest-srtt",
        "deadline-late",
    ] {
        // "deadline-late" is the known defect; once it is fixed the class legitimately vanishes
        if class == "deadline-late" {
            continue;
        }
        if ctx.outcome_count(class) == 0 {
            ctx.machinery_failure(&format!("vacuous run: outcome class '{class}' was never exercised"));
        }
    }
    ctx.finish(true);
}
