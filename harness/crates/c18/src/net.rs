//! The scripted network of the C18 check: a `ConnectionProvider` whose connections answer from a
//! per-(server, protocol) script under tokio's paused clock, with a complete exchange log.
//!
//! A *script* is a list of steps consumed one per upstream exchange plus a `rest` step used once
//! the list is exhausted. In dynamic (E-SCHED) mode an exhausted list asks the `Chooser` for the
//! next step (index 0 = "answer fast") and appends the choice, so that after the run the scripts
//! describe the run completely and a replay needs no chooser.

use std::collections::BTreeMap;
use std::future::Future;
use std::net::IpAddr;
use std::pin::Pin;
use std::sync::{Arc, Mutex};
use std::time::Duration;

use futures_util::{stream, Stream};
use hickory_net::runtime::TokioRuntimeProvider;
use hickory_net::xfer::DnsHandle;
use hickory_net::NetError;
use hickory_proto::op::{DnsRequest, DnsResponse, Message, MessageType, OpCode, ResponseCode};
use hickory_proto::rr::rdata::{A, SOA};
use hickory_proto::rr::{Name, RData, Record};
use hickory_resolver::config::{ConnectionConfig, ProtocolConfig};
use hickory_resolver::{ConnectionProvider, PoolContext};
use serde_json::{json, Value};
use vcore::Chooser;

/// One scripted reaction of a (server, protocol) endpoint to an upstream exchange.
#[derive(Clone, Copy, Debug, PartialEq, Eq, Hash, PartialOrd, Ord)]
pub enum Step {
    /// full answer after `ms`
    Answer(u64),
    /// full answer after `ms`, after which the server closes this connection: the next request on
    /// the same connection object fails at once with a connection-closed error
    AnswerClose(u64),
    /// the server closes the connection `ms` after the request instead of answering: the request
    /// fails the way hickory's multiplexer fails pending requests (UnexpectedEof "stream closed")
    /// and the connection object is closed from then on
    CloseNoAnswer(u64),
    /// NXDOMAIN (with SOA) after `ms`
    NxDomain(u64),
    /// NOERROR/NODATA (with SOA) after `ms`
    NoData(u64),
    /// TC=1, no records, after `ms`
    Truncated(u64),
    /// nothing: the transport reports `Timeout` after the configured request timeout
    Silent,
    /// I/O error (connection refused kind: not a "connection closed" kind) after `ms`
    IoErr(u64),
    /// I/O error of the connection-reset kind after `ms`
    Reset(u64),
    /// back-pressure: `NetError::Busy` after `ms`
    Busy(u64),
    /// out of the statement's fault class (observed, not demanded):
    ServFail(u64),
    Refused(u64),
    CaseMismatch(u64),
}

impl Step {
    pub fn to_s(self) -> String {
        match self {
            Step::Answer(l) => format!("answer:{l}"),
            Step::AnswerClose(l) => format!("answerclose:{l}"),
            Step::CloseNoAnswer(l) => format!("closenoanswer:{l}"),
            Step::NxDomain(l) => format!("nxdomain:{l}"),
            Step::NoData(l) => format!("nodata:{l}"),
            Step::Truncated(l) => format!("truncated:{l}"),
            Step::Silent => "silent".into(),
            Step::IoErr(l) => format!("ioerr:{l}"),
            Step::Reset(l) => format!("reset:{l}"),
            Step::Busy(l) => format!("busy:{l}"),
            Step::ServFail(l) => format!("servfail:{l}"),
            Step::Refused(l) => format!("refused:{l}"),
            Step::CaseMismatch(l) => format!("casemismatch:{l}"),
        }
    }
    pub fn parse(s: &str) -> Step {
        let (k, l) = match s.split_once(':') {
            Some((k, l)) => (k, l.parse::<u64>().unwrap_or(0)),
            None => (s, 0),
        };
        match k {
            "answer" => Step::Answer(l),
            "answerclose" => Step::AnswerClose(l),
            "closenoanswer" => Step::CloseNoAnswer(l),
            "nxdomain" => Step::NxDomain(l),
            "nodata" => Step::NoData(l),
            "truncated" => Step::Truncated(l),
            "silent" => Step::Silent,
            "ioerr" => Step::IoErr(l),
            "reset" => Step::Reset(l),
            "busy" => Step::Busy(l),
            "servfail" => Step::ServFail(l),
            "refused" => Step::Refused(l),
            "casemismatch" => Step::CaseMismatch(l),
            other => vcore::machinery_exit(&format!("bad step {other}")),
        }
    }
}

/// Reaction of a TCP endpoint to a connection attempt.
#[derive(Clone, Copy, Debug, PartialEq, Eq, Hash, PartialOrd, Ord)]
pub enum ConnStep {
    Ok,
    /// the connection is established after `ms`
    OkAfter(u64),
    /// connection refused after `ms`
    Refused(u64),
    /// no SYN-ACK: `Timeout` after `ms` (the connect timeout)
    Timeout(u64),
}

impl ConnStep {
    pub fn to_s(self) -> String {
        match self {
            ConnStep::Ok => "ok".into(),
            ConnStep::OkAfter(l) => format!("okafter:{l}"),
            ConnStep::Refused(l) => format!("refused:{l}"),
            ConnStep::Timeout(l) => format!("timeout:{l}"),
        }
    }
    pub fn parse(s: &str) -> ConnStep {
        let (k, l) = match s.split_once(':') {
            Some((k, l)) => (k, l.parse::<u64>().unwrap_or(0)),
            None => (s, 0),
        };
        match k {
            "ok" => ConnStep::Ok,
            "okafter" => ConnStep::OkAfter(l),
            "refused" => ConnStep::Refused(l),
            "timeout" => ConnStep::Timeout(l),
            other => vcore::machinery_exit(&format!("bad conn step {other}")),
        }
    }
}

#[derive(Clone, Debug, PartialEq, Eq)]
pub struct Script<S> {
    pub steps: Vec<S>,
    pub rest: S,
}

impl<S: Copy> Script<S> {
    pub fn constant(rest: S) -> Self {
        Script { steps: vec![], rest }
    }
    pub fn at(&self, k: usize) -> S {
        self.steps.get(k).copied().unwrap_or(self.rest)
    }
}

/// Static description of one configured server.
#[derive(Clone, Debug, PartialEq, Eq)]
pub struct Srv {
    pub udp: Script<Step>,
    /// `None` = the server is configured with UDP only
    pub tcp: Option<Script<Step>>,
    pub tcp_conn: Script<ConnStep>,
    pub trust_nx: bool,
    /// pinned initial SRTT in microseconds
    pub srtt: u32,
    /// the server is configured with TCP only (`udp` is then never used)
    pub no_udp: bool,
}

impl Srv {
    pub fn to_json(&self) -> Value {
        let sc = |s: &Script<Step>| json!({"steps": s.steps.iter().map(|x| x.to_s()).collect::<Vec<_>>(), "rest": s.rest.to_s()});
        json!({
            "udp": sc(&self.udp),
            "tcp": self.tcp.as_ref().map(sc),
            "tcp_conn": {"steps": self.tcp_conn.steps.iter().map(|x| x.to_s()).collect::<Vec<_>>(), "rest": self.tcp_conn.rest.to_s()},
            "trust_nx": self.trust_nx,
            "srtt": self.srtt,
            "no_udp": self.no_udp,
        })
    }
    pub fn from_json(v: &Value) -> Srv {
        let sc = |v: &Value| Script {
            steps: v["steps"].as_array().map(|a| a.iter().map(|x| Step::parse(x.as_str().unwrap())).collect()).unwrap_or_default(),
            rest: Step::parse(v["rest"].as_str().unwrap_or("answer:10")),
        };
        Srv {
            udp: sc(&v["udp"]),
            tcp: if v["tcp"].is_null() { None } else { Some(sc(&v["tcp"])) },
            tcp_conn: Script {
                steps: v["tcp_conn"]["steps"]
                    .as_array()
                    .map(|a| a.iter().map(|x| ConnStep::parse(x.as_str().unwrap())).collect())
                    .unwrap_or_default(),
                rest: ConnStep::parse(v["tcp_conn"]["rest"].as_str().unwrap_or("ok")),
            },
            trust_nx: v["trust_nx"].as_bool().unwrap_or(true),
            srtt: v["srtt"].as_u64().unwrap_or(10) as u32,
            no_udp: v["no_udp"].as_bool().unwrap_or(false),
        }
    }
}

/// Query tags: which of the harness's query names an exchange is for.
pub const TAG_MAIN: u8 = 0;
pub const TAG_OTHER: u8 = 1;
pub const TAG_WARM: u8 = 3;

pub fn qname(tag: u8) -> Name {
    Name::from_ascii(match tag {
        TAG_MAIN => "www.example.",
        TAG_OTHER => "other.example.",
        _ => "warm.example.",
    })
    .unwrap()
}

pub fn tag_of(name: &Name) -> u8 {
    let s = name.to_ascii().to_ascii_lowercase();
    if s.starts_with("www.") {
        TAG_MAIN
    } else if s.starts_with("other.") {
        TAG_OTHER
    } else {
        TAG_WARM
    }
}

pub fn server_ip(srv: usize) -> IpAddr {
    IpAddr::from([192, 0, 2, srv as u8 + 1])
}

pub fn server_of(ip: IpAddr) -> usize {
    match ip {
        IpAddr::V4(v) => v.octets()[3] as usize - 1,
        _ => 0,
    }
}

/// Fast latency of server `srv` (distinct per server and protocol so that parallel attempts do
/// not complete in the same virtual instant).
pub fn fast(srv: usize, tcp: bool) -> u64 {
    20 + 8 * srv as u64 + if tcp { 4 } else { 0 }
}

#[derive(Clone, Debug, PartialEq, Eq)]
pub struct Ev {
    /// serial number of the event (never reused, survives `rebase`)
    pub serial: u64,
    /// id of the request message = the harness caller that owns the lookup (0 for connects)
    pub owner: u16,
    /// true = connection attempt (TCP only), false = exchange
    pub connect: bool,
    pub srv: usize,
    pub tcp: bool,
    pub tag: u8,
    pub k: usize,
    pub start: u64,
    pub end: Option<u64>,
    pub step: String,
}

impl Ev {
    pub fn to_json(&self) -> Value {
        json!({"owner": self.owner, "connect": self.connect, "srv": self.srv, "tcp": self.tcp, "tag": self.tag, "k": self.k, "start": self.start, "end": self.end, "step": self.step})
    }
}

pub struct NetState {
    pub servers: Vec<Srv>,
    counters: BTreeMap<(usize, bool, u8), usize>,
    conn_counters: BTreeMap<usize, usize>,
    pub log: Vec<Ev>,
    serial: u64,
    next_conn: u64,
    dead_conns: std::collections::BTreeSet<u64>,
    conn_wakers: BTreeMap<u64, std::task::Waker>,
    pub chooser: Option<Chooser>,
    pub udp_alphabet: Vec<Step>,
    pub tcp_alphabet: Vec<Step>,
    pub conn_alphabet: Vec<ConnStep>,
}

pub struct NetInner {
    pub timeout_ms: u64,
    pub base: Mutex<tokio::time::Instant>,
    pub state: Mutex<NetState>,
}

#[derive(Clone)]
pub struct Net {
    pub inner: Arc<NetInner>,
    rt: TokioRuntimeProvider,
}

impl Net {
    pub fn new(servers: Vec<Srv>, timeout_ms: u64, chooser: Option<Chooser>) -> Net {
        Net {
            inner: Arc::new(NetInner {
                timeout_ms,
                base: Mutex::new(tokio::time::Instant::now()),
                state: Mutex::new(NetState {
                    servers,
                    counters: BTreeMap::new(),
                    conn_counters: BTreeMap::new(),
                    log: vec![],
                    serial: 0,
                    next_conn: 0,
                    dead_conns: Default::default(),
                    conn_wakers: BTreeMap::new(),
                    chooser,
                    udp_alphabet: vec![],
                    tcp_alphabet: vec![],
                    conn_alphabet: vec![],
                }),
            }),
            rt: TokioRuntimeProvider::new(),
        }
    }

    /// Virtual milliseconds since the base instant.
    pub fn ms(&self) -> u64 {
        let base = *self.inner.base.lock().unwrap();
        tokio::time::Instant::now().saturating_duration_since(base).as_millis() as u64
    }

    /// Make "now" the origin of the log's time axis and forget what happened before (warm-ups).
    pub fn rebase(&self) {
        *self.inner.base.lock().unwrap() = tokio::time::Instant::now();
        let mut st = self.inner.state.lock().unwrap();
        st.log.clear();
    }

    fn next_step(&self, srv: usize, tcp: bool, tag: u8, owner: u16) -> (Step, u64) {
        let now = self.ms();
        let mut st = self.inner.state.lock().unwrap();
        let k = {
            let c = st.counters.entry((srv, tcp, tag)).or_insert(0);
            let k = *c;
            *c += 1;
            k
        };
        let step = if tag != TAG_MAIN {
            Step::Answer(fast(srv, tcp))
        } else {
            let st = &mut *st;
            let alphabet = if tcp { &st.tcp_alphabet } else { &st.udp_alphabet };
            let script = if tcp {
                st.servers[srv].tcp.as_mut().expect("exchange over an unconfigured protocol")
            } else {
                &mut st.servers[srv].udp
            };
            if k >= script.steps.len() && !alphabet.is_empty() {
                if let Some(ch) = st.chooser.as_mut() {
                    // decision point: 0 = the script's rest step, i>0 = alphabet[i-1]
                    let c = ch.choose(alphabet.len() as u32 + 1);
                    let s = if c == 0 { script.rest } else { alphabet[c as usize - 1] };
                    // fill the gap (k can only equal len here, but stay safe)
                    while script.steps.len() < k {
                        let r = script.rest;
                        script.steps.push(r);
                    }
                    script.steps.push(s);
                }
            }
            script.at(k)
        };
        st.serial += 1;
        let serial = st.serial;
        st.log.push(Ev { serial, owner, connect: false, srv, tcp, tag, k, start: now, end: None, step: step.to_s() });
        (step, serial)
    }

    fn next_conn_step(&self, srv: usize) -> (ConnStep, u64) {
        let now = self.ms();
        let mut st = self.inner.state.lock().unwrap();
        let k = {
            let c = st.conn_counters.entry(srv).or_insert(0);
            let k = *c;
            *c += 1;
            k
        };
        let st = &mut *st;
        let script = &mut st.servers[srv].tcp_conn;
        if k >= script.steps.len() && !st.conn_alphabet.is_empty() {
            if let Some(ch) = st.chooser.as_mut() {
                let c = ch.choose(st.conn_alphabet.len() as u32 + 1);
                let s = if c == 0 { script.rest } else { st.conn_alphabet[c as usize - 1] };
                while script.steps.len() < k {
                    let r = script.rest;
                    script.steps.push(r);
                }
                script.steps.push(s);
            }
        }
        let step = script.at(k);
        st.serial += 1;
        let serial = st.serial;
        st.log.push(Ev { serial, owner: 0, connect: true, srv, tcp: true, tag: 255, k, start: now, end: None, step: step.to_s() });
        (step, serial)
    }

    fn end(&self, serial: u64) {
        let now = self.ms();
        let mut st = self.inner.state.lock().unwrap();
        // the log may have been rebased (warm-up leftovers are gone): close only our own entry
        if let Some(e) = st.log.iter_mut().rev().find(|e| e.serial == serial) {
            e.end = Some(now);
        }
    }

    fn new_conn_id(&self) -> u64 {
        let mut st = self.inner.state.lock().unwrap();
        st.next_conn += 1;
        st.next_conn
    }
    fn is_dead(&self, id: u64) -> bool {
        self.inner.state.lock().unwrap().dead_conns.contains(&id)
    }
    fn kill(&self, id: u64) {
        let waker = {
            let mut st = self.inner.state.lock().unwrap();
            st.dead_conns.insert(id);
            st.conn_wakers.remove(&id)
        };
        if let Some(w) = waker {
            w.wake();
        }
    }
    /// Log a request on a connection the peer has closed (consumes no script step).
    fn log_closed(&self, srv: usize, tcp: bool, tag: u8, owner: u16) {
        let now = self.ms();
        let mut st = self.inner.state.lock().unwrap();
        st.serial += 1;
        let serial = st.serial;
        st.log.push(Ev { serial, owner, connect: false, srv, tcp, tag, k: usize::MAX, start: now, end: Some(now), step: "closed".into() });
    }

    pub fn log(&self) -> Vec<Ev> {
        self.inner.state.lock().unwrap().log.clone()
    }
    pub fn servers(&self) -> Vec<Srv> {
        self.inner.state.lock().unwrap().servers.clone()
    }
    pub fn take_chooser(&self) -> Option<Chooser> {
        self.inner.state.lock().unwrap().chooser.take()
    }
}

fn io_err(kind: std::io::ErrorKind, what: &'static str) -> NetError {
    NetError::from(std::io::Error::new(kind, what))
}

fn soa(srv: usize) -> Record {
    Record::from_rdata(
        Name::from_ascii("example.").unwrap(),
        60,
        RData::SOA(SOA::new(
            Name::from_ascii(format!("s{srv}.example.")).unwrap(),
            Name::from_ascii("h.example.").unwrap(),
            1,
            60,
            60,
            60,
            60,
        )),
    )
}

#[derive(Clone)]
pub struct Conn {
    net: Net,
    srv: usize,
    tcp: bool,
    /// identity of this connection object (a closed connection stays closed)
    id: u64,
    /// TCP connections are the REAL `DnsExchange` (request channel + background task) over a
    /// scripted `DnsRequestSender`: what a caller sees after the peer closed the connection is
    /// then exactly what hickory's own handle yields (a disconnected channel reports `Busy`)
    exchange: Option<hickory_net::xfer::DnsExchange<TokioRuntimeProvider>>,
}

/// The scripted reaction to one request on (srv, protocol): picks the next script step now, and
/// returns the future that plays it.
fn scripted_reply(net: &Net, srv: usize, tcp: bool, conn_id: u64, request: DnsRequest) -> Pin<Box<dyn Future<Output = Result<DnsResponse, NetError>> + Send>> {
    let q = request.queries[0].clone();
    let id = request.id;
    let tag = tag_of(&q.name);
    let (step, serial) = net.next_step(srv, tcp, tag, id);
    let net = net.clone();
    let timeout_ms = net.inner.timeout_ms;
    Box::pin(async move {
            let sleep = |ms: u64| tokio::time::sleep(Duration::from_millis(ms));
            let msg = |rcode: ResponseCode| {
                let mut m = Message::new(id, MessageType::Response, OpCode::Query);
                m.add_query(q.clone());
                m.metadata.response_code = rcode;
                m.metadata.recursion_available = true;
                m
            };
            let r = match step {
                Step::Answer(l) | Step::AnswerClose(l) => {
                    sleep(l).await;
                    if matches!(step, Step::AnswerClose(_)) {
                        net.kill(conn_id);
                    }
                    let mut m = msg(ResponseCode::NoError);
                    m.add_answer(Record::from_rdata(
                        q.name.clone(),
                        60,
                        RData::A(A::new(10, tcp as u8, tag, srv as u8 + 1)),
                    ));
                    DnsResponse::from_message(m).map_err(NetError::from)
                }
                Step::CloseNoAnswer(l) => {
                    sleep(l).await;
                    net.kill(conn_id);
                    Err(io_err(std::io::ErrorKind::UnexpectedEof, "stream closed"))
                }
                Step::NxDomain(l) => {
                    sleep(l).await;
                    let mut m = msg(ResponseCode::NXDomain);
                    m.add_authority(soa(srv));
                    DnsResponse::from_message(m).map_err(NetError::from)
                }
                Step::NoData(l) => {
                    sleep(l).await;
                    let mut m = msg(ResponseCode::NoError);
                    m.add_authority(soa(srv));
                    DnsResponse::from_message(m).map_err(NetError::from)
                }
                Step::Truncated(l) => {
                    sleep(l).await;
                    let mut m = msg(ResponseCode::NoError);
                    m.metadata.truncation = true;
                    DnsResponse::from_message(m).map_err(NetError::from)
                }
                Step::ServFail(l) => {
                    sleep(l).await;
                    DnsResponse::from_message(msg(ResponseCode::ServFail)).map_err(NetError::from)
                }
                Step::Refused(l) => {
                    sleep(l).await;
                    DnsResponse::from_message(msg(ResponseCode::Refused)).map_err(NetError::from)
                }
                Step::Silent => {
                    sleep(timeout_ms).await;
                    Err(NetError::Timeout)
                }
                Step::IoErr(l) => {
                    sleep(l).await;
                    Err(io_err(std::io::ErrorKind::ConnectionRefused, "refused"))
                }
                Step::Reset(l) => {
                    sleep(l).await;
                    Err(io_err(std::io::ErrorKind::ConnectionReset, "reset"))
                }
                Step::Busy(l) => {
                    if l > 0 {
                        sleep(l).await;
                    }
                    Err(NetError::Busy)
                }
                Step::CaseMismatch(l) => {
                    sleep(l).await;
                    Err(NetError::QueryCaseMismatch)
                }
            };
            net.end(serial);
            r
    })
}

impl DnsHandle for Conn {
    type Response = Pin<Box<dyn Stream<Item = Result<DnsResponse, NetError>> + Send>>;
    type Runtime = TokioRuntimeProvider;

    fn send(&self, request: DnsRequest) -> Self::Response {
        match &self.exchange {
            None => Box::pin(stream::once(scripted_reply(&self.net, self.srv, self.tcp, self.id, request))),
            Some(ex) => {
                if self.net.is_dead(self.id) {
                    // for the log only: the request goes to the real handle all the same
                    self.net.log_closed(self.srv, self.tcp, tag_of(&request.queries[0].name), request.id);
                }
                Box::pin(ex.send(request))
            }
        }
    }
}

/// The scripted transport below the real `DnsExchange` of a TCP connection.
pub struct SimSender {
    net: Net,
    srv: usize,
    id: u64,
    shutdown: bool,
}

impl Stream for SimSender {
    type Item = Result<(), NetError>;
    fn poll_next(self: Pin<&mut Self>, cx: &mut std::task::Context<'_>) -> std::task::Poll<Option<Self::Item>> {
        // the peer closed the connection (or nobody holds a handle any more): the stream ends,
        // the background task of the exchange exits and drops the request channel
        if self.shutdown || self.net.is_dead(self.id) {
            return std::task::Poll::Ready(None);
        }
        self.net.inner.state.lock().unwrap().conn_wakers.insert(self.id, cx.waker().clone());
        std::task::Poll::Pending
    }
}

impl hickory_net::xfer::DnsRequestSender for SimSender {
    fn send_message(&mut self, request: DnsRequest) -> hickory_net::xfer::DnsResponseStream {
        let fut = scripted_reply(&self.net, self.srv, true, self.id, request);
        Box::pin(async move { fut.await }).into()
    }
    fn shutdown(&mut self) {
        self.shutdown = true;
    }
    fn is_shutdown(&self) -> bool {
        self.shutdown
    }
}

impl ConnectionProvider for Net {
    type Conn = Conn;
    type FutureConn = Pin<Box<dyn Future<Output = Result<Conn, NetError>> + Send>>;
    type RuntimeProvider = TokioRuntimeProvider;

    fn new_connection(&self, ip: IpAddr, config: &ConnectionConfig, _cx: &PoolContext) -> Result<Self::FutureConn, NetError> {
        let tcp = matches!(config.protocol, ProtocolConfig::Tcp);
        let srv = server_of(ip);
        let net = self.clone();
        if !tcp {
            let id = self.new_conn_id();
            return Ok(Box::pin(async move { Ok(Conn { net, srv, tcp, id, exchange: None }) }));
        }
        let (step, serial) = self.next_conn_step(srv);
        Ok(Box::pin(async move {
            let r = match step {
                ConnStep::Ok => {
                    let id = net.new_conn_id();
                    let (exchange, background) = hickory_net::xfer::DnsExchange::<TokioRuntimeProvider>::from_stream(SimSender { net: net.clone(), srv, id, shutdown: false });
                    tokio::spawn(background);
                    Ok(Conn { net: net.clone(), srv, tcp, id, exchange: Some(exchange) })
                }
                ConnStep::OkAfter(_) => unreachable!("only the stock-provider family connects with a delay"),
                ConnStep::Refused(l) => {
                    tokio::time::sleep(Duration::from_millis(l)).await;
                    Err(io_err(std::io::ErrorKind::ConnectionRefused, "tcp connect refused"))
                }
                ConnStep::Timeout(l) => {
                    tokio::time::sleep(Duration::from_millis(l)).await;
                    Err(NetError::Timeout)
                }
            };
            net.end(serial);
            r
        }))
    }

    fn runtime_provider(&self) -> &TokioRuntimeProvider {
        &self.rt
    }
}
