//! C03 — size-limited encoding truncates cleanly and never exceeds the limit.
//!
//! E-ENUM: (a) every message of a size-diverse family x EVERY limit 12..len+2 through
//! `BinEncoder::set_max_size` + `Message::emit`; (b) the server path
//! `Catalog::handle_request -> ResponseHandle -> MessageResponse::encode` for RRsets of 1..N
//! records x advertised payload sizes x UDP/TCP.
//!
//! Oracle (independent wire walker `vref::wire`): encoding fails, or len <= L, the walker
//! consumes exactly len bytes, hickory decodes the bytes, every section is a prefix of the
//! original one (EDNS / TSIG: unchanged or dropped), TC = original TC || something dropped.

use std::str::FromStr;
use std::sync::Arc;

use hickory_net::xfer::Protocol;
use hickory_proto::op::{Edns, Message, MessageType, OpCode, Query};
use hickory_proto::rr::rdata::tsig::TsigAlgorithm;
use hickory_proto::rr::rdata::{A, MX, NS, SOA, TSIG, TXT};
use hickory_proto::rr::{Name, RData, Record, RecordType};
use hickory_proto::serialize::binary::{BinEncodable, BinEncoder};
use hickory_server::store::in_memory::InMemoryZoneHandler;
use hickory_server::zone_handler::{AxfrPolicy, Catalog, ZoneType};
use serde_json::{json, Value};
use vcore::{catch, fnv64, hex, Ctx, Local, Odometer};

fn n(s: &str) -> Name {
    Name::from_str(s).unwrap()
}

/// Size-diverse record alphabet.
fn alphabet(thorough: bool) -> Vec<Record> {
    let mut v = vec![
        // 0: small A at the question name (compresses to a pointer)
        Record::from_rdata(n("www.example.com."), 300, RData::A(A::new(192, 0, 2, 1))),
        // 1: TXT ~60 bytes
        Record::from_rdata(
            n("txt.example.com."),
            60,
            RData::TXT(TXT::new(vec!["0123456789abcdefghijklmnopqrstuvwxyz0123456789ABCDEF".to_string()])),
        ),
        // 2: SOA with compressible names
        Record::from_rdata(
            n("example.com."),
            3600,
            RData::SOA(SOA::new(n("ns1.example.com."), n("hostmaster.example.com."), 7, 1, 2, 3, 4)),
        ),
        // 3: NS sharing a suffix with the question
        Record::from_rdata(n("example.com."), 86400, RData::NS(NS(n("ns2.example.com.")))),
        // 4: owner is a fresh 63-octet label (no compression possible for it)
        Record::from_rdata(
            Name::from_labels(vec![&[b'x'; 63][..], b"org"]).unwrap(),
            1,
            RData::A(A::new(10, 0, 0, 1)),
        ),
        // 5: MX whose exchange is compressible against record 3's rdata
        Record::from_rdata(n("example.com."), 5, RData::MX(MX::new(10, n("mail.ns2.example.com.")))),
    ];
    // 6: small record whose owner equals the owner of the 60-byte TXT (record 1): after the TXT
    //    is rolled back, its compression targets must be gone too
    v.push(Record::from_rdata(n("txt.example.com."), 300, RData::A(A::new(192, 0, 2, 7))));
    if thorough {
        // 7: 300-byte TXT (two strings)
        v.push(Record::from_rdata(
            n("big.example.com."),
            9,
            RData::TXT(TXT::new(vec!["a".repeat(255), "b".repeat(40)])),
        ));
    }
    v
}

fn tsig_record() -> Box<Record<TSIG>> {
    let tsig = TSIG::new(
        TsigAlgorithm::HmacSha256,
        1_700_000_000,
        300,
        vec![0xab; 32],
        0x1234,
        None,
        vec![],
    );
    let mut r = Record::from_rdata(n("key.example."), 0, tsig);
    r.dns_class = hickory_proto::rr::DNSClass::ANY;
    Box::new(r)
}

#[derive(Clone, Debug)]
struct Case {
    an: Vec<usize>,
    ns: Vec<usize>,
    ar: Vec<usize>,
    edns: bool,
    tsig: bool,
    tc: bool,
}

impl Case {
    fn to_json(&self, limit: u16) -> Value {
        json!({"an": self.an, "ns": self.ns, "ar": self.ar, "edns": self.edns, "tsig": self.tsig, "tc": self.tc, "limit": limit})
    }
    fn from_json(v: &Value) -> (Case, u16) {
        let idx = |k: &str| -> Vec<usize> {
            v[k].as_array().map(|a| a.iter().map(|x| x.as_u64().unwrap() as usize).collect()).unwrap_or_default()
        };
        (
            Case {
                an: idx("an"),
                ns: idx("ns"),
                ar: idx("ar"),
                edns: v["edns"].as_bool().unwrap_or(false),
                tsig: v["tsig"].as_bool().unwrap_or(false),
                tc: v["tc"].as_bool().unwrap_or(false),
            },
            v["limit"].as_u64().unwrap_or(512) as u16,
        )
    }
    fn build(&self, alpha: &[Record]) -> Message {
        let mut m = Message::new(0x1234, MessageType::Response, OpCode::Query);
        m.metadata.truncation = self.tc;
        m.add_query(Query::new(n("www.example.com."), RecordType::A));
        for i in &self.an {
            m.add_answer(alpha[*i].clone());
        }
        for i in &self.ns {
            m.add_authority(alpha[*i].clone());
        }
        for i in &self.ar {
            m.add_additional(alpha[*i].clone());
        }
        if self.edns {
            let mut e = Edns::new();
            e.set_max_payload(1232);
            m.set_edns(e);
        }
        if self.tsig {
            m.set_signature(tsig_record());
        }
        m
    }
}

/// All index sequences of length 0..=max over an alphabet of size k, in a fixed order.
fn sequences(k: usize, max: usize) -> Vec<Vec<usize>> {
    let mut out = vec![vec![]];
    let mut last = vec![vec![]];
    for _ in 0..max {
        let mut next = vec![];
        for s in &last {
            for i in 0..k {
                let mut t: Vec<usize> = s.clone();
                t.push(i);
                next.push(t);
            }
        }
        out.extend(next.iter().cloned());
        last = next;
    }
    out
}

fn encode_with_limit(m: &Message, limit: u16) -> Result<Vec<u8>, String> {
    let mut buf = Vec::with_capacity(512);
    let res = {
        let mut enc = BinEncoder::new(&mut buf);
        enc.set_max_size(limit);
        m.emit(&mut enc)
    };
    match res {
        Ok(()) => Ok(buf),
        Err(e) => Err(e.to_string()),
    }
}

fn is_prefix(got: &[Record], orig: &[Record]) -> bool {
    got.len() <= orig.len() && got.iter().zip(orig.iter()).all(|(g, o)| g == o && g.name.eq_case(&o.name))
}

/// The oracle for one (message, limit, bytes). Returns Some((clause, what)) on violation.
fn judge(orig: &Message, limit: usize, bytes: &[u8], l: &mut Local) -> Option<(String, String)> {
    if bytes.len() > limit {
        return Some(("over-limit".into(), format!("{} bytes emitted for limit {}", bytes.len(), limit)));
    }
    let w = match vref::wire::walk(bytes) {
        Ok(w) => w,
        Err(e) => return Some(("walker-rejects".into(), format!("reference walker: {e:?}"))),
    };
    if w.consumed != bytes.len() {
        // classify: is the message otherwise fine and only a rolled-back record left behind?
        return Some((
            "leftover-bytes".into(),
            format!("{} bytes returned, sections end at {}", bytes.len(), w.consumed),
        ));
    }
    let dec = match Message::from_vec(bytes) {
        Ok(d) => d,
        Err(e) => return Some(("hickory-rejects-own-output".into(), e.to_string())),
    };
    if dec.queries != orig.queries {
        return Some(("question-changed".into(), "question section differs".into()));
    }
    if !is_prefix(&dec.answers, &orig.answers) {
        return Some(("section-not-prefix:answer".into(), format!("{:?}", dec.answers)));
    }
    if !is_prefix(&dec.authorities, &orig.authorities) {
        return Some(("section-not-prefix:authority".into(), format!("{:?}", dec.authorities)));
    }
    if !is_prefix(&dec.additionals, &orig.additionals) {
        return Some(("section-not-prefix:additional".into(), format!("{:?}", dec.additionals)));
    }
    let edns_dropped = match (&orig.edns, &dec.edns) {
        (None, None) => false,
        (Some(_), None) => true,
        (Some(a), Some(b)) if a == b => false,
        _ => return Some(("edns-changed".into(), format!("{:?} vs {:?}", orig.edns, dec.edns))),
    };
    let tsig_dropped = match (&orig.signature, &dec.signature) {
        (None, None) => false,
        (Some(_), None) => true,
        (Some(a), Some(b)) if a == b => false,
        _ => return Some(("tsig-changed".into(), "signature record differs".into())),
    };
    let present = dec.answers.len() + dec.authorities.len() + dec.additionals.len()
        + dec.edns.is_some() as usize + dec.signature.is_some() as usize;
    let counted = w.header.an as usize + w.header.ns as usize + w.header.ar as usize;
    if present != counted {
        return Some(("counts-mismatch".into(), format!("header counts {counted}, records {present}")));
    }
    let dropped = dec.answers.len() < orig.answers.len()
        || dec.authorities.len() < orig.authorities.len()
        || dec.additionals.len() < orig.additionals.len()
        || edns_dropped
        || tsig_dropped;
    let want_tc = orig.metadata.truncation || dropped;
    if dec.metadata.truncation != want_tc {
        return Some((
            if dropped { "tc-not-set-after-drop".into() } else { "tc-changed-without-drop".into() },
            format!("TC={} expected {}", dec.metadata.truncation, want_tc),
        ));
    }
    if dropped {
        l.nontrivial(fnv64(bytes) ^ (limit as u64).wrapping_mul(0x9e3779b97f4a7c15));
        l.outcome("truncated");
    } else {
        l.outcome("complete");
    }
    None
}

fn run_case(case: &Case, limit: u16, alpha: &[Record], l: &mut Local) {
    let m = case.build(alpha);
    l.eval();
    match catch(|| encode_with_limit(&m, limit)) {
        Err(p) => l.violation(
            &format!("panic:{}", vcore::short_loc(&p.loc)),
            &format!("encoder panicked: {}", p.msg),
            || case.to_json(limit),
        ),
        Ok(Err(_)) => l.outcome("encode-failed"),
        Ok(Ok(bytes)) => {
            if let Some((clause, what)) = judge(&m, limit as usize, &bytes, l) {
                l.violation(&clause, &what, || {
                    let mut j = case.to_json(limit);
                    j["bytes"] = json!(hex::enc(&bytes));
                    j
                });
            }
        }
    }
}

/// (g) one message per entry of the shared RDATA alphabet (every typed RDATA hickory has an
/// emitter for, incl. the ones with inner lists: SVCB/HTTPS hints and mandatory keys, OPT-like
/// option lists, type bitmaps, TXT string lists ...): [A answer, X answer] [NS authority]
/// [A additional] x EDNS on/off, under EVERY limit 12..len+2.
fn run_typed_case(tag: &str, rtype: u16, m: &Message, limit: u16, l: &mut Local) {
    l.eval();
    let wit = |bytes: Option<&[u8]>| {
        let mut j = json!({"typed": tag, "rtype": rtype, "edns": m.edns.is_some(), "limit": limit});
        if let Some(b) = bytes {
            j["bytes"] = json!(hex::enc(b));
        }
        j
    };
    match catch(|| encode_with_limit(m, limit)) {
        Err(p) => l.violation(&format!("panic:{}", vcore::short_loc(&p.loc)), &format!("encoder panicked: {}", p.msg), || wit(None)),
        Ok(Err(_)) => l.outcome("encode-failed"),
        Ok(Ok(bytes)) => {
            if let Some((clause, what)) = judge(m, limit as usize, &bytes, l) {
                l.violation(&format!("{clause}:type{rtype}"), &what, || wit(Some(&bytes)));
            }
        }
    }
}

fn typed_message(value: &RData, edns: bool) -> Message {
    let mut m = Message::new(0x0102, MessageType::Response, OpCode::Query);
    m.add_query(Query::new(n("www.example.com."), RecordType::A));
    m.add_answer(Record::from_rdata(n("www.example.com."), 300, RData::A(A::new(192, 0, 2, 1))));
    m.add_answer(Record::from_rdata(n("x.example.com."), 300, value.clone()));
    m.add_authority(Record::from_rdata(n("example.com."), 86400, RData::NS(NS(n("ns2.example.com.")))));
    m.add_additional(Record::from_rdata(n("ns2.example.com."), 60, RData::A(A::new(192, 0, 2, 53))));
    if edns {
        let mut e = Edns::new();
        e.set_max_payload(1232);
        m.set_edns(e);
    }
    m
}

// ------------------------------------------------------------------------------------------
// server path
//
// Differential oracle: the same request bytes are served twice by the real Catalog, once over
// TCP (limit 65,535: the complete response) and once over UDP. The UDP response must respect
// max(512, advertised payload), be well-formed for the independent walker, have every section a
// prefix of the TCP response's section, and TC set iff something was dropped.

#[derive(Clone, Debug)]
struct SrvZone {
    nrec: usize,  // records in the RRset at r.z.
    big: bool,    // 255-byte TXT strings instead of A
    nns: usize,   // extra in-zone NS with glue at the apex
    signed: bool, // NSEC-signed with a fixed Ed25519 key
    axfr: bool,   // zone transfers allowed (AXFR family)
}

#[derive(Clone, Debug)]
struct SrvQuery {
    name: &'static str,
    qtype: RecordType,
    dnssec_ok: bool,
}

fn build_catalog(z: &SrvZone) -> Catalog {
    use hickory_proto::dnssec::{crypto::Ed25519SigningKey, rdata::DNSKEY, DnssecSigner, SigningKey};
    use hickory_server::dnssec::NxProofKind;
    let origin = n("z.");
    let mut zone = InMemoryZoneHandler::<vsim::SimProvider>::empty(
        origin.clone(),
        ZoneType::Primary,
        if z.axfr { AxfrPolicy::AllowAll } else { AxfrPolicy::Deny },
        if z.signed { Some(NxProofKind::Nsec) } else { None },
    );
    zone.upsert_mut(
        Record::from_rdata(origin.clone(), 300, RData::SOA(SOA::new(n("ns.o."), n("h.o."), 1, 1, 1, 1, 300))),
        1,
    );
    zone.upsert_mut(Record::from_rdata(origin.clone(), 300, RData::NS(NS(n("ns.o.")))), 1);
    for i in 0..z.nns {
        let nsn = n(&format!("ns{i}.z."));
        zone.upsert_mut(Record::from_rdata(origin.clone(), 300, RData::NS(NS(nsn.clone()))), 1);
        zone.upsert_mut(Record::from_rdata(nsn, 300, RData::A(A::new(10, 9, 0, i as u8))), 1);
    }
    for i in 0..z.nrec {
        let r = if z.big {
            let mut s = format!("{i:05}");
            s.push_str(&"t".repeat(250));
            Record::from_rdata(n("r.z."), 300, RData::TXT(TXT::new(vec![s])))
        } else {
            Record::from_rdata(n("r.z."), 300, RData::A(A::new(10, 1, (i / 256) as u8, (i % 256) as u8)))
        };
        zone.upsert_mut(r, 1);
    }
    zone.upsert_mut(Record::from_rdata(n("*.w.z."), 300, RData::A(A::new(10, 2, 0, 1))), 1);
    if z.signed {
        let der = rustls_pki_types::PrivatePkcs8KeyDer::from(include_bytes!("../../../../keys/ed00.pk8").to_vec());
        let k: Box<dyn SigningKey> = Box::new(Ed25519SigningKey::from_pkcs8(&der).unwrap());
        let pk = k.to_public_key().unwrap();
        zone.add_zone_signing_key_mut(DnssecSigner::new(
            DNSKEY::from_key(&pk),
            k,
            origin.clone(),
            std::time::Duration::from_secs(3600),
        ))
        .unwrap();
        zone.secure_zone_mut().unwrap();
    }
    let mut catalog = Catalog::new();
    catalog.upsert(origin.into(), vec![Arc::new(zone)]);
    catalog
}

fn request_bytes(q: &SrvQuery, payload: i32) -> Vec<u8> {
    request_bytes_ext(q, payload, false, 0)
}

/// `nsid`: the request carries an (empty) EDNS NSID option; `version`: its EDNS version.
fn request_bytes_ext(q: &SrvQuery, payload: i32, nsid: bool, version: u8) -> Vec<u8> {
    use hickory_proto::rr::rdata::opt::{EdnsOption, NSIDPayload};
    let mut m = Message::new(7, MessageType::Query, OpCode::Query);
    m.add_query(Query::new(n(q.name), q.qtype));
    if payload >= 0 {
        let mut e = Edns::new();
        e.set_max_payload(payload.max(512) as u16);
        e.set_dnssec_ok(q.dnssec_ok);
        e.set_version(version);
        if nsid {
            e.options_mut().insert(EdnsOption::NSID(NSIDPayload::new(Vec::<u8>::new()).unwrap()));
        }
        m.set_edns(e);
    }
    let mut b = m.to_vec().unwrap();
    if (0..512).contains(&payload) {
        // OPT is the last record: root name(1) type(2) class(2) ttl(4) rdlen(2) [NSID: code(2) len(2)]
        let p = b.len() - 8 - if nsid { 4 } else { 0 };
        b[p..p + 2].copy_from_slice(&(payload as u16).to_be_bytes());
    }
    b
}

fn srv_json(z: &SrvZone, q: &SrvQuery, payload: i32) -> Value {
    json!({"server": true, "nrec": z.nrec, "big": z.big, "nns": z.nns, "signed": z.signed, "axfr": z.axfr,
           "qname": q.name, "qtype": u16::from(q.qtype), "do": q.dnssec_ok, "payload": payload})
}

fn one_response(rt: &tokio::runtime::Runtime, cat: &Catalog, req: &[u8], proto: Protocol) -> Result<Vec<u8>, String> {
    match catch(|| rt.block_on(vsim::serve(cat, req, proto))) {
        Err(p) => Err(format!("panic:{}", vcore::short_loc(&p.loc))),
        Ok(None) => Err("request-unparsable".into()),
        Ok(Some(mut v)) => {
            if v.len() == 1 {
                Ok(v.pop().unwrap())
            } else {
                Err(format!("response-count:{}", v.len()))
            }
        }
    }
}

/// The same request through the production front door (`ServerContext::handle_raw_request` ->
/// `handle_request` -> `Catalog`, reached by the hook `Server::verif_handle_raw_request`): the
/// plumbing of protocol and destination into the `ResponseHandle` is inside the system.
fn front_door_response(
    rt: &tokio::runtime::Runtime,
    server: &hickory_server::Server<Catalog>,
    req: &[u8],
    proto: Protocol,
) -> Result<Vec<u8>, String> {
    use futures_util::StreamExt;
    use hickory_net::BufDnsStreamHandle;
    use hickory_proto::op::SerialMessage;
    let src: std::net::SocketAddr = "192.0.2.77:5353".parse().unwrap();
    let r = catch(|| {
        rt.block_on(async {
            let (handle, mut rx) = BufDnsStreamHandle::new(src);
            server.verif_handle_raw_request(SerialMessage::new(req.to_vec(), src), proto, handle).await;
            let mut out = vec![];
            while let Some(m) = rx.next().await {
                out.push(m.into_parts().0);
            }
            out
        })
    });
    match r {
        Err(p) => Err(format!("panic:{}", vcore::short_loc(&p.loc))),
        Ok(mut v) if v.len() == 1 => Ok(v.pop().unwrap()),
        Ok(v) => Err(format!("response-count:{}", v.len())),
    }
}

fn well_formed(bytes: &[u8]) -> Result<(vref::wire::Walk, Message), (String, String)> {
    let w = vref::wire::walk(bytes).map_err(|e| ("server-walker-rejects".to_string(), format!("{e:?}")))?;
    if w.consumed != bytes.len() {
        return Err((
            "server-leftover-bytes".into(),
            format!("{} bytes sent, sections end at {}", bytes.len(), w.consumed),
        ));
    }
    let m = Message::from_vec(bytes).map_err(|e| ("server-undecodable".to_string(), e.to_string()))?;
    Ok((w, m))
}

/// Judge one (zone, query, payload): UDP response against the TCP response to the same bytes.
fn run_srv_case(z: &SrvZone, cat: &Catalog, front: Option<&hickory_server::Server<Catalog>>, q: &SrvQuery, payload: i32, rt: &tokio::runtime::Runtime, l: &mut Local) {
    l.eval();
    let req = request_bytes(q, payload);
    let wit = |extra: Value| {
        let mut j = srv_json(z, q, payload);
        j["detail"] = extra;
        j
    };
    let full = match one_response(rt, cat, &req, Protocol::Tcp) {
        Ok(b) => b,
        Err(k) => {
            l.violation(&format!("server-{k}:tcp"), "no single TCP response", || wit(json!(null)));
            return;
        }
    };
    let udp = match one_response(rt, cat, &req, Protocol::Udp) {
        Ok(b) => b,
        Err(k) => {
            l.violation(&format!("server-{k}:udp"), "no single UDP response", || wit(json!(null)));
            return;
        }
    };
    if let Some(server) = front {
        // production construction path: the front door must send exactly the same octets
        for (proto, direct, tag) in [(Protocol::Udp, &udp, "udp"), (Protocol::Tcp, &full, "tcp")] {
            match front_door_response(rt, server, &req, proto) {
                Ok(b) if &b == direct => l.outcome("server-front-door:identical"),
                Ok(b) => {
                    l.violation(
                        &format!("server-front-door-differs:{tag}"),
                        &format!("the front door sent {} octets, the direct catalog path {} for the same request", b.len(), direct.len()),
                        || wit(json!({"front_len": b.len(), "direct_len": direct.len()})),
                    );
                    return;
                }
                Err(k) => {
                    l.violation(&format!("server-front-door-{k}:{tag}"), "no single response through the front door", || wit(json!(null)));
                    return;
                }
            }
        }
    }
    if full.len() > 65535 {
        l.violation("server-over-limit:tcp", &format!("{} bytes over TCP", full.len()), || wit(json!(null)));
        return;
    }
    let limit = payload.max(512) as usize;
    if udp.len() > limit {
        l.violation(
            "server-over-limit:udp",
            &format!("{} bytes sent, limit {}", udp.len(), limit),
            || wit(json!({"udp_len": udp.len()})),
        );
        return;
    }
    let (_fw, fm) = match well_formed(&full) {
        Ok(x) => x,
        Err((k, what)) => {
            l.violation(&format!("{k}:tcp"), &what, || wit(json!({"head": hex::enc(&full[..full.len().min(48)])})));
            return;
        }
    };
    let (_uw, um) = match well_formed(&udp) {
        Ok(x) => x,
        Err((k, what)) => {
            l.violation(&k, &what, || wit(json!({"udp_len": udp.len(), "head": hex::enc(&udp[..udp.len().min(48)])})));
            return;
        }
    };
    if um.metadata.id != 7 || um.queries != fm.queries {
        l.violation("server-question-or-id-changed", "UDP and TCP responses differ in id/question", || wit(json!(null)));
        return;
    }
    for (name, u, f) in [
        ("answer", &um.answers, &fm.answers),
        ("authority", &um.authorities, &fm.authorities),
        ("additional", &um.additionals, &fm.additionals),
    ] {
        if !is_prefix(u, f) {
            l.violation(
                &format!("server-section-not-prefix:{name}"),
                &format!("UDP {name} section is not a prefix of the complete (TCP) one"),
                || wit(json!({"udp": u.len(), "tcp": f.len()})),
            );
            return;
        }
    }
    let edns_dropped = match (&fm.edns, &um.edns) {
        (None, None) => false,
        (Some(_), None) => true,
        (Some(a), Some(b)) if a == b => false,
        _ => {
            l.violation("server-edns-changed", "OPT differs between UDP and TCP responses", || wit(json!(null)));
            return;
        }
    };
    let dropped = um.answers.len() < fm.answers.len()
        || um.authorities.len() < fm.authorities.len()
        || um.additionals.len() < fm.additionals.len()
        || edns_dropped;
    let want_tc = fm.metadata.truncation || dropped;
    if um.metadata.truncation != want_tc {
        l.violation(
            if dropped { "server-tc-not-set" } else { "server-tc-set-without-drop" },
            &format!("TC={} expected {}", um.metadata.truncation, want_tc),
            || wit(json!({"udp_len": udp.len(), "tcp_len": full.len()})),
        );
        return;
    }
    if dropped {
        l.outcome("server-truncated");
        l.nontrivial(fnv64(&udp) ^ (payload as u64).wrapping_mul(0x9e3779b97f4a7c15));
    } else {
        l.outcome("server-complete");
    }
}

/// Responses beyond 64 KiB cannot be compared with a complete one: count-based oracle.
fn run_srv_huge(z: &SrvZone, cat: &Catalog, tcp: bool, rt: &tokio::runtime::Runtime, l: &mut Local) {
    l.eval();
    let q = SrvQuery { name: "r.z.", qtype: RecordType::TXT, dnssec_ok: false };
    let req = request_bytes(&q, 4096);
    let proto = if tcp { Protocol::Tcp } else { Protocol::Udp };
    let wit = || {
        let mut j = srv_json(z, &q, 4096);
        j["huge"] = json!(true);
        j["tcp"] = json!(tcp);
        j
    };
    let bytes = match one_response(rt, cat, &req, proto) {
        Ok(b) => b,
        Err(k) => {
            l.violation(&format!("server-{k}:huge"), "no single response", wit);
            return;
        }
    };
    let limit = if tcp { 65535 } else { 4096 };
    if bytes.len() > limit {
        l.violation(
            if tcp { "server-over-limit:tcp" } else { "server-over-limit:udp" },
            &format!("{} bytes sent, limit {}", bytes.len(), limit),
            wit,
        );
        return;
    }
    match well_formed(&bytes) {
        Err((k, what)) => l.violation(&k, &what, wit),
        Ok((w, _)) => {
            if w.answers.len() >= z.nrec || !w.header.tc() {
                l.violation("server-tc-not-set", "response above 64 KiB neither truncated nor TC", wit);
            } else {
                l.outcome("server-truncated-huge");
                l.nontrivial(fnv64(&bytes));
            }
        }
    }
}

/// (e) configured NSID payload x EDNS version: the response OPT grows by a server-side knob.
/// Reference = the complete TCP response to the same question without NSID / version 0.
#[allow(clippy::too_many_arguments)]
fn run_srv_nsid(
    z: &SrvZone,
    cat: &Catalog,
    q: &SrvQuery,
    payload: i32,
    nsid_len: usize,
    version: u8,
    tcp: bool,
    fm: &Message,
    rt: &tokio::runtime::Runtime,
    l: &mut Local,
) {
    l.eval();
    let wit = |extra: Value| {
        let mut j = srv_json(z, q, payload);
        j["nsid_len"] = json!(nsid_len);
        j["version"] = json!(version);
        j["tcp"] = json!(tcp);
        j["detail"] = extra;
        j
    };
    let req = request_bytes_ext(q, payload, true, version);
    let proto = if tcp { Protocol::Tcp } else { Protocol::Udp };
    let tag = if tcp { "tcp" } else { "udp" };
    let got = match one_response(rt, cat, &req, proto) {
        Ok(b) => b,
        Err(k) => {
            l.violation(&format!("server-{k}:nsid:{tag}"), "no single response", || wit(json!(null)));
            return;
        }
    };
    let limit = if tcp { 65535 } else { payload.max(512) as usize };
    if got.len() > limit {
        l.violation(
            &format!("server-over-limit:{tag}"),
            &format!("{} bytes sent, limit {} (NSID payload of {} octets configured)", got.len(), limit, nsid_len),
            || wit(json!({"len": got.len()})),
        );
        return;
    }
    let (_w, um) = match well_formed(&got) {
        Ok(x) => x,
        Err((k, what)) => {
            l.violation(&format!("{k}:nsid:{tag}"), &what, || wit(json!({"len": got.len(), "head": hex::enc(&got[..got.len().min(48)])})));
            return;
        }
    };
    if um.metadata.id != 7 {
        l.violation("server-question-or-id-changed", "response id differs from the request id", || wit(json!(null)));
        return;
    }
    use hickory_proto::op::ResponseCode;
    if version > 0 {
        // BADVERS: an error response (header, question, OPT); only the limit and well-formedness are C03's
        l.outcome("server-nsid:badvers");
        return;
    }
    if um.metadata.response_code == ResponseCode::ServFail && fm.metadata.response_code != ResponseCode::ServFail {
        // "encoding either fails ...": the header-only SERVFAIL fallback of MessageResponse::encode
        l.outcome("server-nsid:encode-failed-servfail");
        l.nontrivial(fnv64(&got) ^ nsid_len as u64);
        return;
    }
    if um.queries != fm.queries {
        l.violation("server-question-or-id-changed", "question differs from the reference response", || wit(json!(null)));
        return;
    }
    for (name, u, f) in [
        ("answer", &um.answers, &fm.answers),
        ("authority", &um.authorities, &fm.authorities),
        ("additional", &um.additionals, &fm.additionals),
    ] {
        if !is_prefix(u, f) {
            l.violation(
                &format!("server-section-not-prefix:{name}"),
                &format!("{name} section is not a prefix of the complete one (NSID configured)"),
                || wit(json!({"got": u.len(), "full": f.len()})),
            );
            return;
        }
    }
    let edns_dropped = payload >= 0 && um.edns.is_none();
    if payload < 0 && um.edns.is_some() {
        l.violation("server-edns-changed", "OPT in the response to a request without OPT", || wit(json!(null)));
        return;
    }
    let dropped = um.answers.len() < fm.answers.len()
        || um.authorities.len() < fm.authorities.len()
        || um.additionals.len() < fm.additionals.len()
        || edns_dropped;
    let want_tc = fm.metadata.truncation || dropped;
    if um.metadata.truncation != want_tc {
        l.violation(
            if dropped { "server-tc-not-set" } else { "server-tc-set-without-drop" },
            &format!("TC={} expected {} (NSID payload {} octets, OPT {})", um.metadata.truncation, want_tc, nsid_len, if edns_dropped { "dropped" } else { "kept" }),
            || wit(json!({"len": got.len()})),
        );
        return;
    }
    if dropped {
        l.outcome(if edns_dropped { "server-nsid:opt-dropped" } else { "server-nsid:truncated" });
        l.nontrivial(fnv64(&got) ^ (payload as u64).wrapping_mul(0x9e3779b97f4a7c15) ^ ((nsid_len as u64) << 40));
    } else {
        l.outcome("server-nsid:complete");
    }
}

fn srv_queries(z: &SrvZone) -> Vec<SrvQuery> {
    let mut v = vec![];
    let dos: &[bool] = if z.signed { &[false, true] } else { &[false] };
    for &d in dos {
        v.push(SrvQuery { name: "r.z.", qtype: if z.big { RecordType::TXT } else { RecordType::A }, dnssec_ok: d });
        v.push(SrvQuery { name: "z.", qtype: RecordType::NS, dnssec_ok: d });
        v.push(SrvQuery { name: "r.z.", qtype: RecordType::MX, dnssec_ok: d }); // NODATA
        v.push(SrvQuery { name: "x.r.z.", qtype: RecordType::A, dnssec_ok: d }); // NXDOMAIN
        v.push(SrvQuery { name: "q.w.z.", qtype: RecordType::A, dnssec_ok: d }); // wildcard
        if z.signed {
            v.push(SrvQuery { name: "z.", qtype: RecordType::DNSKEY, dnssec_ok: d });
        }
    }
    v
}

fn srv_payloads(full_len: usize) -> Vec<i32> {
    let mut v: Vec<i32> = vec![-1, 0, 511];
    let top = (full_len + 2).min(65535);
    let dense_to = top.min(1500);
    v.extend((512..=dense_to as i32).into_iter());
    let mut p = dense_to + 53;
    while p < top {
        v.push(p as i32);
        p += 53;
    }
    for x in [full_len.saturating_sub(1), full_len, full_len + 1, 1232, 4096, 65535] {
        if x >= 512 && x <= 65535 {
            v.push(x as i32);
        }
    }
    v.sort();
    v.dedup();
    v
}

fn main() {
    // a stack overflow / abort in the code under test must become a verdict, not a dead check
    vcore::supervise("C03");
    vcore::install_log_evaluation(); // logging is part of the environment: log arguments are evaluated as under a real subscriber
    let ctx = Ctx::from_args("C03", "exploration");
    let thorough = !ctx.quick();
    if let Some((_key, case)) = ctx.replay_case() {
        let rt = vsim::rt();
        ctx.with_local(|l| {
            if case["server"].as_bool() == Some(true) {
                let z = SrvZone {
                    nrec: case["nrec"].as_u64().unwrap() as usize,
                    big: case["big"].as_bool().unwrap(),
                    nns: case["nns"].as_u64().unwrap_or(0) as usize,
                    signed: case["signed"].as_bool().unwrap_or(false),
                    axfr: case["axfr"].as_bool().unwrap_or(false),
                };
                let cat = build_catalog(&z);
                if let Some(nsid_len) = case["nsid_len"].as_u64() {
                    use hickory_proto::rr::rdata::opt::NSIDPayload;
                    let mut cat = cat;
                    cat.set_nsid(Some(NSIDPayload::new(vec![0xab; nsid_len as usize]).unwrap()));
                    let qname: &'static str = Box::leak(case["qname"].as_str().unwrap().to_string().into_boxed_str());
                    let q = SrvQuery {
                        name: qname,
                        qtype: RecordType::from(case["qtype"].as_u64().unwrap() as u16),
                        dnssec_ok: case["do"].as_bool().unwrap_or(false),
                    };
                    let ref_payload = if case["payload"].as_i64().unwrap() < 0 { -1 } else { 65535 };
                    let full = one_response(&rt, &cat, &request_bytes(&q, ref_payload), Protocol::Tcp).expect("reference response");
                    let (_, fm) = well_formed(&full).expect("reference response well-formed");
                    run_srv_nsid(
                        &z,
                        &cat,
                        &q,
                        case["payload"].as_i64().unwrap() as i32,
                        nsid_len as usize,
                        case["version"].as_u64().unwrap_or(0) as u8,
                        case["tcp"].as_bool().unwrap_or(false),
                        &fm,
                        &rt,
                        l,
                    );
                } else if case["huge"].as_bool() == Some(true) {
                    run_srv_huge(&z, &cat, case["tcp"].as_bool().unwrap_or(false), &rt, l);
                } else {
                    let qname: &'static str = Box::leak(case["qname"].as_str().unwrap().to_string().into_boxed_str());
                    let q = SrvQuery {
                        name: qname,
                        qtype: RecordType::from(case["qtype"].as_u64().unwrap() as u16),
                        dnssec_ok: case["do"].as_bool().unwrap_or(false),
                    };
                    let front = hickory_server::Server::new(build_catalog(&z));
                    run_srv_case(&z, &cat, Some(&front), &q, case["payload"].as_i64().unwrap() as i32, &rt, l);
                }
            } else if let Some(tag) = case["typed"].as_str() {
                let entries = c01::alphabet::rdata_alphabet(true);
                if let Some(e) = entries.iter().find(|e| e.tag == tag) {
                    let m = typed_message(&e.value, case["edns"].as_bool().unwrap_or(false));
                    run_typed_case(&e.tag, e.rtype, &m, case["limit"].as_u64().unwrap_or(512) as u16, l);
                }
            } else {
                let (c, limit) = Case::from_json(&case);
                let alpha = alphabet(true);
                run_case(&c, limit, &alpha, l);
            }
        });
        ctx.finish(false);
    }

    ctx.set_rule(
        "every (message, limit) with message = <=k records per section from a size-diverse alphabet x EDNS x TSIG x TC \
         and limit = EVERY value 12..len(full)+2 plus {512,1232,4096,65535}; server path: RRsets of 1..N records x \
         advertised payload x UDP/TCP. Non-trivial = distinct (output bytes, limit) in which at least one record was dropped.",
    );
    ctx.assume("vref::wire walker (RFC 1035 4.1) is the reference for 'no bytes left over' and header counts");

    // (a) encoder family: quick = 7-record alphabet, <= (2,2,1) records per section; thorough adds
    //     the 8-record alphabet (300-byte TXT) with <= (3,1,1) records per section
    let mut families: Vec<(Vec<Record>, (usize, usize, usize))> = vec![(alphabet(false), (2, 2, 1))];
    if thorough {
        let deep = if std::env::var("VERIF_C03_DEEP").is_ok() { (3, 2, 1) } else { (3, 1, 1) };
        families.push((alphabet(true), deep));
    }
    let mut total_messages = 0u64;
    let t0 = std::time::Instant::now();
    let mut fam_wall: Vec<(&str, f64)> = vec![];
    for (alpha, (max_an, max_ns, max_ar)) in &families {
        let k = alpha.len();
        let an = sequences(k, *max_an);
        let ns = sequences(k, *max_ns);
        let ar = sequences(k, *max_ar);
        let od = Odometer::new(&[an.len() as u64, ns.len() as u64, ar.len() as u64, 2, 2, 2]);
        let space = od.space();
        total_messages += space;
        ctx.par_run(space, 8, |i, l| {
            let d = od.get(i);
            let case = Case {
                an: an[d[0] as usize].clone(),
                ns: ns[d[1] as usize].clone(),
                ar: ar[d[2] as usize].clone(),
                edns: d[3] == 1,
                tsig: d[4] == 1,
                tc: d[5] == 1,
            };
            let full = match case.build(alpha).to_vec() {
                Ok(b) => b.len(),
                Err(_) => return,
            };
            let top = (full + 2).min(65535);
            for limit in 12..=top {
                run_case(&case, limit as u16, alpha, l);
            }
            for limit in [512u16, 1232, 4096, 65535] {
                if (limit as usize) > top {
                    run_case(&case, limit, alpha, l);
                }
            }
            if i % 9973 == 0 {
                l.sample(case.to_json((full / 2) as u16));
            }
        });
    }
    ctx.set("messages", json!(total_messages));
    fam_wall.push(("a:encoder", t0.elapsed().as_secs_f64()));

    // (b) server path
    let mut zones = vec![];
    let nrecs: Vec<usize> = if thorough { (1..=60).collect() } else { vec![1, 2, 3, 5, 8, 13, 20, 27, 28, 29, 30, 31, 32, 40] };
    for &nrec in &nrecs {
        for signed in [false, true] {
            zones.push(SrvZone { nrec, big: false, nns: if nrec % 2 == 0 { 3 } else { 0 }, signed, axfr: false });
        }
    }
    for nrec in if thorough { vec![1, 2, 3, 4, 5, 8, 16, 17, 40] } else { vec![1, 2, 4, 5] } {
        for signed in [false, true] {
            zones.push(SrvZone { nrec, big: true, nns: 12, signed, axfr: false });
        }
    }
    ctx.set("server_zones", json!(zones.len()));
    ctx.par_run_init(
        zones.len() as u64,
        1,
        |_| vsim::rt(),
        |i, l, rt| {
            let z = &zones[i as usize];
            let cat = build_catalog(z);
            let front = hickory_server::Server::new(build_catalog(z));
            for q in srv_queries(z) {
                // length of the complete response decides the payload sweep: EVERY payload value
                // from 512 to len+2 (<= 1500 densely, then stepped), plus the boundary values
                let full_len = match one_response(rt, &cat, &request_bytes(&q, 65535), Protocol::Tcp) {
                    Ok(b) => b.len(),
                    Err(_) => 512,
                };
                for p in srv_payloads(full_len) {
                    // the front door is compared on the boundary payloads and every 16th of the dense sweep
                    let fd = p < 512 || p % 16 == 0 || (p as usize + 2 >= full_len && p as usize <= full_len + 2) || [1232, 4096, 65535].contains(&p);
                    run_srv_case(z, &cat, if fd { Some(&front) } else { None }, &q, p, rt, l);
                }
                if i % 7 == 0 && q.dnssec_ok {
                    l.sample(srv_json(z, &q, full_len as i32 - 1));
                }
            }
        },
    );
    fam_wall.push(("b:server-differential", t0.elapsed().as_secs_f64()));
    // responses above 64 KiB
    let huge: Vec<SrvZone> = [250usize, 256, 300].iter().map(|&nrec| SrvZone { nrec, big: true, nns: 0, signed: false, axfr: false }).collect();
    ctx.par_run_init(
        huge.len() as u64 * 2,
        1,
        |_| vsim::rt(),
        |i, l, rt| {
            let z = &huge[(i / 2) as usize];
            let cat = build_catalog(z);
            run_srv_huge(z, &cat, i % 2 == 1, rt, l);
        },
    );

    fam_wall.push(("b:huge", t0.elapsed().as_secs_f64()));
    // (c) zone transfers and error responses: whatever the server sends must respect the
    //     transport limit and be well-formed (the differential oracle does not apply: an AXFR
    //     answer has no "complete" counterpart once the zone exceeds one message)
    let mut xzones = vec![];
    for nrec in if thorough { (1..=280).step_by(3).collect::<Vec<_>>() } else { vec![1, 5, 40, 200, 240, 250, 256, 260, 280] } {
        for big in [false, true] {
            for signed in [false, true] {
                if signed && nrec > 60 {
                    continue; // signing hundreds of TXT records only costs time
                }
                xzones.push(SrvZone { nrec, big, nns: 2, signed, axfr: true });
            }
        }
    }
    ctx.set("axfr_zones", json!(xzones.len()));
    ctx.par_run_init(
        xzones.len() as u64,
        1,
        |_| vsim::rt(),
        |i, l, rt| {
            let z = &xzones[i as usize];
            let cat = build_catalog(z);
            for (qname, qtype) in [("z.", RecordType::AXFR), ("z.", RecordType::ANY), ("r.z.", RecordType::ANY), ("out.o.", RecordType::A)] {
                for payload in [-1i32, 512, 1232, 65535] {
                    for tcp in [false, true] {
                        l.eval();
                        let qname: &'static str = qname;
                        let q = SrvQuery { name: qname, qtype, dnssec_ok: z.signed };
                        let req = request_bytes(&q, payload);
                        let proto = if tcp { Protocol::Tcp } else { Protocol::Udp };
                        let wit = || {
                            let mut j = srv_json(z, &q, payload);
                            j["multi"] = json!(true);
                            j["tcp"] = json!(tcp);
                            j
                        };
                        let msgs = match catch(|| rt.block_on(vsim::serve(&cat, &req, proto))) {
                            Err(p) => {
                                l.violation(&format!("server-panic:{}", vcore::short_loc(&p.loc)), &p.msg, wit);
                                continue;
                            }
                            Ok(None) => continue,
                            Ok(Some(m)) => m,
                        };
                        let limit = if tcp { 65535 } else { payload.max(512) as usize };
                        for b in &msgs {
                            if b.len() > limit {
                                l.violation(
                                    if tcp { "server-over-limit:tcp" } else { "server-over-limit:udp" },
                                    &format!("{} bytes sent for {:?}, limit {}", b.len(), qtype, limit),
                                    wit,
                                );
                                break;
                            }
                            if let Err((k, what)) = well_formed(b) {
                                l.violation(&format!("{k}:{}", if qtype == RecordType::AXFR { "axfr" } else { "other" }), &what, wit);
                                break;
                            }
                        }
                        l.outcome(if msgs.len() == 1 { "multi:one-message" } else { "multi:several-or-none" });
                        if msgs.iter().any(|b| b.len() > 4096) {
                            l.nontrivial(fnv64(format!("{z:?}{qname}{qtype}{payload}{tcp}").as_bytes()));
                        }
                    }
                }
            }
        },
    );
    fam_wall.push(("c:axfr-any-refused", t0.elapsed().as_secs_f64()));

    // (e) server-side EDNS knob: a configured NSID payload of every interesting size (0 .. the
    //     largest NSIDPayload::new accepts, 65,535, whose OPT RDATA no longer fits 16 bits) x EDNS
    //     version x payload sweep x UDP/TCP
    let nsid_lens: Vec<usize> = if thorough {
        vec![0, 1, 16, 100, 300, 480, 485, 490, 495, 500, 505, 510, 1000, 4000, 40000, 65000, 65400, 65500, 65519, 65520, 65521, 65530, 65531, 65532, 65535]
    } else {
        vec![0, 100, 480, 500, 1000, 40000, 65500, 65520, 65531, 65532, 65535]
    };
    let mut nzones = vec![];
    for nrec in if thorough { vec![1, 10, 20, 25, 28, 29, 30] } else { vec![1, 20, 29] } {
        for signed in [false, true] {
            nzones.push(SrvZone { nrec, big: false, nns: 0, signed, axfr: false });
        }
    }
    let njobs = nzones.len() * nsid_lens.len();
    ctx.set("nsid_jobs", json!(njobs));
    ctx.par_run_init(
        njobs as u64,
        1,
        |_| vsim::rt(),
        |i, l, rt| {
            use hickory_proto::rr::rdata::opt::NSIDPayload;
            let z = &nzones[i as usize / nsid_lens.len()];
            let nsid_len = nsid_lens[i as usize % nsid_lens.len()];
            let mut cat = build_catalog(z);
            cat.set_nsid(Some(NSIDPayload::new(vec![0xab; nsid_len]).expect("NSID payload")));
            let dos: &[bool] = if z.signed { &[false, true] } else { &[false] };
            for &d in dos {
                for (qname, qtype) in [("r.z.", RecordType::A), ("x.r.z.", RecordType::A)] {
                    let q = SrvQuery { name: qname, qtype, dnssec_ok: d };
                    let full = match one_response(rt, &cat, &request_bytes(&q, 65535), Protocol::Tcp) {
                        Ok(b) => b,
                        Err(_) => continue,
                    };
                    let Ok((_, fm)) = well_formed(&full) else { continue };
                    // a request without OPT gets no DNSSEC records: its own reference
                    let Ok(plain) = one_response(rt, &cat, &request_bytes(&q, -1), Protocol::Tcp) else { continue };
                    let Ok((_, fm_plain)) = well_formed(&plain) else { continue };
                    let mut payloads: Vec<i32> = vec![-1, 0, 1232, 4096, 65535];
                    let dense_to = if thorough { 1400 } else { 600 };
                    payloads.extend(512..=dense_to);
                    for x in [full.len() + nsid_len, full.len() + nsid_len + 4, full.len() + nsid_len + 15] {
                        for dlt in 0..=2usize {
                            if x + dlt >= 512 && x + dlt <= 65535 {
                                payloads.push((x + dlt) as i32);
                            }
                            if x >= 512 + dlt && x - dlt <= 65535 {
                                payloads.push((x - dlt) as i32);
                            }
                        }
                    }
                    payloads.sort();
                    payloads.dedup();
                    for &p in &payloads {
                        for tcp in [false, true] {
                            if tcp && p > 600 && p != 65535 {
                                continue; // the TCP limit does not depend on the payload
                            }
                            run_srv_nsid(z, &cat, &q, p, nsid_len, 0, tcp, if p < 0 { &fm_plain } else { &fm }, rt, l);
                        }
                    }
                    for version in [1u8, 255] {
                        for p in [512, 1232] {
                            for tcp in [false, true] {
                                run_srv_nsid(z, &cat, &q, p, nsid_len, version, tcp, &fm, rt, l);
                            }
                        }
                    }
                }
            }
        },
    );
    fam_wall.push(("e:nsid-version", t0.elapsed().as_secs_f64()));

    // (f) records the encoder cannot write at all (RDATA above 65,535 octets, loaded through the
    //     zone API): whatever `MessageResponse::encode` falls back to must still be one
    //     well-formed message within the transport limit that carries the request id
    ctx.par_run_init(
        4,
        1,
        |_| vsim::rt(),
        |i, l, rt| {
            let nstr = [257usize, 258, 300, 1000][i as usize]; // 257 x 255 octets = 65,792 > 65,535
            let origin = n("z.");
            let mut zone = InMemoryZoneHandler::<vsim::SimProvider>::empty(origin.clone(), ZoneType::Primary, AxfrPolicy::AllowAll, None);
            zone.upsert_mut(Record::from_rdata(origin.clone(), 300, RData::SOA(SOA::new(n("ns.o."), n("h.o."), 1, 1, 1, 1, 300))), 1);
            zone.upsert_mut(Record::from_rdata(origin.clone(), 300, RData::NS(NS(n("ns.o.")))), 1);
            zone.upsert_mut(Record::from_rdata(n("r.z."), 300, RData::TXT(TXT::new(vec!["t".repeat(254); nstr]))), 1);
            zone.upsert_mut(Record::from_rdata(n("r.z."), 300, RData::A(A::new(10, 0, 0, 1))), 1);
            let mut cat = Catalog::new();
            cat.upsert(origin.into(), vec![Arc::new(zone)]);
            for (qname, qtype) in [("r.z.", RecordType::TXT), ("r.z.", RecordType::ANY), ("z.", RecordType::AXFR), ("r.z.", RecordType::A)] {
                for payload in [-1i32, 512, 4096, 65535] {
                    for tcp in [false, true] {
                        l.eval();
                        let q = SrvQuery { name: qname, qtype, dnssec_ok: false };
                        let req = request_bytes(&q, payload);
                        let proto = if tcp { Protocol::Tcp } else { Protocol::Udp };
                        let wit = || json!({"unencodable": true, "nstr": nstr, "qname": qname, "qtype": u16::from(qtype), "payload": payload, "tcp": tcp});
                        let msgs = match catch(|| rt.block_on(vsim::serve(&cat, &req, proto))) {
                            Err(p) => {
                                l.violation(&format!("server-panic:{}", vcore::short_loc(&p.loc)), &p.msg, wit);
                                continue;
                            }
                            Ok(None) => continue,
                            Ok(Some(m)) => m,
                        };
                        let limit = if tcp { 65535 } else { payload.max(512) as usize };
                        if msgs.is_empty() {
                            l.violation("server-response-count:0:unencodable", "no response at all for a zone holding an unencodable record", wit);
                            continue;
                        }
                        for b in &msgs {
                            if b.len() > limit {
                                l.violation(
                                    if tcp { "server-over-limit:tcp" } else { "server-over-limit:udp" },
                                    &format!("{} bytes sent for {:?}, limit {}", b.len(), qtype, limit),
                                    wit,
                                );
                                break;
                            }
                            match well_formed(b) {
                                Err((k, what)) => {
                                    l.violation(&format!("{k}:unencodable"), &what, wit);
                                    break;
                                }
                                Ok((_, m)) => {
                                    if m.metadata.id != 7 {
                                        l.violation("server-question-or-id-changed", "fallback response carries another id", wit);
                                        break;
                                    }
                                    l.outcome(&format!("unencodable:rcode={}", u16::from(m.metadata.response_code)));
                                }
                            }
                        }
                        l.nontrivial(fnv64(format!("unenc{nstr}{qname}{qtype}{payload}{tcp}").as_bytes()));
                    }
                }
            }
        },
    );
    fam_wall.push(("f:unencodable-record", t0.elapsed().as_secs_f64()));

    // (g) every typed RDATA of the shared alphabet under every limit
    let entries = c01::alphabet::rdata_alphabet(thorough);
    ctx.set("typed_rdata_entries", json!(entries.len()));
    ctx.par_run(entries.len() as u64 * 2, 1, |i, l| {
        let e = &entries[(i / 2) as usize];
        if e.rtype == 41 || e.rtype == 250 || e.rtype == 24 {
            return; // OPT, TSIG and SIG(0) are message-level records (only valid in the additional section)
        }
        let m = typed_message(&e.value, i % 2 == 1);
        let Ok(full) = m.to_vec() else {
            l.outcome("typed:unencodable-entry");
            return;
        };
        let top = (full.len() + 2).min(65535);
        for limit in 12..=top {
            run_typed_case(&e.tag, e.rtype, &m, limit as u16, l);
        }
        l.outcome("typed:entry");
    });
    fam_wall.push(("g:typed-rdata", t0.elapsed().as_secs_f64()));

    // (d) large messages through the plain encoder: k copies of a 300-byte TXT record (up to
    //     ~84 KiB) under the limits around every multiple of the record size near 64 KiB
    let big_alpha = alphabet(true);
    let ks: Vec<usize> = if thorough { (1..=280).collect() } else { vec![1, 2, 50, 100, 200, 210, 215, 216, 217, 218, 219, 220, 230, 280] };
    ctx.par_run(ks.len() as u64, 1, |i, l| {
        let k = ks[i as usize];
        let case = Case { an: vec![7; k], ns: vec![0], ar: vec![6], edns: true, tsig: k % 2 == 0, tc: false };
        let m = case.build(&big_alpha);
        let full_len = 12 + 21 + k * 311;
        let mut limits: Vec<u32> = vec![512, 4096, 16383, 16384, 16385, 32768, 65535];
        for d in 0..=4u32 {
            limits.push(65535 - d);
            if full_len as u32 + d <= 65535 {
                limits.push(full_len as u32 + d);
            }
            if full_len as u32 > d {
                limits.push((full_len as u32 - d).min(65535));
            }
        }
        limits.sort();
        limits.dedup();
        let _ = m;
        for lim in limits {
            run_case(&case, lim as u16, &big_alpha, l);
        }
    });

    fam_wall.push(("d:large", t0.elapsed().as_secs_f64()));
    ctx.set("family_wall_s_cumulative", json!(fam_wall.iter().map(|(k, v)| json!([k, (v * 10.0).round() / 10.0])).collect::<Vec<_>>()));
    if ctx.outcome_count("truncated") == 0 || ctx.outcome_count("server-truncated") == 0 {
        ctx.machinery_failure("vacuous run: no truncation was exercised");
    }
    ctx.finish(true);
}
