//! C03 — size-limited encoding truncates cleanly and never exceeds the limit.
//!
//! E-ENUM: (a) every message of a size-diverse family x EVERY limit 12..len+2 through
//! `BinEncoder::set_max_size` + `Message::emit`; (b) the server path
//! `Catalog::handle_request -> ResponseHandle -> MessageResponse::encode` for RRsets of 1..N
//! records x advertised payload sizes x UDP/TCP.
//!
//! Oracle (independent wire walker `vref::wire`): encoding fails, or len <= L, the walker
//! consumes exactly len bytes, hickory decodes the bytes, every section is a prefix of the
//! original one (EDNS / TSIG: unchanged or dropped), TC = original TC || something dropped.

use std::net::SocketAddr;
use std::str::FromStr;
use std::sync::Arc;

use futures_util::StreamExt;
use hickory_net::{runtime::TokioRuntimeProvider, runtime::TokioTime, xfer::Protocol, BufDnsStreamHandle};
use hickory_proto::op::{Edns, Message, MessageType, OpCode, Query};
use hickory_proto::rr::rdata::tsig::TsigAlgorithm;
use hickory_proto::rr::rdata::{A, MX, NS, SOA, TSIG, TXT};
use hickory_proto::rr::{Name, RData, Record, RecordType};
use hickory_proto::serialize::binary::{BinEncodable, BinEncoder};
use hickory_server::server::{Request, RequestHandler, ResponseHandle};
use hickory_server::store::in_memory::InMemoryZoneHandler;
use hickory_server::zone_handler::{AxfrPolicy, Catalog, ZoneType};
use serde_json::{json, Value};
use vcore::{catch, fnv64, hex, Ctx, Local, Odometer};

fn n(s: &str) -> Name {
    Name::from_str(s).unwrap()
}

/// Size-diverse record alphabet.
fn alphabet(thorough: bool) -> Vec<Record> {
    let mut v = vec![
        // 0: small A at the question name (compresses to a pointer)
        Record::from_rdata(n("www.example.com."), 300, RData::A(A::new(192, 0, 2, 1))),
        // 1: TXT ~60 bytes
        Record::from_rdata(
            n("txt.example.com."),
            60,
            RData::TXT(TXT::new(vec!["0123456789abcdefghijklmnopqrstuvwxyz0123456789ABCDEF".to_string()])),
        ),
        // 2: SOA with compressible names
        Record::from_rdata(
            n("example.com."),
            3600,
            RData::SOA(SOA::new(n("ns1.example.com."), n("hostmaster.example.com."), 7, 1, 2, 3, 4)),
        ),
        // 3: NS sharing a suffix with the question
        Record::from_rdata(n("example.com."), 86400, RData::NS(NS(n("ns2.example.com.")))),
        // 4: owner is a fresh 63-octet label (no compression possible for it)
        Record::from_rdata(
            Name::from_labels(vec![&[b'x'; 63][..], b"org"]).unwrap(),
            1,
            RData::A(A::new(10, 0, 0, 1)),
        ),
        // 5: MX whose exchange is compressible against record 3's rdata
        Record::from_rdata(n("example.com."), 5, RData::MX(MX::new(10, n("mail.ns2.example.com.")))),
    ];
    // 6: small record whose owner equals the owner of the 60-byte TXT (record 1): after the TXT
    //    is rolled back, its compression targets must be gone too
    v.push(Record::from_rdata(n("txt.example.com."), 300, RData::A(A::new(192, 0, 2, 7))));
    if thorough {
        // 7: 300-byte TXT (two strings)
        v.push(Record::from_rdata(
            n("big.example.com."),
            9,
            RData::TXT(TXT::new(vec!["a".repeat(255), "b".repeat(40)])),
        ));
    }
    v
}

fn tsig_record() -> Box<Record<TSIG>> {
    let tsig = TSIG::new(
        TsigAlgorithm::HmacSha256,
        1_700_000_000,
        300,
        vec![0xab; 32],
        0x1234,
        None,
        vec![],
    );
    let mut r = Record::from_rdata(n("key.example."), 0, tsig);
    r.dns_class = hickory_proto::rr::DNSClass::ANY;
    Box::new(r)
}

#[derive(Clone, Debug)]
struct Case {
    an: Vec<usize>,
    ns: Vec<usize>,
    ar: Vec<usize>,
    edns: bool,
    tsig: bool,
    tc: bool,
}

impl Case {
    fn to_json(&self, limit: u16) -> Value {
        json!({"an": self.an, "ns": self.ns, "ar": self.ar, "edns": self.edns, "tsig": self.tsig, "tc": self.tc, "limit": limit})
    }
    fn from_json(v: &Value) -> (Case, u16) {
        let idx = |k: &str| -> Vec<usize> {
            v[k].as_array().map(|a| a.iter().map(|x| x.as_u64().unwrap() as usize).collect()).unwrap_or_default()
        };
        (
            Case {
                an: idx("an"),
                ns: idx("ns"),
                ar: idx("ar"),
                edns: v["edns"].as_bool().unwrap_or(false),
                tsig: v["tsig"].as_bool().unwrap_or(false),
                tc: v["tc"].as_bool().unwrap_or(false),
            },
            v["limit"].as_u64().unwrap_or(512) as u16,
        )
    }
    fn build(&self, alpha: &[Record]) -> Message {
        let mut m = Message::new(0x1234, MessageType::Response, OpCode::Query);
        m.metadata.truncation = self.tc;
        m.add_query(Query::new(n("www.example.com."), RecordType::A));
        for i in &self.an {
            m.add_answer(alpha[*i].clone());
        }
        for i in &self.ns {
            m.add_authority(alpha[*i].clone());
        }
        for i in &self.ar {
            m.add_additional(alpha[*i].clone());
        }
        if self.edns {
            let mut e = Edns::new();
            e.set_max_payload(1232);
            m.set_edns(e);
        }
        if self.tsig {
            m.set_signature(tsig_record());
        }
        m
    }
}

/// All index sequences of length 0..=max over an alphabet of size k, in a fixed order.
fn sequences(k: usize, max: usize) -> Vec<Vec<usize>> {
    let mut out = vec![vec![]];
    let mut last = vec![vec![]];
    for _ in 0..max {
        let mut next = vec![];
        for s in &last {
            for i in 0..k {
                let mut t: Vec<usize> = s.clone();
                t.push(i);
                next.push(t);
            }
        }
        out.extend(next.iter().cloned());
        last = next;
    }
    out
}

fn encode_with_limit(m: &Message, limit: u16) -> Result<Vec<u8>, String> {
    let mut buf = Vec::with_capacity(512);
    let res = {
        let mut enc = BinEncoder::new(&mut buf);
        enc.set_max_size(limit);
        m.emit(&mut enc)
    };
    match res {
        Ok(()) => Ok(buf),
        Err(e) => Err(e.to_string()),
    }
}

fn is_prefix(got: &[Record], orig: &[Record]) -> bool {
    got.len() <= orig.len() && got.iter().zip(orig.iter()).all(|(g, o)| g == o && g.name.eq_case(&o.name))
}

/// The oracle for one (message, limit, bytes). Returns Some((clause, what)) on violation.
fn judge(orig: &Message, limit: usize, bytes: &[u8], l: &mut Local) -> Option<(String, String)> {
    if bytes.len() > limit {
        return Some(("over-limit".into(), format!("{} bytes emitted for limit {}", bytes.len(), limit)));
    }
    let w = match vref::wire::walk(bytes) {
        Ok(w) => w,
        Err(e) => return Some(("walker-rejects".into(), format!("reference walker: {e:?}"))),
    };
    if w.consumed != bytes.len() {
        // classify: is the message otherwise fine and only a rolled-back record left behind?
        return Some((
            "leftover-bytes".into(),
            format!("{} bytes returned, sections end at {}", bytes.len(), w.consumed),
        ));
    }
    let dec = match Message::from_vec(bytes) {
        Ok(d) => d,
        Err(e) => return Some(("hickory-rejects-own-output".into(), e.to_string())),
    };
    if dec.queries != orig.queries {
        return Some(("question-changed".into(), "question section differs".into()));
    }
    if !is_prefix(&dec.answers, &orig.answers) {
        return Some(("section-not-prefix:answer".into(), format!("{:?}", dec.answers)));
    }
    if !is_prefix(&dec.authorities, &orig.authorities) {
        return Some(("section-not-prefix:authority".into(), format!("{:?}", dec.authorities)));
    }
    if !is_prefix(&dec.additionals, &orig.additionals) {
        return Some(("section-not-prefix:additional".into(), format!("{:?}", dec.additionals)));
    }
    let edns_dropped = match (&orig.edns, &dec.edns) {
        (None, None) => false,
        (Some(_), None) => true,
        (Some(a), Some(b)) if a == b => false,
        _ => return Some(("edns-changed".into(), format!("{:?} vs {:?}", orig.edns, dec.edns))),
    };
    let tsig_dropped = match (&orig.signature, &dec.signature) {
        (None, None) => false,
        (Some(_), None) => true,
        (Some(a), Some(b)) if a == b => false,
        _ => return Some(("tsig-changed".into(), "signature record differs".into())),
    };
    let present = dec.answers.len() + dec.authorities.len() + dec.additionals.len()
        + dec.edns.is_some() as usize + dec.signature.is_some() as usize;
    let counted = w.header.an as usize + w.header.ns as usize + w.header.ar as usize;
    if present != counted {
        return Some(("counts-mismatch".into(), format!("header counts {counted}, records {present}")));
    }
    let dropped = dec.answers.len() < orig.answers.len()
        || dec.authorities.len() < orig.authorities.len()
        || dec.additionals.len() < orig.additionals.len()
        || edns_dropped
        || tsig_dropped;
    let want_tc = orig.metadata.truncation || dropped;
    if dec.metadata.truncation != want_tc {
        return Some((
            if dropped { "tc-not-set-after-drop".into() } else { "tc-changed-without-drop".into() },
            format!("TC={} expected {}", dec.metadata.truncation, want_tc),
        ));
    }
    if dropped {
        l.nontrivial(fnv64(bytes) ^ (limit as u64).wrapping_mul(0x9e3779b97f4a7c15));
        l.outcome("truncated");
    } else {
        l.outcome("complete");
    }
    None
}

fn run_case(case: &Case, limit: u16, alpha: &[Record], l: &mut Local) {
    let m = case.build(alpha);
    l.eval();
    match catch(|| encode_with_limit(&m, limit)) {
        Err(p) => l.violation(
            &format!("panic:{}", vcore::short_loc(&p.loc)),
            &format!("encoder panicked: {}", p.msg),
            || case.to_json(limit),
        ),
        Ok(Err(_)) => l.outcome("encode-failed"),
        Ok(Ok(bytes)) => {
            if let Some((clause, what)) = judge(&m, limit as usize, &bytes, l) {
                l.violation(&clause, &what, || {
                    let mut j = case.to_json(limit);
                    j["bytes"] = json!(hex::enc(&bytes));
                    j
                });
            }
        }
    }
}

// ------------------------------------------------------------------------------------------
// server path

#[derive(Clone, Debug)]
struct SrvCase {
    nrec: usize,   // records in the RRset
    big: bool,     // 255-byte TXT strings instead of A
    payload: i32,  // -1 = no EDNS
    tcp: bool,
}

fn srv_json(c: &SrvCase) -> Value {
    json!({"server": true, "nrec": c.nrec, "big": c.big, "payload": c.payload, "tcp": c.tcp})
}

fn build_catalog(c: &SrvCase) -> Catalog {
    let origin = n("z.");
    let mut zone = InMemoryZoneHandler::<TokioRuntimeProvider>::empty(origin.clone(), ZoneType::Primary, AxfrPolicy::Deny, None);
    zone.upsert_mut(
        Record::from_rdata(origin.clone(), 300, RData::SOA(SOA::new(n("ns.o."), n("h.o."), 1, 1, 1, 1, 300))),
        1,
    );
    zone.upsert_mut(Record::from_rdata(origin.clone(), 300, RData::NS(NS(n("ns.o.")))), 1);
    for i in 0..c.nrec {
        let r = if c.big {
            let mut s = format!("{i:05}");
            s.push_str(&"t".repeat(250));
            Record::from_rdata(n("r.z."), 300, RData::TXT(TXT::new(vec![s])))
        } else {
            Record::from_rdata(n("r.z."), 300, RData::A(A::new(10, 1, (i / 256) as u8, (i % 256) as u8)))
        };
        zone.upsert_mut(r, 1);
    }
    let mut catalog = Catalog::new();
    catalog.upsert(origin.into(), vec![Arc::new(zone)]);
    catalog
}

fn run_srv_case(c: &SrvCase, rt: &tokio::runtime::Runtime, l: &mut Local) {
    l.eval();
    let src: SocketAddr = "192.0.2.1:5353".parse().unwrap();
    let proto = if c.tcp { Protocol::Tcp } else { Protocol::Udp };
    let qtype = if c.big { RecordType::TXT } else { RecordType::A };
    let mut q = Message::new(7, MessageType::Query, OpCode::Query);
    q.add_query(Query::new(n("r.z."), qtype));
    if c.payload >= 0 {
        let mut e = Edns::new();
        e.set_max_payload(c.payload as u16);
        q.set_edns(e);
        // set_max_payload clamps to >= 512; patch the class field for the small values below
    }
    let mut qbytes = q.to_vec().unwrap();
    if c.payload >= 0 && c.payload < 512 {
        // OPT is the last record: name(1) type(2) class(2) ttl(4) rdlen(2) => class at len-8
        let p = qbytes.len() - 8;
        qbytes[p..p + 2].copy_from_slice(&(c.payload as u16).to_be_bytes());
    }
    let res = catch(|| {
        rt.block_on(async {
            let catalog = build_catalog(c);
            let (handle, mut rx) = BufDnsStreamHandle::new(src);
            let req = Request::from_bytes(qbytes.clone(), src, proto).unwrap();
            catalog.handle_request::<_, TokioTime>(&req, ResponseHandle::new(src, handle, proto)).await;
            drop(catalog);
            let mut out = vec![];
            while let Some(m) = rx.next().await {
                out.push(m.into_parts().0);
            }
            out
        })
    });
    let out = match res {
        Err(p) => {
            l.violation(&format!("server-panic:{}", vcore::short_loc(&p.loc)), &p.msg, || srv_json(c));
            return;
        }
        Ok(o) => o,
    };
    if out.len() != 1 {
        l.violation("server-response-count", &format!("{} responses", out.len()), || srv_json(c));
        return;
    }
    let bytes = &out[0];
    let limit = if c.tcp { 65535 } else { (c.payload.max(512)) as usize };
    let wit = || {
        let mut j = srv_json(c);
        j["response_len"] = json!(bytes.len());
        j["response_head"] = json!(hex::enc(&bytes[..bytes.len().min(64)]));
        j
    };
    if bytes.len() > limit {
        l.violation(
            if c.tcp { "server-over-limit:tcp" } else { "server-over-limit:udp" },
            &format!("{} bytes sent, limit {}", bytes.len(), limit),
            wit,
        );
        return;
    }
    match vref::wire::walk(bytes) {
        Err(e) => {
            l.violation("server-walker-rejects", &format!("{e:?}"), wit);
            return;
        }
        Ok(w) => {
            if w.consumed != bytes.len() {
                l.violation(
                    "server-leftover-bytes",
                    &format!("{} bytes sent, sections end at {}", bytes.len(), w.consumed),
                    wit,
                );
                return;
            }
            if Message::from_vec(bytes).is_err() {
                l.violation("server-undecodable", "hickory cannot decode the server's response", wit);
                return;
            }
            // the OPT record is a record too: if the request carried EDNS and the response's OPT
            // did not fit, something was dropped and TC is due
            let opt_present = w.additionals.iter().any(|r| r.rtype == 41);
            let all = w.answers.len() == c.nrec && (c.payload < 0 || opt_present);
            if !all && !w.header.tc() {
                l.violation("server-tc-not-set", &format!("{} of {} answers, TC clear", w.answers.len(), c.nrec), wit);
                return;
            }
            if all && w.header.tc() {
                l.violation("server-tc-set-without-drop", "all answers present but TC set", wit);
                return;
            }
            if all {
                l.outcome("server-complete");
            } else {
                l.outcome("server-truncated");
                l.nontrivial(fnv64(format!("{c:?}").as_bytes()));
            }
        }
    }
}

fn main() {
    let ctx = Ctx::from_args("C03", "exploration");
    let thorough = !ctx.quick();
    let alpha = alphabet(thorough);

    if let Some((_key, case)) = ctx.replay_case() {
        let rt = tokio::runtime::Builder::new_current_thread().enable_time().build().unwrap();
        ctx.with_local(|l| {
            if case["server"].as_bool() == Some(true) {
                let c = SrvCase {
                    nrec: case["nrec"].as_u64().unwrap() as usize,
                    big: case["big"].as_bool().unwrap(),
                    payload: case["payload"].as_i64().unwrap() as i32,
                    tcp: case["tcp"].as_bool().unwrap(),
                };
                run_srv_case(&c, &rt, l);
            } else {
                let (c, limit) = Case::from_json(&case);
                let alpha = alphabet(true);
                run_case(&c, limit, &alpha, l);
            }
        });
        ctx.finish(false);
    }

    ctx.set_rule(
        "every (message, limit) with message = <=k records per section from a size-diverse alphabet x EDNS x TSIG x TC \
         and limit = EVERY value 12..len(full)+2 plus {512,1232,4096,65535}; server path: RRsets of 1..N records x \
         advertised payload x UDP/TCP. Non-trivial = distinct (output bytes, limit) in which at least one record was dropped.",
    );
    ctx.assume("vref::wire walker (RFC 1035 4.1) is the reference for 'no bytes left over' and header counts");

    // (a) encoder family
    let k = alpha.len();
    let (max_an, max_ns, max_ar) = if thorough { (3, 2, 1) } else { (2, 2, 1) };
    let an = sequences(k, max_an);
    let ns = sequences(k, max_ns);
    let ar = sequences(k, max_ar);
    let od = Odometer::new(&[an.len() as u64, ns.len() as u64, ar.len() as u64, 2, 2, 2]);
    let space = od.space();
    ctx.set("messages", json!(space));
    ctx.par_run(space, 8, |i, l| {
        let d = od.get(i);
        let case = Case {
            an: an[d[0] as usize].clone(),
            ns: ns[d[1] as usize].clone(),
            ar: ar[d[2] as usize].clone(),
            edns: d[3] == 1,
            tsig: d[4] == 1,
            tc: d[5] == 1,
        };
        let full = match case.build(&alpha).to_vec() {
            Ok(b) => b.len(),
            Err(_) => return,
        };
        let top = (full + 2).min(65535);
        for limit in 12..=top {
            run_case(&case, limit as u16, &alpha, l);
        }
        for limit in [512u16, 1232, 4096, 65535] {
            if (limit as usize) > top {
                run_case(&case, limit, &alpha, l);
            }
        }
        if i % 9973 == 0 {
            l.sample(case.to_json((full / 2) as u16));
        }
    });

    // (b) server path
    let mut cases = vec![];
    let nrecs: Vec<usize> = if thorough { (1..=120).collect() } else { (1..=40).collect() };
    let payloads: [i32; 9] = [-1, 0, 511, 512, 513, 1232, 1233, 4096, 65535];
    for &nrec in &nrecs {
        for &payload in &payloads {
            for tcp in [false, true] {
                cases.push(SrvCase { nrec, big: false, payload, tcp });
                if nrec <= 20 || thorough {
                    cases.push(SrvCase { nrec, big: true, payload, tcp });
                }
            }
        }
    }
    // responses above 64 KiB over TCP
    for nrec in [250usize, 256, 300] {
        for tcp in [false, true] {
            cases.push(SrvCase { nrec, big: true, payload: 4096, tcp });
        }
    }
    ctx.set("server_cases", json!(cases.len()));
    ctx.par_run_init(
        cases.len() as u64,
        4,
        |_| tokio::runtime::Builder::new_current_thread().enable_time().build().unwrap(),
        |i, l, rt| run_srv_case(&cases[i as usize], rt, l),
    );
    ctx.with_local(|l| l.sample(srv_json(&cases[cases.len() / 2])));

    if ctx.outcome_count("truncated") == 0 || ctx.outcome_count("server-truncated") == 0 {
        ctx.machinery_failure("vacuous run: no truncation was exercised");
    }
    ctx.finish(true);
}
