//! Simulated DNS hierarchies for C07: every zone is a real `InMemoryZoneHandler<SimProvider>`
//! signed by the real server code (`add_zone_signing_key_mut` + `secure_zone_mut`) inside its own
//! `Catalog`; `Hierarchy::honest` behaves like an honest security-aware recursive upstream (routes a
//! query to the zone that is authoritative for it — DS at the parent — and returns that zone's
//! wire answer for a DO=1 query). `HierUpstream` is the `DnsHandle` the validator sits on: honest
//! answer, then the check's `Tamper`.

use std::collections::HashMap;
use std::pin::Pin;
use std::sync::{Arc, Mutex};
use std::time::Duration;

use futures_util::stream::{self, Stream};
use hickory_net::xfer::{DnsHandle, Protocol};
use hickory_net::NetError;
use hickory_proto::dnssec::rdata::DNSKEY;
use hickory_proto::dnssec::{DnssecSigner, PublicKeyBuf};
use hickory_proto::op::{DnsRequest, DnsResponse, Edns, Message, MessageType, OpCode, Query};
use hickory_proto::rr::rdata::{NS, SOA};
use hickory_proto::rr::{Name, RData, Record, RecordType};
use hickory_server::dnssec::NxProofKind;
use hickory_server::store::in_memory::InMemoryZoneHandler;
use hickory_server::zone_handler::{AxfrPolicy, Catalog, ZoneType};
use vsim::SimProvider;

use crate::keys::{KeyMat, ZoneKey};
use crate::upstream::{key_of, respond_bytes, Key};

pub const SIG_SECS: u64 = 86_400;

#[derive(Clone)]
pub struct ZoneDef {
    pub origin: Name,
    /// (key material, DNSKEY flags); empty = unsigned zone
    pub keys: Vec<(KeyMat, u16)>,
    pub nx: Option<NxProofKind>,
    /// everything besides the apex SOA and NS
    pub records: Vec<Record>,
}

pub struct Zone {
    pub origin: Name,
    pub keys: Vec<ZoneKey>,
    pub catalog: Catalog,
    /// every record the zone publishes, RRSIGs / NSEC(3) / DNSKEY included
    pub published: Vec<Record>,
}

impl Zone {
    pub fn signed(&self) -> bool {
        !self.keys.is_empty()
    }
}

pub fn build_zone(def: &ZoneDef) -> Zone {
    build_zone_ns(def, &crate::n("ns.o."))
}

/// As `build_zone` with the given apex NS target (the recursor hierarchies use in-zone name
/// servers with glue).
pub fn build_zone_ns(def: &ZoneDef, apex_ns: &Name) -> Zone {
    let o = &def.origin;
    let mut z = InMemoryZoneHandler::<SimProvider>::empty(o.clone(), ZoneType::Primary, AxfrPolicy::Deny, def.nx.clone());
    z.upsert_mut(Record::from_rdata(o.clone(), 300, RData::SOA(SOA::new(crate::n("ns.o."), crate::n("h.o."), 1, 3600, 600, 86400, 300))), 1);
    z.upsert_mut(Record::from_rdata(o.clone(), 300, RData::NS(NS(apex_ns.clone()))), 1);
    for r in &def.records {
        z.upsert_mut(r.clone(), 1);
    }
    let mut keys = vec![];
    for (mat, flags) in &def.keys {
        // the server publishes every signing key as `DNSKEY::from_key` (flags 257), whatever the
        // signer was built with
        assert_eq!(*flags, crate::keys::F_KSK, "InMemoryZoneHandler publishes flags 257 only");
        let zk = ZoneKey::new(*mat, o, *flags);
        let dnskey = DNSKEY::with_flags(*flags, zk.public.clone());
        z.add_zone_signing_key_mut(DnssecSigner::new(dnskey, mat.signing_key(), o.clone(), Duration::from_secs(SIG_SECS))).expect("add key");
        keys.push(zk);
    }
    if !keys.is_empty() {
        z.secure_zone_mut().expect("secure zone");
    }
    let mut published = vec![];
    for rs in z.records_get_mut().values() {
        published.extend(rs.records_with_rrsigs().cloned());
    }
    let mut catalog = Catalog::new();
    catalog.upsert(o.clone().into(), vec![Arc::new(z)]);
    Zone { origin: o.clone(), keys, catalog, published }
}

pub struct Hierarchy {
    pub name: String,
    pub zones: Vec<Zone>,
    pub anchors: Vec<PublicKeyBuf>,
    cache: Mutex<HashMap<Key, Vec<u8>>>,
}

impl Hierarchy {
    /// Build all zones (on the calling thread: the signatures' inception is this thread's virtual
    /// wall clock). `anchor_keys` = (zone index, key index) pairs that become trust anchors.
    pub fn build(name: &str, defs: &[ZoneDef], anchor_keys: &[(usize, usize)]) -> Hierarchy {
        let zones: Vec<Zone> = defs.iter().map(build_zone).collect();
        let anchors = anchor_keys.iter().map(|(z, k)| zones[*z].keys[*k].public.clone()).collect();
        Hierarchy { name: name.to_string(), zones, anchors, cache: Mutex::new(HashMap::new()) }
    }

    /// As `build`, every zone with its own apex NS target.
    pub fn build_ns(name: &str, defs: &[(ZoneDef, Name)], anchor_keys: &[(usize, usize)]) -> Hierarchy {
        let zones: Vec<Zone> = defs.iter().map(|(d, ns)| build_zone_ns(d, ns)).collect();
        let anchors = anchor_keys.iter().map(|(z, k)| zones[*z].keys[*k].public.clone()).collect();
        Hierarchy { name: name.to_string(), zones, anchors, cache: Mutex::new(HashMap::new()) }
    }

    /// Index of the deepest zone enclosing `name`.
    pub fn deepest(&self, name: &Name) -> Option<usize> {
        self.zones.iter().enumerate().filter(|(_, z)| z.origin.zone_of(name)).max_by_key(|(_, z)| z.origin.num_labels()).map(|(i, _)| i)
    }

    /// The zone index whose server is authoritative for (name, type): the deepest enclosing zone,
    /// except that DS at a zone apex belongs to the parent.
    pub fn zone_for(&self, name: &Name, t: RecordType) -> Option<usize> {
        let d = self.deepest(name)?;
        if t == RecordType::DS && self.zones[d].origin == *name && !name.is_root() {
            return self.deepest(&name.base_name());
        }
        Some(d)
    }

    pub fn zone_index(&self, origin: &Name) -> Option<usize> {
        self.zones.iter().position(|z| z.origin == *origin)
    }

    /// The honest recursive upstream's answer (wire bytes) to `q`, DO=1.
    pub async fn honest(&self, q: &Query) -> Vec<u8> {
        let k = key_of(&q.name, q.query_type);
        if let Some(b) = self.cache.lock().unwrap().get(&k) {
            return b.clone();
        }
        let bytes = match self.zone_for(&q.name, q.query_type) {
            None => crate::upstream::empty_response(q),
            Some(zi) => {
                let mut m = Message::new(1, MessageType::Query, OpCode::Query);
                m.add_query(q.clone());
                let mut e = Edns::new();
                e.enable_dnssec();
                e.set_max_payload(4096);
                m.set_edns(e);
                match vsim::serve(&self.zones[zi].catalog, &m.to_vec().unwrap(), Protocol::Tcp).await.and_then(|v| v.into_iter().next()) {
                    Some(b) => b,
                    None => crate::upstream::empty_response(q),
                }
            }
        };
        self.cache.lock().unwrap().insert(k, bytes.clone());
        bytes
    }
}

/// What the check does to an honest answer before the validator sees it.
pub trait Tamper: Send + Sync + 'static {
    /// `honest` = wire bytes of the honest answer to `q`; return the bytes to deliver.
    fn apply(&self, q: &Query, honest: Vec<u8>) -> Vec<u8>;
}

pub struct NoTamper;
impl Tamper for NoTamper {
    fn apply(&self, _q: &Query, honest: Vec<u8>) -> Vec<u8> {
        honest
    }
}

#[derive(Clone)]
pub struct HierUpstream {
    pub hier: Arc<Hierarchy>,
    pub tamper: Arc<dyn Tamper>,
    pub log: Arc<Mutex<Vec<Key>>>,
}

impl HierUpstream {
    pub fn new(hier: Arc<Hierarchy>, tamper: Arc<dyn Tamper>) -> Self {
        HierUpstream { hier, tamper, log: Default::default() }
    }
}

impl DnsHandle for HierUpstream {
    type Response = Pin<Box<dyn Stream<Item = Result<DnsResponse, NetError>> + Send>>;
    type Runtime = SimProvider;

    fn send(&self, request: DnsRequest) -> Self::Response {
        let Some(q) = request.queries.first().cloned() else {
            return Box::pin(stream::once(async { Err(NetError::from("no query")) }));
        };
        let this = self.clone();
        let id = request.id;
        Box::pin(stream::once(async move {
            this.log.lock().unwrap().push(key_of(&q.name, q.query_type));
            let honest = this.hier.honest(&q).await;
            let bytes = this.tamper.apply(&q, honest);
            respond_bytes(bytes, id)
        }))
    }
}
