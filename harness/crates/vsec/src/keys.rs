//! Fixed key material (generated once by `src/bin/genkeys.rs`, committed under /verif/keys).

use hickory_proto::dnssec::crypto::{EcdsaSigningKey, Ed25519SigningKey, RsaSigningKey};
use hickory_proto::dnssec::rdata::DNSKEY;
use hickory_proto::dnssec::{Algorithm, PublicKeyBuf, SigningKey};
use hickory_proto::rr::Name;
use rustls_pki_types::PrivatePkcs8KeyDer;

#[derive(Clone, Copy, Debug, PartialEq, Eq)]
pub struct KeyMat {
    pub id: &'static str,
    pub alg: Algorithm,
    pub pkcs8: &'static [u8],
}

macro_rules! km {
    ($id:literal, $alg:expr) => {
        KeyMat { id: $id, alg: $alg, pkcs8: include_bytes!(concat!("../../../../keys/", $id, ".pk8")) }
    };
}

/// 16 Ed25519 keys.
pub const ED: [KeyMat; 16] = [
    km!("ed00", Algorithm::ED25519),
    km!("ed01", Algorithm::ED25519),
    km!("ed02", Algorithm::ED25519),
    km!("ed03", Algorithm::ED25519),
    km!("ed04", Algorithm::ED25519),
    km!("ed05", Algorithm::ED25519),
    km!("ed06", Algorithm::ED25519),
    km!("ed07", Algorithm::ED25519),
    km!("ed08", Algorithm::ED25519),
    km!("ed09", Algorithm::ED25519),
    km!("ed10", Algorithm::ED25519),
    km!("ed11", Algorithm::ED25519),
    km!("ed12", Algorithm::ED25519),
    km!("ed13", Algorithm::ED25519),
    km!("ed14", Algorithm::ED25519),
    km!("ed15", Algorithm::ED25519),
];
/// ECDSA P-256 keys.
pub const P256: [KeyMat; 2] = [km!("p256_0", Algorithm::ECDSAP256SHA256), km!("p256_1", Algorithm::ECDSAP256SHA256)];
/// ECDSA P-384 keys.
pub const P384: [KeyMat; 2] = [km!("p384_0", Algorithm::ECDSAP384SHA384), km!("p384_1", Algorithm::ECDSAP384SHA384)];
/// The RSA-2048 key of the repository's integration tests (used as RSASHA256).
pub const RSA: [KeyMat; 1] = [km!("rsa2048", Algorithm::RSASHA256)];
/// The same RSA key used as RSASHA512.
pub const RSA512: [KeyMat; 1] = [km!("rsa2048", Algorithm::RSASHA512)];
/// Three Ed25519 keys whose DNSKEY RDATA with flags 256 has the same key tag.
pub const TAG: [KeyMat; 3] = [km!("tag0", Algorithm::ED25519), km!("tag1", Algorithm::ED25519), km!("tag2", Algorithm::ED25519)];

pub fn by_id(id: &str) -> Option<KeyMat> {
    ED.iter().chain(P256.iter()).chain(P384.iter()).chain(RSA.iter()).chain(TAG.iter()).find(|k| k.id == id).copied()
}

impl KeyMat {
    pub fn signing_key(&self) -> Box<dyn SigningKey> {
        let der = PrivatePkcs8KeyDer::from(self.pkcs8);
        match self.alg {
            Algorithm::ED25519 => Box::new(Ed25519SigningKey::from_pkcs8(&der).expect("ed25519 key")),
            Algorithm::ECDSAP256SHA256 | Algorithm::ECDSAP384SHA384 => {
                Box::new(EcdsaSigningKey::from_pkcs8(&der, self.alg).expect("ecdsa key"))
            }
            Algorithm::RSASHA256 | Algorithm::RSASHA512 => Box::new(RsaSigningKey::from_pkcs8(&der, self.alg).expect("rsa key")),
            a => panic!("unsupported fixed key algorithm {a:?}"),
        }
    }
    pub fn public(&self) -> PublicKeyBuf {
        self.shared().to_public_key().expect("public key")
    }
    /// The parsed signing key, cached per key file (parsing PKCS#8, RSA in particular, is slow).
    pub fn shared(&self) -> std::sync::Arc<Box<dyn SigningKey>> {
        use std::collections::HashMap;
        use std::sync::{Arc, Mutex, OnceLock};
        static CACHE: OnceLock<Mutex<HashMap<(&'static str, u8), Arc<Box<dyn SigningKey>>>>> = OnceLock::new();
        let c = CACHE.get_or_init(|| Mutex::new(HashMap::new()));
        let mut g = c.lock().unwrap();
        g.entry((self.id, u8::from(self.alg))).or_insert_with(|| Arc::new(self.signing_key())).clone()
    }
}

/// A key in its role: owner zone and DNSKEY flags.
#[derive(Clone, Debug)]
pub struct ZoneKey {
    pub mat: KeyMat,
    pub zone: Name,
    pub flags: u16,
    pub public: PublicKeyBuf,
}

pub const F_ZSK: u16 = 0x0100;
pub const F_KSK: u16 = 0x0101;
pub const F_REVOKED: u16 = 0x0181;
pub const F_NOZONE: u16 = 0x0001;

impl ZoneKey {
    pub fn new(mat: KeyMat, zone: &Name, flags: u16) -> Self {
        ZoneKey { mat, zone: zone.clone(), flags, public: mat.public() }
    }
    pub fn dnskey(&self) -> DNSKEY {
        DNSKEY::with_flags(self.flags, self.public.clone())
    }
    pub fn tag(&self) -> u16 {
        self.dnskey().calculate_key_tag().expect("key tag")
    }
}
