//! vsec: shared DNSSEC glue of the C06 / C07 checks — fixed keys, signing helpers with full
//! control over the RRSIG fields, scripted upstream `DnsHandle`s, the simulated hierarchy.
pub mod keys;
pub mod sign;
pub mod upstream;
pub mod hier;

use hickory_proto::rr::Name;
use std::str::FromStr;

pub fn n(s: &str) -> Name {
    Name::from_str(s).unwrap()
}
