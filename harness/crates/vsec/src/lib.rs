//! vsec: shared DNSSEC glue of the C06 / C07 checks.
