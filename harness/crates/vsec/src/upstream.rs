//! A scripted upstream `DnsHandle`: (qname, qtype) -> raw response bytes. The bytes go through
//! hickory's real decoder (`DnsResponse::from_buffer`); undecodable bytes become a `NetError`.

use std::collections::HashMap;
use std::pin::Pin;
use std::sync::{Arc, Mutex};

use futures_util::stream::{self, Stream};
use hickory_net::xfer::DnsHandle;
use hickory_net::NetError;
use hickory_proto::op::{DnsRequest, DnsResponse, Message, MessageType, OpCode, Query};
use hickory_proto::rr::{Name, RecordType};
use vsim::SimProvider;

pub type Key = (String, u16);

pub fn key_of(name: &Name, t: RecordType) -> Key {
    (name.to_lowercase().to_ascii(), u16::from(t))
}

#[derive(Default)]
pub struct TableInner {
    pub table: HashMap<Key, Vec<u8>>,
    pub log: Vec<Key>,
}

/// Table-driven upstream. Clones share the table and the log.
#[derive(Clone, Default)]
pub struct TableUpstream {
    pub inner: Arc<Mutex<TableInner>>,
}

impl TableUpstream {
    pub fn new() -> Self {
        Self::default()
    }
    pub fn set(&self, name: &Name, t: RecordType, bytes: Vec<u8>) {
        self.inner.lock().unwrap().table.insert(key_of(name, t), bytes);
    }
    pub fn set_key(&self, k: Key, bytes: Vec<u8>) {
        self.inner.lock().unwrap().table.insert(k, bytes);
    }
    pub fn take_log(&self) -> Vec<Key> {
        std::mem::take(&mut self.inner.lock().unwrap().log)
    }
}

/// An empty NOERROR response echoing the question (what the mini-world answers for anything that
/// is not scripted).
pub fn empty_response(q: &Query) -> Vec<u8> {
    let mut m = Message::new(0, MessageType::Response, OpCode::Query);
    m.metadata.recursion_desired = true;
    m.metadata.recursion_available = true;
    m.add_query(q.clone());
    m.to_vec().unwrap()
}

pub fn respond_bytes(mut bytes: Vec<u8>, id: u16) -> Result<DnsResponse, NetError> {
    if bytes.len() >= 2 {
        bytes[0..2].copy_from_slice(&id.to_be_bytes());
    }
    DnsResponse::from_buffer(bytes).map_err(NetError::from)
}

impl DnsHandle for TableUpstream {
    type Response = Pin<Box<dyn Stream<Item = Result<DnsResponse, NetError>> + Send>>;
    type Runtime = SimProvider;

    fn send(&self, request: DnsRequest) -> Self::Response {
        let Some(q) = request.queries.first().cloned() else {
            return Box::pin(stream::once(async { Err(NetError::from("no query")) }));
        };
        let k = key_of(&q.name, q.query_type);
        let bytes = {
            let mut g = self.inner.lock().unwrap();
            g.log.push(k.clone());
            g.table.get(&k).cloned()
        };
        let bytes = bytes.unwrap_or_else(|| empty_response(&q));
        let id = request.id;
        Box::pin(stream::once(async move { respond_bytes(bytes, id) }))
    }
}
