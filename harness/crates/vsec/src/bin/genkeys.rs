//! One-off generator of the fixed key files under /verif/keys (run once; files are committed).
//! Refuses to overwrite existing files.
use hickory_proto::dnssec::crypto::{EcdsaSigningKey, Ed25519SigningKey};
use hickory_proto::dnssec::rdata::DNSKEY;
use hickory_proto::dnssec::{Algorithm, SigningKey};
use std::collections::HashMap;
use std::path::Path;

fn write(dir: &Path, name: &str, bytes: &[u8]) {
    let p = dir.join(name);
    if p.exists() {
        eprintln!("keep existing {p:?}");
        return;
    }
    std::fs::write(&p, bytes).unwrap();
    eprintln!("wrote {p:?}");
}

fn main() {
    let dir = std::env::args().nth(1).unwrap_or_else(|| "/verif/keys".into());
    let dir = Path::new(&dir);
    std::fs::create_dir_all(dir).unwrap();
    for i in 0..16 {
        let k = Ed25519SigningKey::generate_pkcs8().unwrap();
        write(dir, &format!("ed{i:02}.pk8"), k.secret_pkcs8_der());
    }
    for i in 0..2 {
        let k = EcdsaSigningKey::generate_pkcs8(Algorithm::ECDSAP256SHA256).unwrap();
        write(dir, &format!("p256_{i}.pk8"), k.secret_pkcs8_der());
    }
    for i in 0..2 {
        let k = EcdsaSigningKey::generate_pkcs8(Algorithm::ECDSAP384SHA384).unwrap();
        write(dir, &format!("p384_{i}.pk8"), k.secret_pkcs8_der());
    }
    let rsa = std::fs::read("/repo/tests/integration-tests/tests/rsa-2048.pk8").unwrap();
    write(dir, "rsa2048.pk8", &rsa);
    // three Ed25519 keys whose DNSKEY (flags 256) key tags are identical
    if !dir.join("tag0.pk8").exists() {
        let mut by_tag: HashMap<u16, Vec<Vec<u8>>> = HashMap::new();
        let mut n = 0u32;
        loop {
            n += 1;
            let k = Ed25519SigningKey::generate_pkcs8().unwrap();
            let sk = Ed25519SigningKey::from_pkcs8(&k).unwrap();
            let tag = DNSKEY::with_flags(256, sk.to_public_key().unwrap()).calculate_key_tag().unwrap();
            let e = by_tag.entry(tag).or_default();
            e.push(k.secret_pkcs8_der().to_vec());
            if e.len() == 3 {
                eprintln!("tag {tag} reached 3 keys after {n} keys");
                for (i, b) in e.iter().enumerate() {
                    write(dir, &format!("tag{i}.pk8"), b);
                }
                break;
            }
        }
    }
}
