//! Signing helpers with full control over every RRSIG field.

use hickory_proto::dnssec::rdata::{DNSSECRData, SigInput, DNSKEY, RRSIG};
use hickory_proto::dnssec::{Algorithm, SigningKey, TBS};
use hickory_proto::op::{Message, MessageType, OpCode, Query};
use hickory_proto::rr::{DNSClass, Name, RData, Record, RecordType, SerialNumber};

use crate::keys::ZoneKey;
use vref::sigref;

/// Everything that goes into the RRSIG RDATA; `None` = "what an honest signer would put".
#[derive(Clone, Debug, Default)]
pub struct SigSpec {
    pub inception: u32,
    pub expiration: u32,
    pub signer: Option<Name>,
    pub labels: Option<u8>,
    pub original_ttl: Option<u32>,
    pub key_tag: Option<u16>,
    pub type_covered: Option<RecordType>,
    pub algorithm: Option<Algorithm>,
    /// TTL of the RRSIG record itself (default: TTL of the first record)
    pub rrsig_ttl: Option<u32>,
    /// owner of the RRSIG record (default: owner of the first record)
    pub rrsig_owner: Option<Name>,
    /// sign the reference signed data (RFC text) instead of hickory's TBS; needed for RRSIGs that
    /// hickory's own signer refuses to build (Labels above the owner's label count)
    pub reference_tbs: bool,
}

impl SigSpec {
    pub fn window(inception: u32, expiration: u32) -> Self {
        SigSpec { inception, expiration, ..Default::default() }
    }
}

fn input_for(records: &[Record], key: &ZoneKey, spec: &SigSpec) -> SigInput {
    let first = &records[0];
    SigInput {
        type_covered: spec.type_covered.unwrap_or(first.record_type()),
        algorithm: spec.algorithm.unwrap_or(key.mat.alg),
        num_labels: spec.labels.unwrap_or(first.name.num_labels()),
        original_ttl: spec.original_ttl.unwrap_or(first.ttl),
        sig_expiration: SerialNumber::new(spec.expiration),
        sig_inception: SerialNumber::new(spec.inception),
        key_tag: spec.key_tag.unwrap_or_else(|| key.tag()),
        signer_name: spec.signer.clone().unwrap_or_else(|| key.zone.clone()),
    }
}

/// Make the RRSIG record for `records` (one RRset) with `key`.
pub fn sign_rrset(records: &[Record], key: &ZoneKey, sk: &dyn SigningKey, spec: &SigSpec) -> Record {
    assert!(!records.is_empty());
    let first = &records[0];
    let input = input_for(records, key, spec);
    let sig = if spec.reference_tbs {
        let data = reference_signed_data(records, &input).expect("reference signed data");
        sk.sign(&TBS::from(&data[..])).expect("sign")
    } else {
        let tbs = TBS::from_input(&first.name, DNSClass::IN, &input, records.iter()).expect("tbs");
        sk.sign(&tbs).expect("sign")
    };
    let mut r = Record::from_rdata(
        spec.rrsig_owner.clone().unwrap_or_else(|| first.name.clone()),
        spec.rrsig_ttl.unwrap_or(first.ttl),
        RData::DNSSEC(DNSSECRData::RRSIG(RRSIG::from_sig(input, sig))),
    );
    r.dns_class = DNSClass::IN;
    r
}

/// The reference signed data (vref::sigref) for hickory records + a SigInput (used only to *make*
/// signatures hickory's signer cannot make; the oracle never goes through this function).
pub fn reference_signed_data(records: &[Record], input: &SigInput) -> Option<Vec<u8>> {
    // serialise the records and the RRSIG-without-signature through a message and read them back
    // with the independent walker
    let mut m = Message::new(0, MessageType::Response, OpCode::Query);
    m.add_query(Query::new(records[0].name.clone(), records[0].record_type()));
    for r in records {
        m.add_answer(r.clone());
    }
    m.add_answer(Record::from_rdata(
        records[0].name.clone(),
        0,
        RData::DNSSEC(DNSSECRData::RRSIG(RRSIG::from_sig(input.clone(), vec![]))),
    ));
    let bytes = m.to_vec().ok()?;
    let w = vref::wire::walk(&bytes).ok()?;
    let rrs: Vec<sigref::Rr> = w.answers.iter().map(|r| sigref::expand(&bytes, r)).collect();
    let (sig_rr, data) = rrs.split_last()?;
    let sig = sigref::parse_rrsig(&sig_rr.rdata)?;
    let canon: Vec<Vec<u8>> = data.iter().map(|r| sigref::canonical_rdata(r.rtype, &r.rdata)).collect::<Option<_>>()?;
    sigref::signed_data(&sig, &data[0].owner, data[0].class, data[0].rtype, &canon, true)
}

pub fn dnskey_record(zone: &Name, ttl: u32, dnskey: DNSKEY) -> Record {
    Record::from_rdata(zone.clone(), ttl, RData::DNSSEC(DNSSECRData::DNSKEY(dnskey)))
}

/// A response message (QR=1, RD/RA set, NOERROR) for `q` with the given sections.
pub fn response(q: &Query, answers: Vec<Record>, authorities: Vec<Record>) -> Message {
    let mut m = Message::new(0, MessageType::Response, OpCode::Query);
    m.metadata.recursion_desired = true;
    m.metadata.recursion_available = true;
    m.add_query(q.clone());
    for r in answers {
        m.add_answer(r);
    }
    for r in authorities {
        m.add_authority(r);
    }
    m
}
