//! C17 — TCP stream framing is independent of how the bytes are chunked.
//!
//! E-STATE on the REAL state machine `hickory_net::tcp::TcpStream` (built with `from_stream`
//! over a scripted socket `SimTcp: DnsTcpStream`, driven through its `BufDnsStreamHandle`),
//! polled by hand with a no-op waker — no runtime. A node is the list of answers given so far at
//! the decision points of a run:
//!
//! * driver point (between two `poll_next` calls): poll | hand the next message to the handle |
//!   drop the handle;
//! * `poll_read(buf)`: Pending | n bytes for EVERY n in 1..=min(buf.len(), remaining) | EOF (at
//!   every byte position) | I/O error;
//! * `poll_write[_vectored]`: Pending | accept EVERY n in 1..=offered | I/O error
//!   (`Ok(0)` is outside the alphabet);
//! * `poll_flush`: Ok | Pending | I/O error.
//!
//! Every node is re-executed from scratch on a fresh machine (the object is not clonable).
//! State matching on (decision point incl. buffer size, bytes consumed, bytes accepted, flushed,
//! messages handed over, handle alive, messages yielded, errors used, pending/error flag,
//! terminal). The matching argument is validated by a matching-free enumeration of ALL answer
//! sequences of every short stream, which must reach exactly the BFS's key set with the same
//! verdicts, and by a run-to-completion check from every state.
//!
//! Oracle (`vref::frame`, RFC 1035 4.2.2 + the statement): items yielded are exactly the framed
//! messages, whole, in order (nothing truncated, merged, duplicated, invented or withheld);
//! EOF at a frame boundary ends the stream cleanly, EOF inside a length prefix or a body yields an
//! error; the bytes accepted by the socket are at all times a prefix of
//! len16(m1) m1 len16(m2) m2 ...; from every state a fair continuation delivers everything
//! (all messages yielded, all bytes accepted and flushed). Wake-ups: the task's waker records
//! wake-ups; the socket wakes the waker it was handed when it answered Pending once that side is
//! ready, the handle's channel wakes on send. Whenever the machine returns Pending while progress is
//! possible (handed-over bytes not yet accepted / flushed, inbound bytes not yet delivered) and no
//! wake-up is pending, that is `lost-wakeup:<handle|write|flush|read>` (a self-wake or a spurious
//! wake-up is always fine). Run-to-completion is wake-driven: the machine is polled only after an
//! item or after a wake-up.

use std::collections::HashSet;
use std::io;
use std::net::SocketAddr;
use std::pin::Pin;
use std::sync::atomic::{AtomicUsize, Ordering};
use std::sync::{Arc, Mutex};
use std::task::{Context, Poll, Wake, Waker};
use std::time::Duration;

use futures_io::{AsyncRead, AsyncWrite, IoSlice};
use futures_util::stream::Stream;
use hickory_net::runtime::iocompat::{AsyncIoStdAsTokio, AsyncIoTokioAsStd};
use hickory_net::runtime::{DnsTcpStream, TokioTime};
use hickory_net::tcp::{TcpClientStream, TcpStream};
use hickory_net::{BufDnsStreamHandle, DnsStreamHandle};
use hickory_proto::op::SerialMessage;
use hickory_server::server::TimeoutStream;
use serde_json::{json, Value};
use vcore::{bfs, catch, Ctx, Local};
use vref::frame::{self, AtEof, Pos};

fn peer() -> SocketAddr {
    "192.0.2.53:53".parse().unwrap()
}

fn foreign_addr() -> SocketAddr {
    "198.51.100.7:53".parse().unwrap()
}

/// Message k of a sequence, `len` bytes, every byte depends on (k, position).
fn message(k: usize, len: usize) -> Vec<u8> {
    (0..len).map(|i| ((k * 89 + i * 7 + 13) % 251) as u8).collect()
}

/// Message content knob: the position pattern above, all 0x00 (every byte pair looks like a zero
/// length prefix) or all 0xff (every byte pair looks like the maximal length prefix).
#[derive(Clone, Copy, Debug, PartialEq, Eq)]
enum Fill {
    Pattern,
    Zeros,
    Ones,
}

fn message_filled(k: usize, len: usize, fill: Fill) -> Vec<u8> {
    match fill {
        Fill::Pattern => message(k, len),
        Fill::Zeros => vec![0u8; len],
        Fill::Ones => vec![0xffu8; len],
    }
}

fn inbound_filled(lens: &[usize], fill: Fill) -> Vec<u8> {
    let msgs: Vec<Vec<u8>> = lens.iter().enumerate().map(|(k, l)| message_filled(k, *l, fill)).collect();
    frame::frame(&msgs)
}

// ------------------------------------------------------------------------------------------
// answers and decision points

#[derive(Clone, Copy, Debug, PartialEq, Eq, Hash)]
enum Choice {
    // driver point
    Poll,
    Enqueue,
    DropHandle,
    /// hand over a message through a handle whose remote address is NOT the peer of this stream
    EnqueueForeign,
    /// advance the virtual clock by k x 100 s (TimeoutStream wrapper, timeout 360 s)
    Tick(u8),
    // socket call
    Pending,
    N(u32),
    Done, // flush Ok
    Eof,
    IoErr,
}

fn choice_json(c: &Choice) -> Value {
    match c {
        Choice::Poll => json!("poll"),
        Choice::Enqueue => json!("enqueue"),
        Choice::DropHandle => json!("drop-handle"),
        Choice::EnqueueForeign => json!("enqueue-foreign"),
        Choice::Tick(k) => json!(format!("tick-{k}")),
        Choice::Pending => json!("pending"),
        Choice::N(n) => json!(n),
        Choice::Done => json!("flush-ok"),
        Choice::Eof => json!("eof"),
        Choice::IoErr => json!("io-error"),
    }
}

fn choice_from_json(v: &Value) -> Choice {
    if let Some(n) = v.as_u64() {
        return Choice::N(n as u32);
    }
    match v.as_str().unwrap_or("") {
        "poll" => Choice::Poll,
        "enqueue" => Choice::Enqueue,
        "drop-handle" => Choice::DropHandle,
        "enqueue-foreign" => Choice::EnqueueForeign,
        t if t.starts_with("tick-") => Choice::Tick(t[5..].parse().unwrap_or(2)),
        "pending" => Choice::Pending,
        "flush-ok" => Choice::Done,
        "eof" => Choice::Eof,
        "io-error" => Choice::IoErr,
        other => vcore::machinery_exit(&format!("bad choice {other:?} in replay")),
    }
}

#[derive(Clone, Copy, Debug, PartialEq, Eq, Hash)]
enum Point {
    Driver,
    Read { buf: u32 },
    Write { offered: u32, vectored: bool },
    Flush,
    Terminal,
}

const F_READ_PENDING: u16 = 1;
const F_WRITE_PENDING: u16 = 2;
const F_FLUSH_PENDING: u16 = 4;
const F_READ_ERR: u16 = 8;
const F_WRITE_ERR: u16 = 16;
const F_FLUSH_ERR: u16 = 32;
const F_EOF: u16 = 64;
const F_ZERO_BUF_READ: u16 = 128;
const F_IDLE: u16 = 256;

struct Shared {
    script: Vec<Choice>,
    pos: usize,
    /// run-to-completion mode: when the script is used up, answer with the fair default
    /// (deliver / accept up to `chunk` bytes, flush Ok, Pending once the inbound stream is used up)
    auto_chunk: Option<usize>,
    inbound: Arc<Vec<u8>>,
    consumed: usize,
    accepted: Vec<u8>,
    /// accepted.len() at the last successful flush
    flushed_at: Option<usize>,
    /// a write was started at a message boundary that had not been flushed (observation only)
    unflushed_boundary_writes: u32,
    out_boundaries: Arc<Vec<usize>>,
    frozen: Option<Point>,
    eof_answered: bool,
    flags: u16,
    errors_used: u8,
    /// 0 = the last answer made progress; 1/2 = Pending / I/O error at a read; 3/4 at a write; 5/6 at a flush
    nonprogress: u8,
    bad_script: Option<String>,
    /// the waker handed to the last call that was answered Pending, per side; cleared by any
    /// other answer on that side, taken and woken when the environment makes the side ready
    read_waker: Option<Waker>,
    write_waker: Option<Waker>,
    flush_waker: Option<Waker>,
    /// kind of the scripted I/O errors (instance knob)
    err_kind: u8,
    /// observation probe only: answer this many writes with Ok(0) before anything else
    zero_write_budget: u32,
}

impl Shared {
    fn next(&mut self) -> Option<Choice> {
        if self.pos < self.script.len() {
            self.pos += 1;
            Some(self.script[self.pos - 1])
        } else {
            None
        }
    }
}

struct SimTcp(Arc<Mutex<Shared>>);

impl DnsTcpStream for SimTcp {
    type Time = TokioTime;
}

const ERR_KINDS: [io::ErrorKind; 5] =
    [io::ErrorKind::ConnectionReset, io::ErrorKind::UnexpectedEof, io::ErrorKind::Interrupted, io::ErrorKind::WouldBlock, io::ErrorKind::TimedOut];

fn sim_err(kind: u8) -> io::Error {
    io::Error::new(ERR_KINDS[kind as usize % ERR_KINDS.len()], "scripted I/O error")
}

impl AsyncRead for SimTcp {
    fn poll_read(self: Pin<&mut Self>, cx: &mut Context<'_>, buf: &mut [u8]) -> Poll<io::Result<usize>> {
        self.read(cx, buf)
    }
}

impl SimTcp {
    fn read(&self, cx: &mut Context<'_>, buf: &mut [u8]) -> Poll<io::Result<usize>> {
        let mut s = self.0.lock().unwrap();
        if s.frozen.is_some() {
            return Poll::Pending;
        }
        s.read_waker = None;
        if buf.is_empty() {
            // what every conforming reader does for an empty buffer; no decision involved
            s.flags |= F_ZERO_BUF_READ;
            return Poll::Ready(Ok(0));
        }
        if s.eof_answered {
            s.flags |= F_EOF;
            return Poll::Ready(Ok(0));
        }
        let remaining = s.inbound.len() - s.consumed;
        let max = buf.len().min(remaining);
        let c = match s.next() {
            Some(c) => c,
            None => match s.auto_chunk {
                Some(chunk) if max > 0 => Choice::N(max.min(chunk) as u32),
                Some(_) => {
                    s.flags |= F_IDLE | F_READ_PENDING;
                    s.read_waker = Some(cx.waker().clone());
                    return Poll::Pending;
                }
                None => {
                    s.frozen = Some(Point::Read { buf: buf.len().min(u32::MAX as usize) as u32 });
                    return Poll::Pending;
                }
            },
        };
        match c {
            Choice::Pending => {
                s.flags |= F_READ_PENDING;
                s.nonprogress = 1;
                s.read_waker = Some(cx.waker().clone());
                Poll::Pending
            }
            Choice::N(n) if n >= 1 && (n as usize) <= max => {
                let n = n as usize;
                let from = s.consumed;
                buf[..n].copy_from_slice(&s.inbound[from..from + n]);
                s.consumed += n;
                s.nonprogress = 0;
                Poll::Ready(Ok(n))
            }
            Choice::Eof => {
                s.eof_answered = true;
                s.flags |= F_EOF;
                Poll::Ready(Ok(0))
            }
            Choice::IoErr => {
                s.errors_used += 1;
                s.flags |= F_READ_ERR;
                s.nonprogress = 2;
                Poll::Ready(Err(sim_err(s.err_kind)))
            }
            other => {
                s.bad_script = Some(format!("answer {other:?} at poll_read(buf {}, remaining {remaining})", buf.len()));
                s.frozen = Some(Point::Terminal);
                Poll::Pending
            }
        }
    }
}

impl SimTcp {
    fn write(&self, cx: &mut Context<'_>, bufs: &[&[u8]], vectored: bool) -> Poll<io::Result<usize>> {
        let mut s = self.0.lock().unwrap();
        if s.frozen.is_some() {
            return Poll::Pending;
        }
        s.write_waker = None;
        let offered: usize = bufs.iter().map(|b| b.len()).sum();
        if offered == 0 {
            // nothing offered: Ok(0) is the only possible answer, no decision
            return Poll::Ready(Ok(0));
        }
        if s.zero_write_budget > 0 {
            s.zero_write_budget -= 1;
            return Poll::Ready(Ok(0));
        }
        let c = match s.next() {
            Some(c) => c,
            None => match s.auto_chunk {
                Some(chunk) => Choice::N(offered.min(chunk) as u32),
                None => {
                    s.frozen = Some(Point::Write { offered: offered as u32, vectored });
                    return Poll::Pending;
                }
            },
        };
        match c {
            Choice::Pending => {
                s.flags |= F_WRITE_PENDING;
                s.nonprogress = 3;
                s.write_waker = Some(cx.waker().clone());
                Poll::Pending
            }
            Choice::N(n) if n >= 1 && (n as usize) <= offered => {
                let at = s.accepted.len();
                if at > 0 && s.out_boundaries.contains(&at) && s.flushed_at != Some(at) {
                    s.unflushed_boundary_writes += 1;
                }
                let mut left = n as usize;
                for b in bufs {
                    let k = left.min(b.len());
                    s.accepted.extend_from_slice(&b[..k]);
                    left -= k;
                    if left == 0 {
                        break;
                    }
                }
                s.nonprogress = 0;
                Poll::Ready(Ok(n as usize))
            }
            Choice::IoErr => {
                s.errors_used += 1;
                s.flags |= F_WRITE_ERR;
                s.nonprogress = 4;
                Poll::Ready(Err(sim_err(s.err_kind)))
            }
            other => {
                s.bad_script = Some(format!("answer {other:?} at poll_write(offered {offered})"));
                s.frozen = Some(Point::Terminal);
                Poll::Pending
            }
        }
    }
}

impl AsyncWrite for SimTcp {
    fn poll_write(self: Pin<&mut Self>, cx: &mut Context<'_>, buf: &[u8]) -> Poll<io::Result<usize>> {
        self.write(cx, &[buf], false)
    }
    fn poll_write_vectored(self: Pin<&mut Self>, cx: &mut Context<'_>, bufs: &[IoSlice<'_>]) -> Poll<io::Result<usize>> {
        let v: Vec<&[u8]> = bufs.iter().map(|b| &b[..]).collect();
        self.write(cx, &v, true)
    }
    fn poll_flush(self: Pin<&mut Self>, cx: &mut Context<'_>) -> Poll<io::Result<()>> {
        self.flush(cx)
    }
    fn poll_close(self: Pin<&mut Self>, _cx: &mut Context<'_>) -> Poll<io::Result<()>> {
        Poll::Ready(Ok(()))
    }
}

impl SimTcp {
    fn flush(&self, cx: &mut Context<'_>) -> Poll<io::Result<()>> {
        let mut s = self.0.lock().unwrap();
        if s.frozen.is_some() {
            return Poll::Pending;
        }
        s.flush_waker = None;
        let c = match s.next() {
            Some(c) => c,
            None => match s.auto_chunk {
                Some(_) => Choice::Done,
                None => {
                    s.frozen = Some(Point::Flush);
                    return Poll::Pending;
                }
            },
        };
        match c {
            Choice::Done => {
                s.flushed_at = Some(s.accepted.len());
                s.nonprogress = 0;
                Poll::Ready(Ok(()))
            }
            Choice::Pending => {
                s.flags |= F_FLUSH_PENDING;
                s.nonprogress = 5;
                s.flush_waker = Some(cx.waker().clone());
                Poll::Pending
            }
            Choice::IoErr => {
                s.errors_used += 1;
                s.flags |= F_FLUSH_ERR;
                s.nonprogress = 6;
                Poll::Ready(Err(sim_err(s.err_kind)))
            }
            other => {
                s.bad_script = Some(format!("answer {other:?} at poll_flush"));
                s.frozen = Some(Point::Terminal);
                Poll::Pending
            }
        }
    }
}

/// The same scripted socket seen through tokio's I/O traits (what a real `tokio::net::TcpStream` or a
/// TLS stream looks like); hickory reaches it through its `AsyncIoTokioAsStd` adaptor.
struct SimTokio(SimTcp);

impl tokio::io::AsyncRead for SimTokio {
    fn poll_read(self: Pin<&mut Self>, cx: &mut Context<'_>, buf: &mut tokio::io::ReadBuf<'_>) -> Poll<io::Result<()>> {
        let slice = buf.initialize_unfilled();
        match self.0.read(cx, slice) {
            Poll::Ready(Ok(n)) => {
                buf.advance(n);
                Poll::Ready(Ok(()))
            }
            Poll::Ready(Err(e)) => Poll::Ready(Err(e)),
            Poll::Pending => Poll::Pending,
        }
    }
}

impl tokio::io::AsyncWrite for SimTokio {
    fn poll_write(self: Pin<&mut Self>, cx: &mut Context<'_>, buf: &[u8]) -> Poll<io::Result<usize>> {
        self.0.write(cx, &[buf], false)
    }
    fn poll_write_vectored(self: Pin<&mut Self>, cx: &mut Context<'_>, bufs: &[io::IoSlice<'_>]) -> Poll<io::Result<usize>> {
        let v: Vec<&[u8]> = bufs.iter().map(|b| &b[..]).collect();
        self.0.write(cx, &v, true)
    }
    fn is_write_vectored(&self) -> bool {
        true
    }
    fn poll_flush(self: Pin<&mut Self>, cx: &mut Context<'_>) -> Poll<io::Result<()>> {
        self.0.flush(cx)
    }
    fn poll_shutdown(self: Pin<&mut Self>, _cx: &mut Context<'_>) -> Poll<io::Result<()>> {
        Poll::Ready(Ok(()))
    }
}

// ------------------------------------------------------------------------------------------
// the machines under test

#[derive(Clone, Copy, Debug, PartialEq, Eq)]
enum Wrapper {
    Plain,
    Client,
    Timeout,
    /// `TcpStream<AsyncIoTokioAsStd<tokio-style socket>>`: vectored writes are forwarded
    CompatTokio,
    /// `TcpStream<AsyncIoTokioAsStd<AsyncIoStdAsTokio<SimTcp>>>`: both adaptors; the inner one does not
    /// forward vectored writes, so the length prefix is always offered alone (like a TLS stream)
    CompatChain,
    /// the composition of the server's TCP loop: `TimeoutStream<TcpStream<AsyncIoTokioAsStd<socket>>>`
    ServerStack,
}

type TokioSock = AsyncIoTokioAsStd<SimTokio>;
type ChainSock = AsyncIoTokioAsStd<AsyncIoStdAsTokio<SimTcp>>;

enum Machine {
    Plain(TcpStream<SimTcp>),
    Client(TcpClientStream<SimTcp>),
    Timeout(TimeoutStream<TcpStream<SimTcp>>),
    CompatTokio(TcpStream<TokioSock>),
    CompatChain(TcpStream<ChainSock>),
    ServerStack(TimeoutStream<TcpStream<TokioSock>>),
}

/// How the `TcpStream` is constructed (knob: outbound queue depth, connect future).
#[derive(Clone, Copy, Debug, PartialEq, Eq)]
enum Ctor {
    FromStream,
    BufferSize(usize),
    WithFuture,
}

fn construct<S: DnsTcpStream>(sock: S, ctor: Ctor) -> (TcpStream<S>, BufDnsStreamHandle) {
    match ctor {
        Ctor::FromStream => TcpStream::from_stream(sock, peer()),
        Ctor::BufferSize(n) => TcpStream::from_stream_with_buffer_size(sock, peer(), n),
        Ctor::WithFuture => {
            let (fut, handle) = TcpStream::with_future(async move { Ok(sock) }, peer(), Duration::from_secs(5));
            let stream = RT.with(|rt| rt.block_on(fut)).expect("HARNESS: with_future over a ready future failed");
            (stream, handle)
        }
    }
}

type Item = Option<Result<Vec<u8>, String>>;

impl Machine {
    fn poll(&mut self, cx: &mut Context<'_>) -> Poll<Item> {
        fn conv<E: std::fmt::Display>(r: Option<Result<SerialMessage, E>>, bad_addr: &mut bool) -> Item {
            r.map(|x| match x {
                Ok(m) => {
                    if m.addr() != peer() {
                        *bad_addr = true;
                    }
                    Ok(m.into_parts().0)
                }
                Err(e) => Err(e.to_string()),
            })
        }
        let mut bad = false;
        let r = match self {
            Machine::Plain(s) => Pin::new(s).poll_next(cx).map(|r| conv(r, &mut bad)),
            Machine::Client(s) => Pin::new(s).poll_next(cx).map(|r| conv(r, &mut bad)),
            Machine::Timeout(s) => Pin::new(s).poll_next(cx).map(|r| conv(r, &mut bad)),
            Machine::CompatTokio(s) => Pin::new(s).poll_next(cx).map(|r| conv(r, &mut bad)),
            Machine::CompatChain(s) => Pin::new(s).poll_next(cx).map(|r| conv(r, &mut bad)),
            Machine::ServerStack(s) => Pin::new(s).poll_next(cx).map(|r| conv(r, &mut bad)),
        };
        if bad {
            return Poll::Ready(Some(Err("HARNESS: message with a foreign source address".into())));
        }
        r
    }
}

thread_local! {
    /// `TimeoutStream` creates tokio `Sleep`s: they need a runtime context with a (paused) clock.
    /// The runtime is only driven by the `Tick` driver op (`tokio::time::advance`), so virtual time
    /// moves exactly when the script says so.
    static RT: tokio::runtime::Runtime = tokio::runtime::Builder::new_current_thread().enable_time().start_paused(true).build().unwrap();
}

// ------------------------------------------------------------------------------------------
// instances

struct Inst {
    label: String,
    wrapper: Wrapper,
    inbound: Arc<Vec<u8>>,
    /// body ranges of the messages the reference finds in the whole inbound stream
    /// (zero-length frames skipped: after one nothing is demanded, see `zero_at`)
    in_frames: Vec<(usize, usize)>,
    /// offset of the first zero-length frame, if any
    zero_at: Option<usize>,
    out_msgs: Vec<Vec<u8>>,
    out_image: Vec<u8>,
    out_boundaries: Arc<Vec<usize>>,
    max_errors: u8,
    allow_drop: bool,
    /// wake-driven family: the driver may poll only after an item, or when the task was woken
    wake_driven: bool,
    /// how many foreign-addressed messages the driver may hand over
    foreign: u8,
    /// how many clock ticks the driver may insert (TimeoutStream wrappers only)
    max_ticks: u8,
    /// knobs
    ctor: Ctor,
    timeout_secs: u32,
    err_kind: u8,
    fill: Fill,
}

impl Inst {
    fn new(label: String, wrapper: Wrapper, inbound: Vec<u8>, out_lens: &[usize], max_errors: u8, allow_drop: bool) -> Inst {
        // reference parse, skipping zero-length frames
        let mut in_frames = vec![];
        let mut zero_at = None;
        let mut base = 0usize;
        loop {
            let (fr, pos) = frame::frames(&inbound[base..]);
            in_frames.extend(fr.iter().map(|(s, n)| (base + s, *n)));
            match pos {
                Pos::ZeroFrame { at } => {
                    if zero_at.is_none() {
                        zero_at = Some(base + at);
                    }
                    base += at + 2;
                }
                _ => break,
            }
        }
        let out_msgs: Vec<Vec<u8>> = out_lens.iter().enumerate().map(|(k, l)| message(100 + k, *l)).collect();
        let out_image = frame::frame(&out_msgs);
        let mut b = vec![];
        let mut p = 0;
        for m in &out_msgs {
            p += 2 + m.len();
            b.push(p);
        }
        Inst { label, wrapper, inbound: Arc::new(inbound), in_frames, zero_at, out_msgs, out_image, out_boundaries: Arc::new(b), max_errors, allow_drop, wake_driven: false, foreign: 0, max_ticks: 0, ctor: Ctor::FromStream, timeout_secs: 360, err_kind: 0, fill: Fill::Pattern }
    }
    fn to_json(&self) -> Value {
        json!({
            "label": self.label,
            "wrapper": format!("{:?}", self.wrapper),
            "inbound_hex": vcore::hex::enc(&self.inbound),
            "out_lens": self.out_msgs.iter().map(|m| m.len()).collect::<Vec<_>>(),
            "max_errors": self.max_errors,
            "allow_drop": self.allow_drop,
            "wake_driven": self.wake_driven,
            "foreign": self.foreign,
            "max_ticks": self.max_ticks,
            "ctor": match self.ctor { Ctor::FromStream => json!("from_stream"), Ctor::BufferSize(n) => json!(n), Ctor::WithFuture => json!("with_future") },
            "timeout_secs": self.timeout_secs,
            "err_kind": self.err_kind,
            "fill": format!("{:?}", self.fill),
        })
    }
    fn from_json(v: &Value) -> Inst {
        let wrapper = match v["wrapper"].as_str().unwrap_or("Plain") {
            "Client" => Wrapper::Client,
            "Timeout" => Wrapper::Timeout,
            "CompatTokio" => Wrapper::CompatTokio,
            "CompatChain" => Wrapper::CompatChain,
            "ServerStack" => Wrapper::ServerStack,
            _ => Wrapper::Plain,
        };
        let fill = match v["fill"].as_str().unwrap_or("Pattern") {
            "Zeros" => Fill::Zeros,
            "Ones" => Fill::Ones,
            _ => Fill::Pattern,
        };
        let ctor = match &v["ctor"] {
            Value::Number(n) => Ctor::BufferSize(n.as_u64().unwrap_or(32) as usize),
            Value::String(x) if x == "with_future" => Ctor::WithFuture,
            _ => Ctor::FromStream,
        };
        let inbound = vcore::hex::dec(v["inbound_hex"].as_str().unwrap_or("")).unwrap_or_default();
        let out_lens: Vec<usize> = v["out_lens"].as_array().map(|a| a.iter().map(|x| x.as_u64().unwrap() as usize).collect()).unwrap_or_default();
        Inst::new(
            v["label"].as_str().unwrap_or("replay").to_string(),
            wrapper,
            inbound,
            &out_lens,
            v["max_errors"].as_u64().unwrap_or(1) as u8,
            v["allow_drop"].as_bool().unwrap_or(false),
        )
        .wake(v["wake_driven"].as_bool().unwrap_or(false))
        .foreign(v["foreign"].as_u64().unwrap_or(0) as u8)
        .ticks(v["max_ticks"].as_u64().unwrap_or(0) as u8)
        .ctor(ctor)
        .idle_timeout(v["timeout_secs"].as_u64().unwrap_or(360) as u32)
        .err_kind(v["err_kind"].as_u64().unwrap_or(0) as u8)
        .fill(fill)
    }
    fn ctor(mut self, c: Ctor) -> Inst {
        self.ctor = c;
        self
    }
    fn idle_timeout(mut self, secs: u32) -> Inst {
        self.timeout_secs = secs;
        self
    }
    fn err_kind(mut self, k: u8) -> Inst {
        self.err_kind = k;
        self
    }
    /// re-create the outbound messages with the given content (the inbound stream is given as bytes)
    fn fill(mut self, f: Fill) -> Inst {
        if f != self.fill {
            let lens: Vec<usize> = self.out_msgs.iter().map(|m| m.len()).collect();
            self.out_msgs = lens.iter().enumerate().map(|(k, l)| message_filled(100 + k, *l, f)).collect();
            self.out_image = frame::frame(&self.out_msgs);
            self.fill = f;
        }
        self
    }
    fn has_timer(&self) -> bool {
        matches!(self.wrapper, Wrapper::Timeout | Wrapper::ServerStack)
    }
    fn needs_rt(&self) -> bool {
        self.has_timer() || self.ctor == Ctor::WithFuture
    }
    fn foreign(mut self, n: u8) -> Inst {
        self.foreign = n;
        self
    }
    fn ticks(mut self, n: u8) -> Inst {
        self.max_ticks = n;
        self
    }
    fn wake(mut self, on: bool) -> Inst {
        self.wake_driven = on;
        self
    }
    /// number of reference messages completely contained in inbound[..consumed]
    fn complete_frames(&self, consumed: usize) -> usize {
        self.in_frames.iter().take_while(|(s, n)| s + n <= consumed).count()
    }
}

fn inbound_of(lens: &[usize]) -> Vec<u8> {
    let msgs: Vec<Vec<u8>> = lens.iter().enumerate().map(|(k, l)| message(k, *l)).collect();
    frame::frame(&msgs)
}

// ------------------------------------------------------------------------------------------
// one execution

#[derive(Clone, Debug, PartialEq, Eq, Hash)]
struct RunOut {
    point: Point,
    consumed: u32,
    accepted: u32,
    flushed_cur: bool,
    enq: u8,
    alive: bool,
    yielded: u8,
    errs: u8,
    nonprogress: u8,
    /// 0 running, 1 ended (None), 2 error at EOF
    terminal: u8,
    violated: bool,
    /// wake-driven family only: the driver may poll now (an item was just returned, or a wake-up is pending)
    can_poll: bool,
    foreign_used: u8,
    foreign_outstanding: u8,
    /// the last driver op was an enqueue refused by a full queue (no second try before a poll)
    last_refused: bool,
    ticks_used: u8,
    /// virtual time since the timeout timer was (re)started, in units of 100 s, capped at 8
    since_restart: u8,
    timer_started: bool,
}

fn classify_yield(got: &[u8], inst: &Inst, idx: usize, complete: usize, prev: Option<&Vec<u8>>) -> Option<(String, String)> {
    let exp = inst.in_frames.get(idx).map(|(s, n)| &inst.inbound[*s..*s + *n]);
    if idx >= complete {
        // nothing complete is outstanding: whatever this is, it was not delivered whole yet
        let class = if prev.map(|p| &p[..] == got).unwrap_or(false) {
            "duplicated"
        } else if exp.map(|e| e.starts_with(got) && got.len() < e.len()).unwrap_or(false) {
            "truncated"
        } else if got.is_empty() {
            "empty-item"
        } else {
            "invented"
        };
        return Some((format!("read:yield:{class}"), format!("item #{idx} ({} bytes) yielded while only {complete} framed messages were delivered completely", got.len())));
    }
    let exp = exp.unwrap();
    if got == exp {
        return None;
    }
    let class = if got.len() < exp.len() && exp.starts_with(got) {
        "truncated"
    } else if got.len() > exp.len() && got.starts_with(exp) {
        "merged"
    } else if prev.map(|p| &p[..] == got).unwrap_or(false) {
        "duplicated"
    } else if inst.in_frames.iter().any(|(s, n)| &inst.inbound[*s..*s + *n] == got) {
        "out-of-order"
    } else if got.len() == exp.len() {
        "corrupted"
    } else {
        "misframed"
    };
    Some((format!("read:yield:{class}"), format!("item #{idx}: got {} bytes, the framed message has {}", got.len(), exp.len())))
}

/// length of the framed image of the first `enq` outbound messages
fn handed_len(inst: &Inst, enq: usize) -> usize {
    if enq == 0 { 0 } else { inst.out_boundaries[enq - 1] }
}

/// The task's waker: counts wake-ups.
struct WakeCount(AtomicUsize);

impl Wake for WakeCount {
    fn wake(self: Arc<Self>) {
        self.0.fetch_add(1, Ordering::SeqCst);
    }
    fn wake_by_ref(self: &Arc<Self>) {
        self.0.fetch_add(1, Ordering::SeqCst);
    }
}

/// Called when the machine has returned Pending (or a message was handed over while it is
/// Pending). The environment makes every side ready on which it answered Pending (wakes the waker
/// stored there; the read side only if it still has something to deliver). Returns whether a
/// wake-up of the task is pending (counted since the start of the last poll; self-wakes and the
/// handle's channel wake count too) and, if none is, the side on which progress is nevertheless
/// possible: the machine would then sleep forever under a real executor.
fn wake_check(shared: &Arc<Mutex<Shared>>, wc: &Arc<WakeCount>, seen: usize, inst: &Inst, enq: usize, auto: bool) -> (bool, Option<&'static str>) {
    let (wakers, remaining, acc, flushed_cur) = {
        let mut s = shared.lock().unwrap();
        let remaining = s.inbound.len() - s.consumed;
        let exhausted = s.pos >= s.script.len();
        let mut w = vec![];
        // more bytes, or (while the script still decides) EOF / an error can be delivered
        if remaining > 0 || !(auto && exhausted) {
            w.extend(s.read_waker.take());
        }
        w.extend(s.write_waker.take());
        w.extend(s.flush_waker.take());
        (w, remaining, s.accepted.len(), s.flushed_at == Some(s.accepted.len()))
    };
    for w in wakers {
        w.wake();
    }
    if wc.0.load(Ordering::SeqCst) != seen {
        return (true, None);
    }
    let handed = handed_len(inst, enq);
    let side = if acc < handed {
        // handed-over data the socket would accept
        Some(if acc == 0 || inst.out_boundaries.contains(&acc) { "handle" } else { "write" })
    } else if acc > 0 && !flushed_cur {
        Some("flush")
    } else if remaining > 0 {
        Some("read")
    } else {
        None
    };
    (false, side)
}

/// Execute `script` on a fresh machine. `auto`: continue fairly after the script (run to
/// completion) and judge completeness. Violations go to `l` (case = instance + script).
fn run(inst: &Inst, script: &[Choice], auto: Option<usize>, l: &mut Local) -> RunOut {
    let shared = Arc::new(Mutex::new(Shared {
        script: script.to_vec(),
        pos: 0,
        auto_chunk: auto,
        inbound: inst.inbound.clone(),
        consumed: 0,
        accepted: Vec::new(),
        flushed_at: None,
        unflushed_boundary_writes: 0,
        out_boundaries: inst.out_boundaries.clone(),
        frozen: None,
        eof_answered: false,
        flags: 0,
        errors_used: 0,
        nonprogress: 0,
        bad_script: None,
        read_waker: None,
        write_waker: None,
        flush_waker: None,
        err_kind: inst.err_kind,
        zero_write_budget: 0,
    }));
    let sim = SimTcp(shared.clone());
    let idle = Duration::from_secs(inst.timeout_secs as u64);
    let (mut mach, handle) = match inst.wrapper {
        Wrapper::Plain => {
            let (st, h) = construct(sim, inst.ctor);
            (Machine::Plain(st), h)
        }
        Wrapper::Client => {
            let (st, h) = construct(sim, inst.ctor);
            (Machine::Client(TcpClientStream::from_stream(st)), h)
        }
        Wrapper::Timeout => {
            let (st, h) = construct(sim, inst.ctor);
            (Machine::Timeout(TimeoutStream::new(st, idle)), h)
        }
        Wrapper::CompatTokio => {
            let (st, h) = construct(AsyncIoTokioAsStd(SimTokio(sim)), inst.ctor);
            (Machine::CompatTokio(st), h)
        }
        Wrapper::CompatChain => {
            let (st, h) = construct(AsyncIoTokioAsStd(AsyncIoStdAsTokio(sim)), inst.ctor);
            (Machine::CompatChain(st), h)
        }
        Wrapper::ServerStack => {
            let (st, h) = construct(AsyncIoTokioAsStd(SimTokio(sim)), inst.ctor);
            (Machine::ServerStack(TimeoutStream::new(st, idle)), h)
        }
    };
    let mut handle = Some(handle);
    let wc = Arc::new(WakeCount(AtomicUsize::new(0)));
    let waker = Waker::from(wc.clone());
    let mut cx = Context::from_waker(&waker);
    // wake-up bookkeeping: count at the start of the last poll, whether that poll returned Pending
    let mut seen = 0usize;
    let mut last_pending = false;

    let mut enq = 0usize;
    let mut foreign_used = 0u8;
    let mut last_refused = false;
    let mut foreign_outstanding = 0u8;
    let mut ticks_used = 0u8;
    let mut since_restart = 0u8;
    let mut timer_started = false;
    let mut yielded: Vec<Vec<u8>> = vec![];
    let mut terminal = 0u8;
    let mut violated = false;
    let mut point = Point::Driver;
    let mut auto_polls = 0usize;
    let mut idle_polls = 0usize;
    let case = |script: &[Choice]| json!({"instance": inst.to_json(), "script": script.iter().map(choice_json).collect::<Vec<_>>(), "auto": auto});
    let viol = |l: &mut Local, key: &str, what: &str, violated: &mut bool| {
        *violated = true;
        l.violation(key, what, || case(script));
    };

    loop {
        let c = shared.lock().unwrap().next();
        let from_script = c.is_some();
        let c = match c {
            Some(c) => c,
            None => match auto {
                None => {
                    point = Point::Driver;
                    break;
                }
                Some(_) => {
                    if handle.is_some() && enq < inst.out_msgs.len() && !last_refused {
                        Choice::Enqueue
                    } else {
                        auto_polls += 1;
                        if auto_polls > 40 + 4 * (inst.in_frames.len() + inst.out_msgs.len()) {
                            viol(l, "completion:did-not-quiesce", "the machine keeps returning without reaching quiescence under a fair environment", &mut violated);
                            break;
                        }
                        Choice::Poll
                    }
                }
            },
        };
        match c {
            Choice::Enqueue => {
                if let Some(h) = handle.as_mut() {
                    if enq < inst.out_msgs.len() {
                        if h.send(SerialMessage::new(inst.out_msgs[enq].clone(), peer())).is_err() {
                            // the outbound queue is full: the handle refused the message, nothing was handed
                            // over; the driver may offer the same message again after a poll
                            l.outcome("enqueue:refused-queue-full");
                            last_refused = true;
                            continue;
                        }
                        enq += 1;
                        if last_pending && !violated {
                            // the handle's channel must wake the task (or another wake-up is pending)
                            if let (false, Some(side)) = wake_check(&shared, &wc, seen, inst, enq, auto.is_some()) {
                                viol(l, &format!("lost-wakeup:{side}"), "a message was handed over while the machine is Pending, progress is possible and no wake-up is pending", &mut violated);
                            }
                        }
                        continue;
                    }
                }
                shared.lock().unwrap().bad_script = Some("enqueue not possible here".into());
                break;
            }
            Choice::DropHandle => {
                handle = None;
                continue;
            }
            Choice::EnqueueForeign => {
                match handle.as_ref() {
                    Some(h) => {
                        let mut f = h.with_remote_addr(foreign_addr());
                        if f.send(SerialMessage::new(vec![0xee, 0xef, 0xee], foreign_addr())).is_err() {
                            shared.lock().unwrap().bad_script = Some("foreign send failed".into());
                        }
                        foreign_used += 1;
                        foreign_outstanding += 1;
                    }
                    None => shared.lock().unwrap().bad_script = Some("foreign enqueue without a handle".into()),
                }
                continue;
            }
            Choice::Tick(k) => {
                RT.with(|rt| rt.block_on(async { tokio::time::advance(Duration::from_secs(k as u64 * 100)).await }));
                ticks_used += 1;
                if timer_started {
                    since_restart = (since_restart + k).min(8);
                }
                continue;
            }
            Choice::Poll => {}
            other => {
                shared.lock().unwrap().bad_script = Some(format!("answer {other:?} at a driver point"));
                break;
            }
        }
        let woken = wc.0.load(Ordering::SeqCst) != seen;
        if last_pending && !woken {
            if from_script {
                if inst.wake_driven {
                    shared.lock().unwrap().bad_script = Some("poll without a wake-up in the wake-driven family".into());
                    break;
                }
                // the scripted part of the other families polls by fiat (a legal spurious poll)
            } else {
                // run to completion is wake-driven: nobody would poll the task now
                break;
            }
        }
        shared.lock().unwrap().flags = 0;
        last_refused = false;
        seen = wc.0.load(Ordering::SeqCst);
        let r = mach.poll(&mut cx);
        last_pending = matches!(r, Poll::Pending);
        // TimeoutStream (re)starts its timer at the first poll and whenever the inner stream is Ready
        let is_timeout_err = matches!(&r, Poll::Ready(Some(Err(e))) if e.contains("nothing ready in") || e.contains("timeout fired"));
        let timeout_due = inst.has_timer() && inst.timeout_secs > 0 && timer_started && since_restart as u32 * 100 >= inst.timeout_secs;
        if !timer_started {
            timer_started = true;
            since_restart = 0;
        } else if matches!(r, Poll::Ready(_)) && !is_timeout_err {
            since_restart = 0;
        }
        let (frozen, flags, consumed, accepted_ok) = {
            let s = shared.lock().unwrap();
            (s.frozen, s.flags, s.consumed, inst.out_image.starts_with(&s.accepted) && s.accepted.len() <= handed_len(inst, enq))
        };
        // S5: accepted bytes are a prefix of the framed image of what was handed over
        if !accepted_ok {
            let s = shared.lock().unwrap();
            let limit = frame::frame(&inst.out_msgs[..enq]);
            let first_bad = s.accepted.iter().zip(limit.iter()).position(|(a, b)| a != b).unwrap_or(limit.len().min(s.accepted.len()));
            let class = if s.accepted.len() > limit.len() && s.accepted.starts_with(&limit) {
                "extra-bytes".to_string()
            } else {
                // where in the image does the first wrong byte sit?
                let mut start = 0usize;
                let mut class = "body";
                for b in inst.out_boundaries.iter() {
                    if first_bad < *b {
                        class = if first_bad < start + 2 { "length-prefix" } else { "body" };
                        break;
                    }
                    start = *b;
                }
                class.to_string()
            };
            drop(s);
            viol(l, &format!("write:not-a-prefix-of-framed-image:{class}"), &format!("first wrong byte at offset {first_bad}"), &mut violated);
        }
        if frozen.is_some() {
            // the script ended inside this poll: the return value is an artefact of freezing
            point = frozen.unwrap();
            if let Point::Read { .. } = point {
                // the machine asks for more input: every completely delivered message must be out
                let complete = inst.complete_frames(consumed);
                let before_zero = inst.zero_at.map(|z| consumed <= z).unwrap_or(true);
                if before_zero && yielded.len() < complete {
                    viol(l, "read:message-withheld", &format!("{} messages delivered completely, {} yielded, and the machine waits for more input", complete, yielded.len()), &mut violated);
                }
            }
            break;
        }
        let complete = inst.complete_frames(consumed);
        let after_zero = inst.zero_at.map(|z| consumed >= z + 2).unwrap_or(false);
        let cause = flags & (F_READ_ERR | F_WRITE_ERR | F_FLUSH_ERR | F_ZERO_BUF_READ) != 0;
        let eof = flags & F_EOF != 0;
        let eof_expect = if eof { Some(frame::at_eof(&inst.inbound[..consumed])) } else { None };
        let eof_where = || match frame::frames(&inst.inbound[..consumed]).1 {
            Pos::Boundary => "boundary",
            Pos::InLength => "inside-length",
            Pos::InBody { .. } => "inside-body",
            Pos::ZeroFrame { .. } => "after-zero-frame",
        };
        match r {
            Poll::Pending => {
                if timeout_due {
                    l.outcome("obs:timeout-due-but-stream-pending");
                }
                if eof {
                    viol(l, &format!("eof:pending:{}", eof_where()), "the connection was closed but the stream neither ended nor failed", &mut violated);
                    terminal = 2;
                } else if flags & F_READ_PENDING != 0 && !after_zero && yielded.len() < complete {
                    viol(l, "read:message-withheld", &format!("{} messages delivered completely, {} yielded, and the machine waits for more input", complete, yielded.len()), &mut violated);
                }
                if !eof && !violated {
                    if let (false, Some(side)) = wake_check(&shared, &wc, seen, inst, enq, auto.is_some()) {
                        viol(l, &format!("lost-wakeup:{side}"), "the machine returned Pending, progress is possible on that side and no wake-up is pending or registered", &mut violated);
                    }
                }
                if flags & F_IDLE != 0 {
                    idle_polls += 1;
                    let s = shared.lock().unwrap();
                    let out_done = s.accepted.len() == handed_len(inst, enq) && (s.accepted.is_empty() || s.flushed_at == Some(s.accepted.len()));
                    drop(s);
                    if out_done || idle_polls > 3 {
                        break;
                    }
                }
            }
            Poll::Ready(None) => {
                match eof_expect {
                    None => viol(l, "read:spurious-end", "the stream ended although the connection was not closed", &mut violated),
                    Some(AtEof::Error) => viol(l, &format!("eof:clean-end:{}", eof_where()), "connection closed inside a frame but the stream ended without an error", &mut violated),
                    Some(_) => {}
                }
                if !after_zero && yielded.len() < complete {
                    viol(l, "read:message-withheld", "stream ended with a completely delivered message not yielded", &mut violated);
                }
                terminal = 1;
            }
            Poll::Ready(Some(Ok(bytes))) => {
                if let Some((k, w)) = classify_yield(&bytes, inst, yielded.len(), complete, yielded.last()) {
                    viol(l, &k, &w, &mut violated);
                }
                yielded.push(bytes);
                if eof {
                    terminal = 2;
                }
            }
            Poll::Ready(Some(Err(e))) => {
                if e.starts_with("HARNESS") {
                    viol(l, "read:foreign-source-address", &e, &mut violated);
                }
                let mut cause = cause;
                if is_timeout_err {
                    // the idle timeout of the wrapper: legitimate only after 360 s without an item
                    if !timeout_due {
                        viol(l, "timeout:spurious", &format!("timeout error {} s after the timer was (re)started, the configured idle timeout is {} s: {e}", since_restart as u32 * 100, inst.timeout_secs), &mut violated);
                    } else {
                        l.outcome("timeout:fired");
                    }
                    // the owner of the stream drops the connection on this error
                    terminal = 2;
                    cause = true;
                } else if e.contains("mismatched peer") && foreign_outstanding > 0 {
                    // the foreign-addressed message was refused
                    foreign_outstanding -= 1;
                    l.outcome("foreign:refused-with-error");
                    cause = true;
                }
                match eof_expect {
                    None => {
                        if !cause {
                            viol(l, "read:spurious-error", &format!("error item without an I/O error, EOF or zero-length frame: {e}"), &mut violated);
                        }
                    }
                    Some(AtEof::CleanEnd) => {
                        if !cause {
                            viol(l, "eof:error-at-boundary", &format!("connection closed between messages but the stream reported: {e}"), &mut violated);
                        }
                        terminal = 2;
                    }
                    Some(_) => terminal = 2,
                }
                if flags & F_ZERO_BUF_READ != 0 {
                    // zero-length frame: the machine cannot leave this state; treat as the end
                    terminal = 2;
                }
            }
        }
        if terminal != 0 {
            point = Point::Terminal;
            break;
        }
    }

    let (consumed, accepted_len, accepted_is, flushed_cur, errs, nonprogress, unflushed) = {
        let s = shared.lock().unwrap();
        if let Some(b) = &s.bad_script {
            // a recorded answer that is not legal where it is replayed: nondeterminism / harness bug
            eprintln!("MACHINERY-FAILURE property=C17 script does not fit the run: {b} (instance {}, script {:?})", inst.label, script);
            std::process::exit(2);
        }
        let want_len = handed_len(inst, enq);
        (
            s.consumed,
            s.accepted.len(),
            s.accepted.len() == want_len && inst.out_image.starts_with(&s.accepted),
            s.flushed_at == Some(s.accepted.len()),
            s.errors_used,
            s.nonprogress,
            s.unflushed_boundary_writes,
        )
    };
    if unflushed > 0 {
        l.outcome("obs:next-message-started-before-flush");
    }
    if auto.is_some() && !violated && terminal == 0 {
        // S7: completeness under a fair continuation
        if yielded.len() != inst.in_frames.len() && inst.zero_at.is_none() {
            viol(l, "completion:inbound-messages-missing", &format!("{} of {} framed messages yielded after the whole stream was delivered", yielded.len(), inst.in_frames.len()), &mut violated);
        } else if !accepted_is {
            viol(l, "completion:outbound-incomplete", &format!("{accepted_len} of {} framed bytes accepted by the socket at quiescence", handed_len(inst, enq)), &mut violated);
        } else if accepted_len > 0 && !flushed_cur {
            viol(l, "completion:not-flushed", "all bytes accepted but no successful flush after the last one", &mut violated);
        }
    }
    RunOut {
        point,
        consumed: consumed as u32,
        accepted: accepted_len as u32,
        flushed_cur,
        enq: enq as u8,
        alive: handle.is_some(),
        yielded: yielded.len() as u8,
        errs,
        nonprogress,
        terminal,
        violated,
        can_poll: !inst.wake_driven || !last_pending || wc.0.load(Ordering::SeqCst) != seen,
        foreign_used,
        foreign_outstanding,
        last_refused,
        ticks_used,
        since_restart,
        timer_started,
    }
}

/// The answers of the alphabet at the decision point a run stopped at.
fn choices(inst: &Inst, o: &RunOut) -> Vec<Choice> {
    let mut v = vec![];
    let err_ok = o.errs < inst.max_errors;
    match o.point {
        Point::Terminal => {}
        Point::Driver => {
            if o.can_poll {
                v.push(Choice::Poll);
            }
            if o.alive && (o.enq as usize) < inst.out_msgs.len() && !o.last_refused {
                v.push(Choice::Enqueue);
            }
            if o.alive && inst.allow_drop && (o.enq as usize) == inst.out_msgs.len() {
                v.push(Choice::DropHandle);
            }
            if o.alive && o.foreign_used < inst.foreign {
                v.push(Choice::EnqueueForeign);
            }
            if inst.has_timer() && o.ticks_used < inst.max_ticks {
                if inst.timeout_secs == 100 {
                    v.push(Choice::Tick(1)); // exactly the timeout
                }
                v.push(Choice::Tick(2));
                v.push(Choice::Tick(4));
            }
        }
        Point::Read { buf } => {
            let remaining = inst.inbound.len() - o.consumed as usize;
            if o.nonprogress != 1 {
                v.push(Choice::Pending);
            }
            v.push(Choice::Eof);
            if err_ok {
                v.push(Choice::IoErr);
            }
            for n in 1..=(buf as usize).min(remaining) {
                v.push(Choice::N(n as u32));
            }
        }
        Point::Write { offered, .. } => {
            if o.nonprogress != 3 {
                v.push(Choice::Pending);
            }
            if err_ok {
                v.push(Choice::IoErr);
            }
            for n in 1..=offered {
                v.push(Choice::N(n));
            }
        }
        Point::Flush => {
            v.push(Choice::Done);
            if o.nonprogress != 5 {
                v.push(Choice::Pending);
            }
            if err_ok {
                v.push(Choice::IoErr);
            }
        }
    }
    v
}

fn nontrivial_digest(inst_id: u32, o: &RunOut, c: &Choice, inst: &Inst) -> Option<u64> {
    // a short read/write or a Pending strictly inside a frame
    let inside_in = {
        let c0 = o.consumed as usize;
        !matches!(frame::frames(&inst.inbound[..c0]).1, Pos::Boundary)
    };
    let inside_out = !(o.accepted == 0 || inst.out_boundaries.contains(&(o.accepted as usize)));
    let hit = match (o.point, c) {
        (Point::Read { buf }, Choice::N(n)) => *n < buf || inside_in,
        (Point::Read { .. }, Choice::Pending) => inside_in,
        (Point::Write { offered, .. }, Choice::N(n)) => *n < offered || inside_out,
        (Point::Write { .. }, Choice::Pending) => inside_out,
        _ => false,
    };
    if !hit {
        return None;
    }
    let cc = match (o.point, c) {
        (Point::Read { buf }, Choice::N(n)) => if *n < buf { 2 } else { 3 },
        (Point::Write { offered, .. }, Choice::N(n)) => if *n < offered { 2 } else { 3 },
        (_, Choice::Pending) => 1,
        _ => 0,
    };
    Some((inst_id as u64) << 44 ^ (o.consumed as u64) << 24 ^ (o.accepted as u64) << 4 ^ cc)
}

#[derive(Clone)]
struct Node {
    inst: u32,
    script: Vec<Choice>,
    out: RunOut,
}


fn guarded_run(inst: &Inst, script: &[Choice], auto: Option<usize>, l: &mut Local) -> Option<RunOut> {
    let f = || run(inst, script, auto, l);
    let r = if inst.needs_rt() {
        RT.with(|rt| {
            let _g = rt.enter();
            catch(f)
        })
    } else {
        catch(f)
    };
    match r {
        Ok(o) => Some(o),
        Err(p) => {
            l.violation(&format!("panic:{}", vcore::short_loc(&p.loc)), &format!("the stream machine panicked: {}", p.msg), || {
                json!({"instance": inst.to_json(), "script": script.iter().map(choice_json).collect::<Vec<_>>(), "auto": auto})
            });
            None
        }
    }
}

fn run_bfs(ctx: &Ctx, insts: &[Inst], base: u32) -> vcore::BfsStats {
    let mut roots = vec![];
    ctx.with_local(|l| {
        for (i, inst) in insts.iter().enumerate() {
            if let Some(o) = guarded_run(inst, &[], None, l) {
                roots.push((Node { inst: base + i as u32, script: vec![], out: o.clone() }, (base + i as u32, o)));
            }
        }
    });
    bfs(ctx, roots, 100_000, |node, l| {
        let inst = &insts[(node.inst - base) as usize];
        if node.out.violated || node.out.terminal != 0 {
            return vec![];
        }
        // completion from this state (once per state)
        l.eval();
        guarded_run(inst, &node.script, Some(usize::MAX), l);
        let mut succ = vec![];
        for c in choices(inst, &node.out) {
            let mut s = node.script.clone();
            s.push(c);
            l.eval();
            if let Some(d) = nontrivial_digest(node.inst, &node.out, &c, inst) {
                l.nontrivial(d);
            }
            if let Some(o) = guarded_run(inst, &s, None, l) {
                let class = match (&c, o.terminal) {
                    (Choice::Eof, 1) => "eof:clean-end",
                    (Choice::Eof, _) => "eof:error",
                    (Choice::Pending, _) => "answer:pending",
                    (Choice::IoErr, _) => "answer:io-error",
                    (Choice::N(_), _) => match node.out.point {
                        Point::Read { .. } => "answer:read-n",
                        _ => "answer:write-n",
                    },
                    (Choice::Done, _) => "answer:flush-ok",
                    _ => "driver-op",
                };
                l.outcome(class);
                ctx.traces_validated.fetch_add(1, Ordering::Relaxed);
                succ.push((Node { inst: node.inst, script: s, out: o.clone() }, (node.inst, o)));
            }
        }
        if node.script.len() == 6 && l.samples.len() < 2 {
            l.sample(json!({"instance": inst.label, "script": node.script.iter().map(choice_json).collect::<Vec<_>>()}));
        }
        succ
    })
}

/// Matching-free enumeration: every answer sequence of the instance, no deduplication.
fn free_dfs(inst: &Inst, script: &mut Vec<Choice>, keys: &mut HashSet<RunOut>, runs: &mut u64, l: &mut Local) {
    let Some(o) = guarded_run(inst, script, None, l) else { return };
    *runs += 1;
    l.eval();
    let stop = o.violated || o.terminal != 0;
    let cs = if stop { vec![] } else { choices(inst, &o) };
    keys.insert(o);
    for c in cs {
        script.push(c);
        free_dfs(inst, script, keys, runs, l);
        script.pop();
    }
}

// ------------------------------------------------------------------------------------------

fn sequences(lens: &[usize], max_msgs: usize) -> Vec<Vec<usize>> {
    let mut out = vec![];
    let mut last: Vec<Vec<usize>> = vec![vec![]];
    for _ in 0..max_msgs {
        let mut next = vec![];
        for s in &last {
            for l in lens {
                let mut t = s.clone();
                t.push(*l);
                next.push(t);
            }
        }
        out.extend(next.iter().cloned());
        last = next;
    }
    out
}

fn main() {
    // a stack overflow / abort in the code under test must become a verdict, not a dead check
    vcore::supervise("C17");
    vcore::install_log_evaluation(); // logging is part of the environment: log arguments are evaluated as under a real subscriber
    let ctx = Ctx::from_args("C17", "model_checking");
    if let Err(e) = frame::self_test() {
        vcore::machinery_exit(&format!("vref::frame self-test failed: {e}"));
    }

    if let Some((_key, case)) = ctx.replay_case() {
        let inst = Inst::from_json(&case["instance"]);
        let script: Vec<Choice> = case["script"].as_array().map(|a| a.iter().map(choice_from_json).collect()).unwrap_or_default();
        let auto = case["auto"].as_u64().map(|x| x as usize);
        ctx.with_local(|l| {
            guarded_run(&inst, &script, auto, l);
        });
        ctx.finish(false);
    }

    let quick = ctx.quick();
    let lens: Vec<usize> = if quick { vec![1, 2, 3, 255] } else { vec![1, 2, 3, 255, 256, 300] };
    ctx.set_rule(&format!(
        "E-STATE on the real TcpStream<SimTcp> (from_stream + BufDnsStreamHandle), manual polling: BFS over ALL answer sequences of the \
         scripted socket and driver with state matching, to the fixpoint. Read grid: every sequence of 1..3 inbound messages with lengths \
         from {lens:?} (+ streams with a zero-length frame); at every poll_read: Pending | every n in 1..=min(buf,remaining) | EOF | I/O \
         error. Write grid: every sequence of 1..3 outbound messages (same lengths) handed over at every possible driver point; at every \
         poll_write[_vectored]: Pending | every n in 1..=offered | I/O error; poll_flush: Ok | Pending | I/O error. Joint grid: inbound x \
         outbound sequences of 1..2 messages with lengths {{1,2,3}} incl. dropping the handle (thorough: + three pairs with 35..70-byte messages). Conformance grids: TcpClientStream and \
         TimeoutStream<TcpStream> wrappers on the joint grid. Wake-driven family (read / write / joint instances): the driver polls only \
         after an item or when the recording waker was woken (the socket wakes the waker it was handed when it answered Pending, the \
         handle's channel wakes on send); every run to completion is wake-driven too. Matching-free cross-run: every answer sequence of every stream of <= 12 \
         framed bytes without state matching must reach exactly the BFS key set. Big messages (65,535 / 32,768 bytes) with fixed chunk \
         sizes. From every state a fair run to completion is judged. Non-trivial = transitions with a short read/write or a Pending \
         strictly inside a frame, distinct by (instance, bytes consumed, bytes accepted, answer)."
    ));
    ctx.assume("vref::frame (RFC 1035 4.2.2 two-byte length framing) is the reference");
    ctx.assume("state-matching argument: the machine's future depends only on the canonical key; tested by the matching-free cross-run and the completion run from every state");
    ctx.assume("poll_write returning Ok(0) for a non-empty buffer is outside the alphabet (the statement quantifies over partial writes and would-block)");
    ctx.assume("wake-up model: a consumer re-polls after every item (also after an error item); after Pending the task runs only when its waker was woken; the socket wakes a stored waker whenever it answered Pending before (it can always deliver / accept / complete something), except the read side once the inbound stream is used up in a run to completion");
    ctx.assume("after an I/O error answered by the socket the run continues (at most E errors per run, E in the evidence); a poll after a Pending is a legal spurious poll");

    let mut base = 0u32;
    let mut grid_stats = serde_json::Map::new();
    let mut all_fix = true;
    let mut do_grid = |name: &str, insts: Vec<Inst>, base: &mut u32| -> vcore::BfsStats {
        // instances are explored in slices to bound the memory of a BFS level (small instances in larger
        // slices: every BFS level costs a round of worker start-up)
        let mut st = vcore::BfsStats { fixpoint: true, ..Default::default() };
        let big = insts.iter().any(|i| i.inbound.len() + i.out_image.len() > 120);
        for chunk in insts.chunks(if big { 24 } else { 160 }) {
            let part = run_bfs(&ctx, chunk, *base);
            *base += chunk.len() as u32;
            st.states += part.states;
            st.transitions += part.transitions;
            st.depth_completed = st.depth_completed.max(part.depth_completed);
            st.fixpoint &= part.fixpoint;
        }
        eprintln!("[C17] grid {name}: instances={} states={} transitions={} depth={} fixpoint={} t={:.1}s", insts.len(), st.states, st.transitions, st.depth_completed, st.fixpoint, ctx.elapsed_s());
        grid_stats.insert(name.to_string(), json!({"instances": insts.len(), "states": st.states, "transitions": st.transitions, "depth": st.depth_completed, "fixpoint": st.fixpoint}));
        if !st.fixpoint {
            all_fix = false;
        }
        st
    };
    let max_err = if quick { 1 } else { 2 };

    // read grid
    // quick: every 1- and 2-message sequence, every short 3-message sequence, the long message once per position
    let seqs: Vec<Vec<usize>> = sequences(&lens, 3)
        .into_iter()
        .filter(|s| !quick || s.len() < 3 || s.iter().all(|l| *l < 255) || [vec![255, 1, 2], vec![1, 255, 2], vec![1, 2, 255]].contains(s))
        .collect();
    ctx.set("message_sequences", json!(seqs.len()));
    let mut insts = vec![];
    for s in &seqs {
        insts.push(Inst::new(format!("read{s:?}"), Wrapper::Plain, inbound_of(s), &[], max_err, false));
    }
    // zero-length frame alone, between and after messages; a frame announcing more than follows
    // is every truncated stream above (EOF inside a body)
    for (label, bytes) in [
        ("zero", vec![0u8, 0]),
        ("m1,zero,m2", [inbound_of(&[1]), vec![0, 0], frame::frame(&[message(1, 2)])].concat()),
        ("m3,zero", [inbound_of(&[3]), vec![0, 0]].concat()),
        ("zero,m255", [vec![0u8, 0], inbound_of(&[255])].concat()),
    ] {
        insts.push(Inst::new(format!("read[{label}]"), Wrapper::Plain, bytes, &[], max_err, false));
    }
    do_grid("read", insts, &mut base);

    // write grid (the inbound stream is empty: reads can only be answered Pending / EOF / error)
    let mut insts = vec![];
    for s in &seqs {
        insts.push(Inst::new(format!("write{s:?}"), Wrapper::Plain, vec![], s, max_err, false));
    }
    do_grid("write", insts, &mut base);

    // joint grid
    let small = sequences(&[1, 2, 3], 2);
    let mut insts = vec![];
    for i in &small {
        for o in &small {
            insts.push(Inst::new(format!("joint in{i:?} out{o:?}"), Wrapper::Plain, inbound_of(i), o, 1, true));
        }
    }
    if !quick {
        for (i, o) in [(vec![64usize], vec![70usize]), (vec![40, 2], vec![2, 33]), (vec![1, 35], vec![34, 1])] {
            insts.push(Inst::new(format!("joint in{i:?} out{o:?}"), Wrapper::Plain, inbound_of(&i), &o, 1, true));
        }
    }
    do_grid("joint", insts, &mut base);

    // conformance grids on the wrappers
    for (name, w, ctor) in [
        ("client", Wrapper::Client, Ctor::FromStream),
        ("timeout", Wrapper::Timeout, Ctor::FromStream),
        // the socket adaptors of runtime.rs and the server's composition (from_stream_with_buffer_size)
        ("compat-tokio", Wrapper::CompatTokio, Ctor::FromStream),
        ("compat-chain", Wrapper::CompatChain, Ctor::FromStream),
        ("server-stack", Wrapper::ServerStack, Ctor::BufferSize(2)),
    ] {
        let mut insts = vec![];
        let seqs = if quick { sequences(&[1, 3], 2) } else { small.clone() };
        for i in &seqs {
            for o in &seqs {
                insts.push(Inst::new(format!("{name} in{i:?} out{o:?}"), w, inbound_of(i), o, 1, true).ctor(ctor));
            }
        }
        // one long message per direction (quick: 255 bytes for the first two wrappers, 64 for the others)
        let long = if quick && !matches!(w, Wrapper::Client | Wrapper::Timeout) { 64 } else { 255 };
        insts.push(Inst::new(format!("{name} read[{long}, 2]"), w, inbound_of(&[long, 2]), &[], 1, false).ctor(ctor));
        insts.push(Inst::new(format!("{name} write[2, {long}]"), w, vec![], &[2, long], 1, false).ctor(ctor));
        do_grid(name, insts, &mut base);
    }

    // knobs: outbound queue depth (a full queue refuses the message: nothing handed over), the
    // connect-future constructor, the idle timeout value (0 = disabled, 100 s, 360 s), the kind of the
    // scripted I/O errors, the message content, zero-length outbound messages
    {
        let mut insts = vec![];
        for depth in [0usize, 1] {
            for o in [vec![1usize, 2], vec![3, 1, 2]] {
                for (i, wake) in [(vec![], false), (vec![2usize], true)] {
                    insts.push(Inst::new(format!("queue-depth={depth} in{i:?} out{o:?} wake={wake}"), Wrapper::Plain, inbound_of(&i), &o, 1, true).ctor(Ctor::BufferSize(depth)).wake(wake));
                }
            }
            insts.push(Inst::new(format!("queue-depth={depth} foreign out[1, 1]"), Wrapper::Plain, vec![], &[1, 1], 0, false).ctor(Ctor::BufferSize(depth)).foreign(1));
        }
        if !quick {
            // the default depth of 32: the 34th message of a burst is refused
            insts.push(Inst::new("queue-depth=default burst of 34".into(), Wrapper::Plain, vec![], &[1usize; 34], 0, false));
        }
        for (i, o) in [(vec![1usize], vec![]), (vec![2, if quick { 40 } else { 255 }], vec![]), (vec![], vec![3usize, 1]), (vec![3, 1], vec![1, 2])] {
            insts.push(Inst::new(format!("with_future in{i:?} out{o:?}"), Wrapper::Plain, inbound_of(&i), &o, 1, true).ctor(Ctor::WithFuture));
        }
        for w in [Wrapper::Timeout, Wrapper::ServerStack] {
            for secs in [0u32, 100] {
                for (i, o) in [(vec![1usize], vec![]), (vec![2, 1], vec![1usize])] {
                    insts.push(Inst::new(format!("idle-timeout={secs}s {w:?} in{i:?} out{o:?}"), w, inbound_of(&i), &o, 0, false).idle_timeout(secs).ticks(2));
                }
            }
        }
        for kind in 1..ERR_KINDS.len() as u8 {
            for w in [Wrapper::Plain, Wrapper::Client, Wrapper::Timeout] {
                insts.push(Inst::new(format!("error-kind={:?} {w:?} in[2, 1] out[1, 2]", ERR_KINDS[kind as usize]), w, inbound_of(&[2, 1]), &[1, 2], if quick { 1 } else { 2 }, false).err_kind(kind));
            }
        }
        for fill in [Fill::Zeros, Fill::Ones] {
            for (i, o) in [(vec![1usize], vec![]), (vec![2, 3], vec![]), (vec![if quick { 40 } else { 255 }, 2], vec![]), (vec![], vec![2usize, 3]), (vec![], vec![if quick { 40usize } else { 255 }]), (vec![3, 2], vec![2, 3])] {
                insts.push(Inst::new(format!("fill={fill:?} in{i:?} out{o:?}"), Wrapper::Plain, inbound_filled(&i, fill), &o, 1, false).fill(fill));
            }
        }
        for w in [Wrapper::Plain, Wrapper::CompatChain] {
            for o in [vec![0usize], vec![1, 0, 2], vec![0, 0]] {
                insts.push(Inst::new(format!("zero-length-outbound {w:?} out{o:?}"), w, inbound_of(&[1]), &o, 1, false));
            }
        }
        do_grid("knobs", insts, &mut base);
    }

    // wake-driven family: the driver polls only after an item or when the task's waker was woken
    // (the environment wakes the waker it was handed when it answered Pending, the handle's
    // channel wakes on send); Pending with progress possible and no wake-up pending = lost wake-up
    {
        let mut insts = vec![];
        let wl: Vec<usize> = if quick { vec![1, 3] } else { vec![1, 2, 3] };
        for s in sequences(&wl, 3) {
            insts.push(Inst::new(format!("wake read{s:?}"), Wrapper::Plain, inbound_of(&s), &[], 1, false).wake(true));
            insts.push(Inst::new(format!("wake write{s:?}"), Wrapper::Plain, vec![], &s, 1, false).wake(true));
        }
        for s in [vec![255usize], vec![2, 255]] {
            insts.push(Inst::new(format!("wake read{s:?}"), Wrapper::Plain, inbound_of(&s), &[], 1, false).wake(true));
            insts.push(Inst::new(format!("wake write{s:?}"), Wrapper::Plain, vec![], &s, 1, false).wake(true));
        }
        let js = if quick { sequences(&[1, 3], 2) } else { small.clone() };
        for i in &js {
            for o in &js {
                insts.push(Inst::new(format!("wake joint in{i:?} out{o:?}"), Wrapper::Plain, inbound_of(i), o, 1, true).wake(true));
            }
        }
        for w in [Wrapper::Client, Wrapper::Timeout] {
            insts.push(Inst::new(format!("wake {w:?} in[2, 1] out[1, 3]"), w, inbound_of(&[2, 1]), &[1, 3], 1, true).wake(true));
        }
        do_grid("wake", insts, &mut base);
    }

    // foreign-addressed messages: handed over through `handle.with_remote_addr(other)`; they must
    // never reach the wire of this connection and must not disturb the framing of the others
    {
        let mut insts = vec![];
        let os = if quick { sequences(&[1, 3], 2) } else { sequences(&[1, 2, 3], 2) };
        for o in &os {
            for (i, wake) in [(vec![], false), (vec![2usize], false), (vec![2usize], true)] {
                insts.push(Inst::new(format!("foreign in{i:?} out{o:?} wake={wake}"), Wrapper::Plain, inbound_of(&i), o, 1, true).foreign(1).wake(wake));
            }
        }
        insts.push(Inst::new("foreign in[] out[] x2".into(), Wrapper::Plain, vec![], &[], 0, true).foreign(2));
        insts.push(Inst::new("foreign Client in[1] out[2]".into(), Wrapper::Client, inbound_of(&[1]), &[2], 1, true).foreign(1));
        insts.push(Inst::new("foreign Timeout in[1] out[2]".into(), Wrapper::Timeout, inbound_of(&[1]), &[2], 1, true).foreign(1));
        do_grid("foreign", insts, &mut base);
    }

    // a firing idle timeout: the driver may advance the virtual clock by 200 s or 400 s between polls
    // (TimeoutStream, 360 s): a timeout error is legitimate only 360 s after the last item / first poll
    {
        let mut insts = vec![];
        let ticks = if quick { 2 } else { 3 };
        for i in [vec![1usize], vec![2, 1], vec![3, 3, 1]] {
            for o in [vec![], vec![1usize], vec![2, 2]] {
                for wake in [false, true] {
                    insts.push(Inst::new(format!("timeout-fire in{i:?} out{o:?} wake={wake}"), Wrapper::Timeout, inbound_of(&i), &o, if quick { 0 } else { 1 }, false).ticks(ticks).wake(wake));
                }
            }
        }
        do_grid("timeout-fire", insts, &mut base);
    }

    // matching-free cross-run on short streams: E = I/O errors allowed per run
    {
        let mut insts = vec![];
        let framed = |s: &Vec<usize>| -> usize { s.iter().map(|l| l + 2).sum() };
        let (r1, r0, w1, w0) = if quick { (8, 11, 6, 8) } else { (10, 13, 7, 9) };
        for s in sequences(&[1, 2, 3, 5, 8], 3) {
            let total = framed(&s);
            if total <= r1 {
                insts.push(Inst::new(format!("x-read{s:?} E=1"), Wrapper::Plain, inbound_of(&s), &[], 1, false));
            } else if total <= r0 {
                insts.push(Inst::new(format!("x-read{s:?} E=0"), Wrapper::Plain, inbound_of(&s), &[], 0, false));
            }
            if total <= w1 {
                insts.push(Inst::new(format!("x-write{s:?} E=1"), Wrapper::Plain, vec![], &s, 1, false));
            } else if total <= w0 {
                insts.push(Inst::new(format!("x-write{s:?} E=0"), Wrapper::Plain, vec![], &s, 0, false));
            }
        }
        insts.push(Inst::new("x-joint in[1] out[1] E=0".into(), Wrapper::Plain, inbound_of(&[1]), &[1], 0, true));
        insts.push(Inst::new("x-wake-joint in[1] out[1] E=0".into(), Wrapper::Plain, inbound_of(&[1]), &[1], 0, true).wake(true));
        insts.push(Inst::new("x-foreign out[1] E=0".into(), Wrapper::Plain, vec![], &[1], 0, false).foreign(1));
        insts.push(Inst::new("x-queue-depth=0 out[1, 1] E=0".into(), Wrapper::Plain, vec![], &[1, 1], 0, false).ctor(Ctor::BufferSize(0)));
        insts.push(Inst::new("x-compat-chain write[1] E=0".into(), Wrapper::CompatChain, vec![], &[1], 0, false));
        insts.push(Inst::new("x-compat-tokio read[2] E=1".into(), Wrapper::CompatTokio, inbound_of(&[2]), &[], 1, false));
        insts.push(Inst::new("x-idle-timeout=100 in[1] E=0".into(), Wrapper::ServerStack, inbound_of(&[1]), &[], 0, false).idle_timeout(100).ticks(2));
        insts.push(Inst::new("x-timeout-fire in[1] E=0".into(), Wrapper::Timeout, inbound_of(&[1]), &[], 0, false).ticks(2));
        if !quick {
            insts.push(Inst::new("x-joint in[1] out[1] E=1".into(), Wrapper::Plain, inbound_of(&[1]), &[1], 1, true));
            insts.push(Inst::new("x-joint in[2] out[1] E=0".into(), Wrapper::Plain, inbound_of(&[2]), &[1], 0, true));
            insts.push(Inst::new("x-joint in[1] out[2] E=0".into(), Wrapper::Plain, inbound_of(&[1]), &[2], 0, true));
        }
        // phase 1: all nodes of script length < D sequentially; nodes of length D become tasks
        const D: usize = 7;
        let mut keysets: Vec<HashSet<RunOut>> = insts.iter().map(|_| HashSet::new()).collect();
        let mut runs: Vec<u64> = vec![0; insts.len()];
        let mut tasks: Vec<(usize, Vec<Choice>)> = vec![];
        ctx.with_local(|l| {
            for (i, inst) in insts.iter().enumerate() {
                let mut stack: Vec<Vec<Choice>> = vec![vec![]];
                while let Some(script) = stack.pop() {
                    if script.len() == D {
                        tasks.push((i, script));
                        continue;
                    }
                    let Some(o) = guarded_run(inst, &script, None, l) else { continue };
                    runs[i] += 1;
                    l.eval();
                    let stop = o.violated || o.terminal != 0;
                    let cs = if stop { vec![] } else { choices(inst, &o) };
                    keysets[i].insert(o);
                    for c in cs {
                        let mut s2 = script.clone();
                        s2.push(c);
                        stack.push(s2);
                    }
                }
            }
        });
        // phase 2: the subtrees in parallel
        let results: Mutex<Vec<(usize, HashSet<RunOut>, u64)>> = Mutex::new(vec![]);
        ctx.case_timeout_s.store(600, Ordering::Relaxed);
        ctx.par_run(tasks.len() as u64, 1, |t, l| {
            let (i, script) = &tasks[t as usize];
            let mut keys = HashSet::new();
            let mut n = 0u64;
            free_dfs(&insts[*i], &mut script.clone(), &mut keys, &mut n, l);
            results.lock().unwrap().push((*i, keys, n));
        });
        ctx.case_timeout_s.store(30, Ordering::Relaxed);
        for (i, keys, n) in results.into_inner().unwrap() {
            keysets[i].extend(keys);
            runs[i] += n;
        }
        if std::env::var("VERIF_DEBUG").is_ok() {
            for (i, inst) in insts.iter().enumerate() {
                eprintln!("[C17] free run {}: runs={} keys={}", inst.label, runs[i], keysets[i].len());
            }
        }
        let free_keys: usize = keysets.iter().map(|k| k.len()).sum();
        let free_runs: u64 = runs.iter().sum();
        let n = insts.len();
        let st = do_grid("cross", insts, &mut base);
        ctx.set("cross_run", json!({"streams": n, "runs_without_matching": free_runs, "keys_without_matching": free_keys, "bfs_states": st.states}));
        eprintln!("[C17] cross-run: streams={n} runs={free_runs} keys={free_keys} bfs_states={} t={:.1}s", st.states, ctx.elapsed_s());
        if free_keys as u64 != st.states {
            ctx.machinery_failure(&format!("cross-run: matching-free enumeration reached {free_keys} keys, BFS with matching {}", st.states));
        }
    }

    // big messages with fixed chunk sizes (E-ENUM supplement)
    {
        let mut cases = vec![];
        for len in [300usize, 32_768, 65_535] {
            for chunk in [1usize, 7, 1000, usize::MAX] {
                if len > 1000 && chunk == 1 && quick {
                    continue;
                }
                cases.push((len, chunk));
            }
        }
        ctx.set("big_cases", json!(cases.len()));
        ctx.par_run(cases.len() as u64, 1, |i, l| {
            let (len, chunk) = cases[i as usize];
            let inst = Inst::new(format!("big {len} chunk {chunk}"), Wrapper::Plain, inbound_of(&[len, 2]), &[len, 1], 0, false);
            l.eval();
            if let Some(o) = guarded_run(&inst, &[], Some(chunk), l) {
                if !o.violated {
                    l.outcome("big:complete");
                }
            }
        });
    }

    // observation only (Ok(0) for a non-empty buffer is outside the alphabet): how often does the machine
    // call the socket again inside ONE poll_next while the socket keeps answering Ok(0)?
    ctx.with_local(|l| {
        let inst = Inst::new("write-zero probe".into(), Wrapper::Plain, vec![], &[3], 0, false);
        let shared = Arc::new(Mutex::new(Shared {
            script: vec![Choice::Pending],
            pos: 0,
            auto_chunk: None,
            inbound: Arc::new(vec![]),
            consumed: 0,
            accepted: Vec::new(),
            flushed_at: None,
            unflushed_boundary_writes: 0,
            out_boundaries: inst.out_boundaries.clone(),
            frozen: None,
            eof_answered: false,
            flags: 0,
            errors_used: 0,
            nonprogress: 0,
            bad_script: None,
            read_waker: None,
            write_waker: None,
            flush_waker: None,
            err_kind: 0,
            zero_write_budget: 1000,
        }));
        let (mut stream, mut handle) = TcpStream::from_stream(SimTcp(shared.clone()), peer());
        let _ = handle.send(SerialMessage::new(message(1, 3), peer()));
        let wc = Arc::new(WakeCount(AtomicUsize::new(0)));
        let waker = Waker::from(wc);
        let mut cx = Context::from_waker(&waker);
        let _ = Pin::new(&mut stream).poll_next(&mut cx);
        let left = shared.lock().unwrap().zero_write_budget;
        l.outcome(if left == 0 { "obs:write-returns-0:retried-1000-times-inside-one-poll(busy-loop-until-the-socket-answers-otherwise)" } else { "obs:write-returns-0:machine-gives-up-or-yields" });
    });

    // observation only (outside the statement's lengths 1..300 and not a DNS message over TCP at
    // all): a message of more than 65,535 bytes handed to the handle
    ctx.with_local(|l| {
        for len in [65_536usize, 65_537, 70_000] {
            let shared = Arc::new(Mutex::new(Shared {
                script: vec![],
                pos: 0,
                auto_chunk: Some(usize::MAX),
                inbound: Arc::new(vec![]),
                consumed: 0,
                accepted: Vec::new(),
                flushed_at: None,
                unflushed_boundary_writes: 0,
                out_boundaries: Arc::new(vec![]),
                frozen: None,
                eof_answered: false,
                flags: 0,
                errors_used: 0,
                nonprogress: 0,
                bad_script: None,
                read_waker: None,
                write_waker: None,
                flush_waker: None,
                err_kind: 0,
                zero_write_budget: 0,
            }));
            let res = catch(|| {
                let (mut stream, mut handle) = TcpStream::from_stream(SimTcp(shared.clone()), peer());
                let sent = handle.send(SerialMessage::new(message(7, len), peer())).is_ok();
                let wc = Arc::new(WakeCount(AtomicUsize::new(0)));
                let waker = Waker::from(wc);
                let mut cx = Context::from_waker(&waker);
                let mut items = vec![];
                for _ in 0..4 {
                    match Pin::new(&mut stream).poll_next(&mut cx) {
                        Poll::Ready(Some(r)) => items.push(r.is_ok()),
                        _ => break,
                    }
                }
                (sent, items)
            });
            let s = shared.lock().unwrap();
            let class = match res {
                Err(_) => "obs:oversize-message:panic",
                Ok((false, _)) => "obs:oversize-message:refused-by-the-handle",
                Ok((true, items)) if s.accepted.is_empty() => {
                    if items.iter().any(|ok| !ok) { "obs:oversize-message:error-item-nothing-written" } else { "obs:oversize-message:silently-dropped" }
                }
                Ok((true, _)) => {
                    let prefix = ((s.accepted[0] as usize) << 8) | s.accepted[1] as usize;
                    if s.accepted.len() == 2 + len && prefix == len % 65_536 {
                        "obs:oversize-message:length-prefix-truncated-to-16-bits-and-all-bytes-written(stream-corrupt-for-the-peer)"
                    } else {
                        "obs:oversize-message:other"
                    }
                }
            };
            l.outcome(class);
        }
    });

    ctx.set("grids", Value::Object(grid_stats));
    ctx.set("max_io_errors_per_run", json!(max_err));
    // vacuity guards
    for class in ["eof:clean-end", "eof:error", "answer:pending", "answer:io-error", "answer:read-n", "answer:write-n", "answer:flush-ok", "big:complete"] {
        if ctx.outcome_count(class) == 0 {
            ctx.machinery_failure(&format!("vacuous run: outcome class {class} never exercised"));
        }
    }
    if !all_fix {
        ctx.cap("a BFS stopped at its depth bound before the fixpoint");
    }
    ctx.finish(true);
}
