//! vref::cache — reference model of a resolver response cache, written from the statement of
//! property C15 (and the documented meaning of the TTL configuration). No hickory code.
//!
//! Statement (C15): for any interleaving of inserts, lookups and clock advances the cache never
//! returns an entry more than L seconds after its insertion, L = the smallest TTL among the
//! entry's records of the queried type (or CNAME), clamped to the configured bounds for that
//! query type; every TTL it reports equals the per-type clamped stored TTL minus the whole
//! seconds elapsed (floored at zero) and never increases between refreshes. A negative answer is
//! kept no longer than its negative TTL clamped to the configured negative bounds; transient
//! errors are never cached.
//!
//! The model is an *acceptance* model: `get` may always miss (a cache may forget), so the only
//! thing judged is what a hit looks like.
//!
//! Time is in milliseconds since an arbitrary origin, TTLs and bounds are whole seconds.

use std::collections::BTreeMap;

pub const TYPE_CNAME: u16 = 5;
/// Documented default of an unset maximum ("will default to one day").
pub const DEFAULT_MAX_SECS: u64 = 86_400;

/// One set of bounds (seconds). `None` = not configured (min 0, max one day).
#[derive(Clone, Copy, Debug, Default, PartialEq, Eq, Hash)]
pub struct Bounds {
    pub pos_min: Option<u64>,
    pub pos_max: Option<u64>,
    pub neg_min: Option<u64>,
    pub neg_max: Option<u64>,
}

/// A TTL configuration: default bounds plus complete overrides per record/query type
/// (an override replaces the default bounds as a whole, unset fields fall back to 0 / one day).
#[derive(Clone, Debug, Default, PartialEq, Eq)]
pub struct Config {
    pub default: Bounds,
    pub by_type: Vec<(u16, Bounds)>,
}

impl Config {
    pub fn bounds_for(&self, rtype: u16) -> &Bounds {
        self.by_type
            .iter()
            .find(|(t, _)| *t == rtype)
            .map(|(_, b)| b)
            .unwrap_or(&self.default)
    }
    /// (min, max) for positive answers of this type.
    pub fn positive(&self, rtype: u16) -> (u64, u64) {
        let b = self.bounds_for(rtype);
        let min = b.pos_min.unwrap_or(0);
        // an unset maximum is the built-in default, which cannot undercut a CONFIGURED minimum
        (min, b.pos_max.unwrap_or(DEFAULT_MAX_SECS.max(min)))
    }
    /// (min, max) for negative answers to queries of this type.
    pub fn negative(&self, rtype: u16) -> (u64, u64) {
        let b = self.bounds_for(rtype);
        let min = b.neg_min.unwrap_or(0);
        (min, b.neg_max.unwrap_or(DEFAULT_MAX_SECS.max(min)))
    }
    /// The statement only speaks about bounds with min <= max.
    /// `min_above_default_max`: a configured minimum above one day with no configured maximum.
    pub fn well_formed(&self) -> bool {
        // only an EXPLICIT maximum below the minimum is malformed
        let ok = |b: &Bounds| {
            b.pos_max.map(|mx| b.pos_min.unwrap_or(0) <= mx).unwrap_or(true) && b.neg_max.map(|mx| b.neg_min.unwrap_or(0) <= mx).unwrap_or(true)
        };
        ok(&self.default) && self.by_type.iter().all(|(_, b)| ok(b))
    }
    pub fn min_above_default_max(&self) -> bool {
        let f = |b: &Bounds| {
            (b.pos_max.is_none() && b.pos_min.unwrap_or(0) > DEFAULT_MAX_SECS) || (b.neg_max.is_none() && b.neg_min.unwrap_or(0) > DEFAULT_MAX_SECS)
        };
        f(&self.default) || self.by_type.iter().any(|(_, b)| f(b))
    }
}

/// Clamp `v` into `[lo, hi]` (callers guarantee lo <= hi).
pub fn clamp(v: u64, lo: u64, hi: u64) -> u64 {
    if v < lo {
        lo
    } else if v > hi {
        hi
    } else {
        v
    }
}

/// What was handed to `insert`, reduced to what the statement talks about.
#[derive(Clone, Debug, PartialEq, Eq)]
pub enum Stored {
    /// Every record of the message (answers, authorities, additionals, in that order):
    /// (record type, TTL as received).
    Positive { records: Vec<(u16, u32)> },
    /// A "no records" answer: its negative TTL (if it has one) and every TTL embedded in it
    /// (SOA, authority records, referral NS and glue), in a fixed order.
    Negative { negative_ttl: Option<u32>, embedded: Vec<u32> },
    /// Anything else (timeout, I/O error, busy, SERVFAIL, ...): never cached.
    Transient,
}

/// What a `get` returned, reduced the same way. `id` identifies *which* inserted result the
/// content belongs to (content equality ignoring TTLs), `None` if it matches nothing inserted.
#[derive(Clone, Debug, PartialEq, Eq)]
pub enum Observation {
    Miss,
    Positive { id: Option<usize>, ttls: Vec<u32> },
    Negative { id: Option<usize>, negative_ttl: Option<u32>, embedded: Vec<u32> },
    /// An error that is not a "no records" answer.
    OtherError,
}

/// The per-type clamped TTL of one stored record (seconds).
pub fn clamped_record_ttl(cfg: &Config, rtype: u16, ttl: u32) -> u64 {
    let (lo, hi) = cfg.positive(rtype);
    clamp(ttl as u64, lo, hi)
}

/// L of the statement in seconds; `None` where the statement defines none (a positive message
/// without a record of the query type or CNAME; something that is never cached).
pub fn lifetime_secs(cfg: &Config, qtype: u16, stored: &Stored) -> Option<u64> {
    match stored {
        Stored::Positive { records } => {
            let smallest = records
                .iter()
                .filter(|(t, _)| *t == qtype || *t == TYPE_CNAME)
                .map(|(t, ttl)| clamped_record_ttl(cfg, *t, *ttl))
                .min()?;
            let (lo, hi) = cfg.positive(qtype);
            Some(clamp(smallest, lo, hi))
        }
        Stored::Negative { negative_ttl, .. } => {
            let (lo, hi) = cfg.negative(qtype);
            Some(match negative_ttl {
                Some(t) => clamp(*t as u64, lo, hi),
                // no negative TTL to clamp: nothing entitles the cache to more than its minimum
                None => lo,
            })
        }
        Stored::Transient => None,
    }
}

/// The statement's L computed from the TTLs *as received* (without the per-type clamp of the
/// individual records). Only used to log where the two readings of the statement differ.
pub fn lifetime_secs_raw(cfg: &Config, qtype: u16, stored: &Stored) -> Option<u64> {
    match stored {
        Stored::Positive { records } => {
            let smallest = records
                .iter()
                .filter(|(t, _)| *t == qtype || *t == TYPE_CNAME)
                .map(|(_, ttl)| *ttl as u64)
                .min()?;
            let (lo, hi) = cfg.positive(qtype);
            Some(clamp(smallest, lo, hi))
        }
        other => lifetime_secs(cfg, qtype, other),
    }
}

/// TTL reported after `elapsed_ms`: stored value minus whole seconds elapsed, floored at zero.
pub fn counted_down(stored_secs: u64, elapsed_ms: u64) -> u32 {
    stored_secs.saturating_sub(elapsed_ms / 1000).min(u32::MAX as u64) as u32
}

pub fn expected_positive_ttls(cfg: &Config, records: &[(u16, u32)], elapsed_ms: u64) -> Vec<u32> {
    records
        .iter()
        .map(|(t, ttl)| counted_down(clamped_record_ttl(cfg, *t, *ttl), elapsed_ms))
        .collect()
}

/// TTLs inside a negative answer: the statement defines no clamp for them (the negative bounds
/// limit how long the *answer* is kept); they count down from the received value.
pub fn expected_negative_ttls(negative_ttl: Option<u32>, embedded: &[u32], elapsed_ms: u64) -> (Option<u32>, Vec<u32>) {
    (
        negative_ttl.map(|t| counted_down(t as u64, elapsed_ms)),
        embedded.iter().map(|t| counted_down(*t as u64, elapsed_ms)).collect(),
    )
}

#[derive(Clone, Debug, PartialEq, Eq)]
pub struct Entry {
    pub result: usize,
    pub inserted_ms: u64,
}

/// Verdict of the model on one `get`.
#[derive(Clone, Debug, PartialEq, Eq)]
pub enum Verdict {
    /// Nothing to object to. `held` = the model holds an entry for the query (inserted, not
    /// cleared); `live` = held and the statement still allows it to be served (age <= L, or L
    /// undefined); `hit` = the cache returned it;
    /// `age_vs_l`: -1 younger than L, 0 exactly L, 1 older, 2 = L undefined / no entry.
    Ok { held: bool, live: bool, hit: bool, age_vs_l: i8, after_clear: bool },
    /// (oracle clause, explanation)
    Violation(String, String),
}

/// The model cache. Queries and results are small indices chosen by the caller.
#[derive(Clone, Debug)]
pub struct Model {
    pub cfg: Config,
    pub now_ms: u64,
    /// last cacheable result inserted per query and when
    pub entries: BTreeMap<usize, Entry>,
    /// entries removed by clear / clear_query (a hit on them is not judged by the statement,
    /// it is only reported as an observation)
    pub ghosts: BTreeMap<usize, Entry>,
    /// TTLs reported by the last hit since the last insert for the query ("never increases
    /// between refreshes")
    pub last_report: BTreeMap<usize, Vec<u32>>,
}

impl Model {
    pub fn new(cfg: Config) -> Self {
        Model { cfg, now_ms: 0, entries: BTreeMap::new(), ghosts: BTreeMap::new(), last_report: BTreeMap::new() }
    }
    pub fn advance(&mut self, dt_ms: u64) {
        self.now_ms += dt_ms;
    }
    pub fn insert(&mut self, query: usize, result: usize, stored: &Stored) {
        if matches!(stored, Stored::Transient) {
            return; // never cached; whatever was there before stays as it was
        }
        self.entries.insert(query, Entry { result, inserted_ms: self.now_ms });
        self.ghosts.remove(&query);
        self.last_report.remove(&query);
    }
    pub fn clear(&mut self) {
        let e = std::mem::take(&mut self.entries);
        self.ghosts.extend(e);
    }
    pub fn clear_query(&mut self, query: usize) {
        if let Some(e) = self.entries.remove(&query) {
            self.ghosts.insert(query, e);
        }
    }

    /// Judge the result of `get(query)` at `at_ms >= now_ms` (a look-ahead probe does not move
    /// the model clock). `qtype` is the query's type code, `stored(i)` the i-th result of the
    /// caller's alphabet. `track` = remember the reported TTLs for the monotonicity clause.
    pub fn judge_get<'a>(
        &mut self,
        query: usize,
        qtype: u16,
        at_ms: u64,
        obs: &Observation,
        stored: &dyn Fn(usize) -> &'a Stored,
        track: bool,
    ) -> Verdict {
        let (entry, after_clear) = match (self.entries.get(&query), self.ghosts.get(&query)) {
            (Some(e), _) => (Some(e.clone()), false),
            (None, Some(g)) => (Some(g.clone()), true),
            (None, None) => (None, false),
        };
        // age relation of the model's entry
        let (held, live, age_vs_l) = match &entry {
            Some(e) if !after_clear => {
                let age = at_ms - e.inserted_ms;
                match lifetime_secs(&self.cfg, qtype, stored(e.result)) {
                    Some(l) => (true, age <= l * 1000, (age.cmp(&(l * 1000)) as i8)),
                    None => (true, true, 2),
                }
            }
            _ => (false, false, 2),
        };
        let (obs_id, obs_kind) = match obs {
            Observation::Miss => return Verdict::Ok { held, live, hit: false, age_vs_l, after_clear: false },
            Observation::OtherError => {
                return Verdict::Violation(
                    "transient-error-returned".into(),
                    "get returned an error that is not a negative answer".into(),
                )
            }
            Observation::Positive { id, .. } => (*id, "positive"),
            Observation::Negative { id, .. } => (*id, "negative"),
        };
        let Some(e) = entry else {
            return Verdict::Violation(
                format!("hit-without-insert:{obs_kind}"),
                "get returned an entry for a query for which nothing cacheable was inserted".into(),
            );
        };
        if obs_id != Some(e.result) {
            return Verdict::Violation(
                format!("not-last-inserted:{obs_kind}"),
                format!("get returned result {obs_id:?}, the last cacheable insert for the query was result {}", e.result),
            );
        }
        let st = stored(e.result);
        let age = at_ms - e.inserted_ms;
        if let Some(l) = lifetime_secs(&self.cfg, qtype, st) {
            if age > l * 1000 {
                return Verdict::Violation(
                    format!("served-after-expiry:{obs_kind}"),
                    format!("entry returned {age} ms after its insertion, L = {l} s"),
                );
            }
        }
        let reported: Vec<u32> = match (st, obs) {
            (Stored::Positive { records }, Observation::Positive { ttls, .. }) => {
                let want = expected_positive_ttls(&self.cfg, records, age);
                if let Some(v) = ttl_mismatch("positive", &want, ttls) {
                    return v;
                }
                ttls.clone()
            }
            (Stored::Negative { negative_ttl, embedded }, Observation::Negative { negative_ttl: got_n, embedded: got_e, .. }) => {
                let (want_n, want_e) = expected_negative_ttls(*negative_ttl, embedded, age);
                let mut want = want_e.clone();
                let mut got = got_e.clone();
                // the negative TTL itself is compared like the embedded ones (presence must agree)
                if want_n.is_some() != got_n.is_some() {
                    return Verdict::Violation(
                        "ttl-mismatch:negative:presence".into(),
                        format!("negative_ttl presence changed: stored {negative_ttl:?}, reported {got_n:?}"),
                    );
                }
                want.push(want_n.unwrap_or(0));
                got.push(got_n.unwrap_or(0));
                if let Some(v) = ttl_mismatch("negative", &want, &got) {
                    return v;
                }
                got
            }
            _ => {
                return Verdict::Violation(
                    format!("not-last-inserted:{obs_kind}"),
                    "kind of the returned entry differs from the inserted one".into(),
                )
            }
        };
        if !after_clear {
            if let Some(prev) = self.last_report.get(&query) {
                if prev.len() == reported.len() && prev.iter().zip(reported.iter()).any(|(p, r)| r > p) {
                    return Verdict::Violation(
                        format!("ttl-increased:{obs_kind}"),
                        format!("reported TTLs {reported:?} after {prev:?} without a refresh in between"),
                    );
                }
            }
            if track {
                self.last_report.insert(query, reported);
            }
        }
        Verdict::Ok { held, live, hit: true, age_vs_l, after_clear }
    }
}

fn ttl_mismatch(kind: &str, want: &[u32], got: &[u32]) -> Option<Verdict> {
    if want.len() != got.len() {
        return Some(Verdict::Violation(
            format!("ttl-mismatch:{kind}:record-count"),
            format!("expected {} TTL-bearing fields, got {}", want.len(), got.len()),
        ));
    }
    let high = want.iter().zip(got.iter()).any(|(w, g)| g > w);
    let low = want.iter().zip(got.iter()).any(|(w, g)| g < w);
    if high || low {
        let dir = match (high, low) {
            (true, false) => "too-high",
            (false, true) => "too-low",
            _ => "mixed",
        };
        return Some(Verdict::Violation(
            format!("ttl-mismatch:{kind}:{dir}"),
            format!("reported TTLs {got:?}, expected (clamped stored TTL - whole seconds elapsed) {want:?}"),
        ));
    }
    None
}

/// Self-test of the model on hand-computed values taken from the statement's wording and from
/// the worked example of the design spike (CNAME 5 + A 1, default bounds [2,10], CNAME min 50).
pub fn self_test() -> Result<(), String> {
    let cfg = Config {
        default: Bounds { pos_min: Some(2), pos_max: Some(10), ..Default::default() },
        by_type: vec![(TYPE_CNAME, Bounds { pos_min: Some(50), ..Default::default() })],
    };
    let st = Stored::Positive { records: vec![(TYPE_CNAME, 5), (1, 1)] };
    // CNAME -> 50 (own bounds), A -> 2 (default bounds); smallest 2; clamped to [2,10] -> 2
    if lifetime_secs(&cfg, 1, &st) != Some(2) {
        return Err("lifetime of CNAME5+A1 under [2,10]/CNAME>=50".into());
    }
    if expected_positive_ttls(&cfg, &[(TYPE_CNAME, 5), (1, 1)], 1999) != vec![49, 1] {
        return Err("countdown at 1999 ms".into());
    }
    if expected_positive_ttls(&cfg, &[(TYPE_CNAME, 5), (1, 1)], 2000) != vec![48, 0] {
        return Err("countdown at 2000 ms".into());
    }
    let none = Config::default();
    if lifetime_secs(&none, 1, &Stored::Positive { records: vec![(1, 1), (1, 2)] }) != Some(1) {
        return Err("smallest of two".into());
    }
    if lifetime_secs(&none, 1, &Stored::Positive { records: vec![(15, 7)] }).is_some() {
        return Err("no record of the query type => no L".into());
    }
    let neg = Config { default: Bounds { neg_min: Some(2), neg_max: Some(60), ..Default::default() }, by_type: vec![] };
    let n = |t| Stored::Negative { negative_ttl: t, embedded: vec![] };
    if lifetime_secs(&neg, 1, &n(Some(1))) != Some(2)
        || lifetime_secs(&neg, 1, &n(Some(62))) != Some(60)
        || lifetime_secs(&neg, 1, &n(Some(3))) != Some(3)
        || lifetime_secs(&neg, 1, &n(None)) != Some(2)
    {
        return Err("negative lifetime".into());
    }
    if counted_down(0, 0) != 0 || counted_down(5, 5999) != 0 || counted_down(5, 4999) != 1 {
        return Err("counted_down".into());
    }
    // acceptance: exactly at L is allowed, 1 ms later is not
    let mut m = Model::new(none.clone());
    let alpha = [Stored::Positive { records: vec![(1, 2)] }];
    m.insert(0, 0, &alpha[0]);
    let at = |m: &mut Model, ms: u64, ttl: u32| {
        m.judge_get(0, 1, ms, &Observation::Positive { id: Some(0), ttls: vec![ttl] }, &|i| &alpha[i], false)
    };
    if !matches!(at(&mut m, 2000, 0), Verdict::Ok { hit: true, age_vs_l: 0, .. }) {
        return Err("hit exactly at L must be accepted".into());
    }
    if !matches!(at(&mut m, 2001, 0), Verdict::Violation(..)) {
        return Err("hit after L must be rejected".into());
    }
    if !matches!(at(&mut m, 1000, 2), Verdict::Violation(..)) {
        return Err("TTL not counted down must be rejected".into());
    }
    Ok(())
}
