//! vref::frame — two-byte length framing of DNS messages over a byte stream (RFC 1035 4.2.2:
//! "The message is prefixed with a two byte length field which gives the message length,
//! excluding the two byte length field"), as a reference for property C17. No hickory code.

/// The wire image of a sequence of messages: len16(m1) m1 len16(m2) m2 ...
pub fn frame(msgs: &[Vec<u8>]) -> Vec<u8> {
    let mut out = Vec::with_capacity(msgs.iter().map(|m| m.len() + 2).sum());
    for m in msgs {
        assert!(m.len() <= 0xffff, "not a DNS message over TCP");
        out.push((m.len() >> 8) as u8);
        out.push((m.len() & 0xff) as u8);
        out.extend_from_slice(m);
    }
    out
}

/// Where a delivered prefix of the byte stream ends.
#[derive(Clone, Debug, PartialEq, Eq)]
pub enum Pos {
    /// exactly between two frames (or at the very start)
    Boundary,
    /// inside the two-byte length prefix (1 byte of it delivered)
    InLength,
    /// inside a body: `have` of `need` bytes delivered (have < need)
    InBody { need: usize, have: usize },
    /// a zero-length frame was announced at byte offset `at`: not a message; the statement lets
    /// the stream end with an error there, nothing after it is judged
    ZeroFrame { at: usize },
}

/// Body ranges (start, length) of the complete frames in a delivered prefix and the position the
/// prefix ends at.
pub fn frames(bytes: &[u8]) -> (Vec<(usize, usize)>, Pos) {
    let mut out = vec![];
    let mut p = 0usize;
    loop {
        let rest = bytes.len() - p;
        if rest == 0 {
            return (out, Pos::Boundary);
        }
        if rest == 1 {
            return (out, Pos::InLength);
        }
        let need = ((bytes[p] as usize) << 8) | bytes[p + 1] as usize;
        if need == 0 {
            return (out, Pos::ZeroFrame { at: p });
        }
        let have = rest - 2;
        if have < need {
            return (out, Pos::InBody { need, have });
        }
        out.push((p + 2, need));
        p += 2 + need;
    }
}

/// Split a delivered prefix into the complete messages it contains and the position it ends at.
pub fn parse_prefix(bytes: &[u8]) -> (Vec<Vec<u8>>, Pos) {
    let (fr, pos) = frames(bytes);
    (fr.into_iter().map(|(s, n)| bytes[s..s + n].to_vec()).collect(), pos)
}

/// What the reader must report when the connection is closed after exactly `bytes`.
#[derive(Clone, Copy, Debug, PartialEq, Eq)]
pub enum AtEof {
    /// closed between messages: the stream ends, no error
    CleanEnd,
    /// closed inside a length prefix or a body: an error
    Error,
    /// after a zero-length frame: not judged
    Unjudged,
}

pub fn at_eof(bytes: &[u8]) -> AtEof {
    match parse_prefix(bytes).1 {
        Pos::Boundary => AtEof::CleanEnd,
        Pos::InLength | Pos::InBody { .. } => AtEof::Error,
        Pos::ZeroFrame { .. } => AtEof::Unjudged,
    }
}

/// Self-test on hand-written images.
pub fn self_test() -> Result<(), String> {
    let a = vec![0xaa];
    let b = vec![1u8; 256];
    let img = frame(&[a.clone(), b.clone()]);
    if img.len() != 3 + 258 || img[..3] != [0, 1, 0xaa] || img[3..5] != [1, 0] {
        return Err("frame image".into());
    }
    if parse_prefix(&img) != (vec![a.clone(), b.clone()], Pos::Boundary) {
        return Err("parse whole".into());
    }
    if parse_prefix(&img[..1]) != (vec![], Pos::InLength) || parse_prefix(&img[..2]).1 != (Pos::InBody { need: 1, have: 0 }) {
        return Err("parse inside first".into());
    }
    if parse_prefix(&img[..4]) != (vec![a.clone()], Pos::InLength) {
        return Err("parse inside second length".into());
    }
    if parse_prefix(&img[..260]).1 != (Pos::InBody { need: 256, have: 255 }) {
        return Err("parse inside second body".into());
    }
    if at_eof(&img[..3]) != AtEof::CleanEnd || at_eof(&img[..4]) != AtEof::Error || at_eof(&img[..100]) != AtEof::Error || at_eof(&[]) != AtEof::CleanEnd {
        return Err("at_eof".into());
    }
    if parse_prefix(&[0, 1, 7, 0, 0, 0, 1, 9]) != (vec![vec![7]], Pos::ZeroFrame { at: 3 }) {
        return Err("zero frame".into());
    }
    Ok(())
}
