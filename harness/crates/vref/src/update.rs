//! Reference model of DNS UPDATE processing, written from the text and the pseudocode of
//! RFC 2136 sections 3.2 (prerequisites), 3.4.1 (prescan), 3.4.2 (update) and the serial number
//! arithmetic of RFC 1982. No hickory code is used: the model reads the raw UPDATE message with
//! the independent wire walker (`crate::wire`) and works on its own RR representation.
//!
//! Where the RFC does not fix one answer the model returns every acceptable answer:
//!  * several checks of 3.2 / 3.4.1 may apply to one message; the RFC prose gives no precedence
//!    between RRs, so `Verdict::rcodes` is the SET of response codes some applicable check yields;
//!  * the prose of 3.4.2.2 / 3.4.2.4 and the pseudocode of 3.4.2.7 disagree in three places
//!    (SOA add with an EQUAL serial; "delete the only NS RR" / "delete SOA" at a name that is not
//!    the zone apex) and RFC 1982 leaves the comparison of serials 2^31 apart undefined; at these
//!    points the model forks and `Verdict::zones` lists every resulting zone.

use crate::wire::{self, Labels};
use std::collections::{BTreeMap, BTreeSet};

pub const CLASS_IN: u16 = 1;
pub const CLASS_CH: u16 = 3;
pub const CLASS_NONE: u16 = 254;
pub const CLASS_ANY: u16 = 255;

pub const T_A: u16 = 1;
pub const T_NS: u16 = 2;
pub const T_CNAME: u16 = 5;
pub const T_SOA: u16 = 6;
pub const T_WKS: u16 = 11;
pub const T_TXT: u16 = 16;
pub const T_IXFR: u16 = 251;
pub const T_AXFR: u16 = 252;
pub const T_MAILB: u16 = 253;
pub const T_MAILA: u16 = 254;
pub const T_ANY: u16 = 255;

pub const NOERROR: u8 = 0;
pub const FORMERR: u8 = 1;
pub const SERVFAIL: u8 = 2;
pub const NXDOMAIN: u8 = 3;
pub const NOTIMP: u8 = 4;
pub const REFUSED: u8 = 5;
pub const YXDOMAIN: u8 = 6;
pub const YXRRSET: u8 = 7;
pub const NXRRSET: u8 = 8;
pub const NOTAUTH: u8 = 9;
pub const NOTZONE: u8 = 10;

pub fn rcode_name(r: u8) -> &'static str {
    match r {
        0 => "NOERROR",
        1 => "FORMERR",
        2 => "SERVFAIL",
        3 => "NXDOMAIN",
        4 => "NOTIMP",
        5 => "REFUSED",
        6 => "YXDOMAIN",
        7 => "YXRRSET",
        8 => "NXRRSET",
        9 => "NOTAUTH",
        10 => "NOTZONE",
        _ => "RCODE?",
    }
}

/// One resource record. `name` is lower-cased; `rdata` is the canonical RDATA: embedded domain
/// names (NS, CNAME, SOA) uncompressed and lower-cased, everything else as on the wire.
#[derive(Clone, Debug, PartialEq, Eq, PartialOrd, Ord, Hash)]
pub struct Rr {
    pub name: Labels,
    pub rtype: u16,
    pub class: u16,
    pub ttl: u32,
    pub rdata: Vec<u8>,
}

impl Rr {
    pub fn new(name: &str, rtype: u16, class: u16, ttl: u32, rdata: Vec<u8>) -> Rr {
        Rr { name: name_from_str(name), rtype, class, ttl, rdata }
    }
}

/// "a.z." -> [a, z] (lower-cased; no escapes: the universes of the checks are plain).
pub fn name_from_str(s: &str) -> Labels {
    s.split('.').filter(|l| !l.is_empty()).map(|l| l.to_ascii_lowercase().into_bytes()).collect()
}

pub fn name_wire(s: &str) -> Vec<u8> {
    let mut v = vec![];
    wire::emit_name(&name_from_str(s), &mut v);
    v
}

pub fn soa_rdata(mname: &str, rname: &str, serial: u32, refresh: u32, retry: u32, expire: u32, minimum: u32) -> Vec<u8> {
    let mut v = name_wire(mname);
    v.extend(name_wire(rname));
    for x in [serial, refresh, retry, expire, minimum] {
        v.extend_from_slice(&x.to_be_bytes());
    }
    v
}

/// Offset of the SERIAL field in a canonical SOA RDATA.
fn soa_serial_offset(rdata: &[u8]) -> Option<usize> {
    let (_, p) = wire::read_name(rdata, 0).ok()?;
    let (_, p) = wire::read_name(rdata, p).ok()?;
    if p + 20 == rdata.len() {
        Some(p)
    } else {
        None
    }
}

pub fn soa_serial(rdata: &[u8]) -> Option<u32> {
    let p = soa_serial_offset(rdata)?;
    Some(u32::from_be_bytes([rdata[p], rdata[p + 1], rdata[p + 2], rdata[p + 3]]))
}

/// The SOA RDATA with the SERIAL field zeroed (the serial is judged by its own clause).
pub fn soa_without_serial(rdata: &[u8]) -> Vec<u8> {
    let mut v = rdata.to_vec();
    if let Some(p) = soa_serial_offset(rdata) {
        v[p..p + 4].copy_from_slice(&[0; 4]);
    }
    v
}

// ------------------------------------------------------------------------------------------
// RFC 1982 serial number arithmetic, SERIAL_BITS = 32

#[derive(Clone, Copy, Debug, PartialEq, Eq)]
pub enum SerialOrd {
    Equal,
    Less,
    Greater,
    /// RFC 1982 section 3.2: "i1 and i2 differ by 2^(SERIAL_BITS-1)": neither less nor greater
    Undefined,
}

/// Compare i1 with i2 per RFC 1982 section 3.2.
pub fn serial_cmp(i1: u32, i2: u32) -> SerialOrd {
    const HALF: u64 = 1 << 31;
    let (a, b) = (i1 as u64, i2 as u64);
    if a == b {
        SerialOrd::Equal
    } else if (a < b && b - a < HALF) || (a > b && a - b > HALF) {
        SerialOrd::Less
    } else if (a < b && b - a > HALF) || (a > b && a - b < HALF) {
        SerialOrd::Greater
    } else {
        SerialOrd::Undefined
    }
}

/// "s2 is strictly greater than s1" in RFC 1982 arithmetic.
pub fn serial_advanced(s1: u32, s2: u32) -> bool {
    serial_cmp(s2, s1) == SerialOrd::Greater
}

// ------------------------------------------------------------------------------------------
// zone

#[derive(Clone, Debug, PartialEq, Eq)]
pub struct Zone {
    pub origin: Labels,
    pub class: u16,
    /// the RRs of the zone; at most one RR per (name, type, rdata) (RFC 2136 1.1.1: TTL is not
    /// part of RR equality)
    pub rrs: Vec<Rr>,
}

impl Zone {
    pub fn new(origin: &str, class: u16, rrs: Vec<Rr>) -> Zone {
        Zone { origin: name_from_str(origin), class, rrs }
    }
    pub fn name_in_use(&self, name: &Labels) -> bool {
        self.rrs.iter().any(|r| &r.name == name)
    }
    pub fn rrset(&self, name: &Labels, rtype: u16) -> Vec<&Rr> {
        self.rrs.iter().filter(|r| &r.name == name && r.rtype == rtype).collect()
    }
    pub fn has_rrset(&self, name: &Labels, rtype: u16) -> bool {
        self.rrs.iter().any(|r| &r.name == name && r.rtype == rtype)
    }
    /// `name` is at or below the zone apex
    pub fn contains_name(&self, name: &Labels) -> bool {
        name.len() >= self.origin.len() && name[name.len() - self.origin.len()..] == self.origin[..]
    }
    pub fn soa(&self) -> Option<&Rr> {
        self.rrs.iter().find(|r| r.name == self.origin && r.rtype == T_SOA)
    }
    pub fn serial(&self) -> Option<u32> {
        self.soa().and_then(|r| soa_serial(&r.rdata))
    }
    /// The zone content with the apex SOA serial masked, as a sorted set (the serial is judged
    /// by its own clause).
    pub fn content(&self) -> BTreeSet<Rr> {
        self.rrs
            .iter()
            .map(|r| {
                let mut r = r.clone();
                if r.rtype == T_SOA {
                    r.rdata = soa_without_serial(&r.rdata);
                }
                r
            })
            .collect()
    }
}

/// The zone invariants named by the property statement. Returns the violated clauses.
pub fn invariants(zone: &Zone) -> Vec<&'static str> {
    let mut out = vec![];
    let soas = zone.rrs.iter().filter(|r| r.rtype == T_SOA).count();
    let apex_soas = zone.rrs.iter().filter(|r| r.rtype == T_SOA && r.name == zone.origin).count();
    if soas != 1 || apex_soas != 1 {
        out.push(if soas == 0 {
            "no-soa"
        } else if apex_soas == 1 {
            "extra-soa"
        } else {
            "soa-count"
        });
    }
    if !zone.rrs.iter().any(|r| r.rtype == T_NS && r.name == zone.origin) {
        out.push("no-apex-ns");
    }
    let mut cname_names: BTreeSet<&Labels> = BTreeSet::new();
    for r in &zone.rrs {
        if r.rtype == T_CNAME {
            cname_names.insert(&r.name);
        }
    }
    for n in cname_names {
        let cnames = zone.rrs.iter().filter(|r| &r.name == n && r.rtype == T_CNAME).count();
        // RRSIG(46) / NSEC(47) / NSEC3 may accompany a CNAME (RFC 4035 2.5)
        let others = zone.rrs.iter().filter(|r| &r.name == n && r.rtype != T_CNAME && r.rtype != 46 && r.rtype != 47).count();
        if others > 0 {
            out.push("cname-and-other-data");
            break;
        }
        if cnames > 1 {
            out.push("multiple-cnames");
            break;
        }
    }
    out
}

// ------------------------------------------------------------------------------------------
// message

#[derive(Clone, Debug, PartialEq, Eq)]
pub struct Update {
    pub zname: Labels,
    pub ztype: u16,
    pub zclass: u16,
    pub prereqs: Vec<Rr>,
    pub updates: Vec<Rr>,
}

/// Canonical RDATA of a record inside a message: names decompressed and lower-cased for the
/// types whose RDATA embeds names in the universes of the checks.
pub fn canonical_rdata(msg: &[u8], rtype: u16, start: usize, end: usize) -> Result<Vec<u8>, String> {
    let raw = &msg[start..end];
    if raw.is_empty() {
        return Ok(vec![]);
    }
    match rtype {
        T_NS | T_CNAME | 12 /* PTR */ => {
            let (n, p) = wire::read_name(msg, start).map_err(|e| format!("{e:?}"))?;
            if p != end {
                return Err("name does not fill the RDATA".into());
            }
            let mut v = vec![];
            wire::emit_name(&wire::lower(&n), &mut v);
            Ok(v)
        }
        T_SOA => {
            let (m, p) = wire::read_name(msg, start).map_err(|e| format!("{e:?}"))?;
            let (r, p) = wire::read_name(msg, p).map_err(|e| format!("{e:?}"))?;
            if p + 20 != end {
                return Err("SOA RDATA length".into());
            }
            let mut v = vec![];
            wire::emit_name(&wire::lower(&m), &mut v);
            wire::emit_name(&wire::lower(&r), &mut v);
            v.extend_from_slice(&msg[p..end]);
            Ok(v)
        }
        _ => Ok(raw.to_vec()),
    }
}

/// Parse the raw bytes of an UPDATE request (RFC 2136 section 2): zone section = question,
/// prerequisite section = answer, update section = authority. The additional section (TSIG) is
/// not part of the update semantics.
pub fn parse_update(msg: &[u8]) -> Result<Update, String> {
    let w = wire::walk(msg).map_err(|e| format!("{e:?}"))?;
    if w.header.opcode() != 5 {
        return Err("not an UPDATE".into());
    }
    if w.questions.len() != 1 {
        return Err("zone section must hold exactly one entry".into());
    }
    let conv = |recs: &[wire::RawRecord]| -> Result<Vec<Rr>, String> {
        recs.iter()
            .map(|r| {
                Ok(Rr {
                    name: wire::lower(&r.name),
                    rtype: r.rtype,
                    class: r.class,
                    ttl: r.ttl,
                    rdata: canonical_rdata(msg, r.rtype, r.rdata_start, r.rdata_end)?,
                })
            })
            .collect()
    };
    Ok(Update {
        zname: wire::lower(&w.questions[0].name),
        ztype: w.questions[0].qtype,
        zclass: w.questions[0].qclass,
        prereqs: conv(&w.answers)?,
        updates: conv(&w.authorities)?,
    })
}

// ------------------------------------------------------------------------------------------
// processing

/// One acceptable result of applying the update section.
#[derive(Clone, Debug, PartialEq, Eq)]
pub struct Applied {
    pub zone: Zone,
    /// the apex SOA RR was replaced by an Update RR (its serial then comes from the update)
    pub soa_replaced: bool,
    /// names of the ambiguity forks taken to get here (empty = the unambiguous reading)
    pub forks: Vec<&'static str>,
}

#[derive(Clone, Debug)]
pub struct Verdict {
    /// acceptable response codes: `{NOERROR}` iff the message is to be applied, otherwise every
    /// error code that some applicable check of 3.2 / 3.4.1 produces
    pub rcodes: BTreeSet<u8>,
    /// which stage rejected ("prereq", "prescan", "both") or "" when accepted
    pub stage: &'static str,
    /// acceptable resulting zones when accepted (one element unless an ambiguity fork applied)
    pub zones: Vec<Applied>,
}

impl Verdict {
    pub fn accepted(&self) -> bool {
        self.rcodes.contains(&NOERROR)
    }
}

fn is_meta_query_type(t: u16) -> bool {
    // "ANY, AXFR, MAILA, MAILB, or any other QUERY metatype": the Q-type range 251..=255 plus
    // the meta-RR types OPT(41), TKEY(249), TSIG(250)
    matches!(t, 251..=255 | 41 | 249 | 250)
}

/// 3.2: every error some prerequisite check yields on `zone` (empty = all satisfied).
pub fn prerequisite_errors(zone: &Zone, u: &Update) -> BTreeSet<u8> {
    let mut errs = BTreeSet::new();
    let mut temp: BTreeMap<(Labels, u16), BTreeSet<Vec<u8>>> = BTreeMap::new();
    for rr in &u.prereqs {
        //      if (rr.ttl != 0) return (FORMERR)
        if rr.ttl != 0 {
            errs.insert(FORMERR);
        }
        //      if (zone_of(rr.name) != ZNAME) return (NOTZONE);
        if !zone.contains_name(&rr.name) {
            errs.insert(NOTZONE);
        }
        if rr.class == CLASS_ANY {
            if !rr.rdata.is_empty() {
                errs.insert(FORMERR);
            }
            if rr.rtype == T_ANY {
                if !zone.name_in_use(&rr.name) {
                    errs.insert(NXDOMAIN);
                }
            } else if !zone.has_rrset(&rr.name, rr.rtype) {
                errs.insert(NXRRSET);
            }
        } else if rr.class == CLASS_NONE {
            if !rr.rdata.is_empty() {
                errs.insert(FORMERR);
            }
            if rr.rtype == T_ANY {
                if zone.name_in_use(&rr.name) {
                    errs.insert(YXDOMAIN);
                }
            } else if zone.has_rrset(&rr.name, rr.rtype) {
                errs.insert(YXRRSET);
            }
        } else if rr.class == zone.class {
            temp.entry((rr.name.clone(), rr.rtype)).or_default().insert(rr.rdata.clone());
        } else {
            errs.insert(FORMERR);
        }
    }
    //      for rrset in temp: if (zone_rrset<rrset.name, rrset.type> != rrset) return (NXRRSET)
    for ((name, rtype), want) in &temp {
        let have: BTreeSet<Vec<u8>> = zone.rrset(name, *rtype).into_iter().map(|r| r.rdata.clone()).collect();
        if &have != want {
            errs.insert(NXRRSET);
        }
    }
    errs
}

/// 3.4.1: every error some prescan check yields (empty = the update section is well-formed).
pub fn prescan_errors(zone: &Zone, u: &Update) -> BTreeSet<u8> {
    let mut errs = BTreeSet::new();
    for rr in &u.updates {
        if !zone.contains_name(&rr.name) {
            errs.insert(NOTZONE);
        }
        if rr.class == zone.class {
            if is_meta_query_type(rr.rtype) {
                errs.insert(FORMERR);
            }
        } else if rr.class == CLASS_ANY {
            if rr.ttl != 0 || !rr.rdata.is_empty() || (is_meta_query_type(rr.rtype) && rr.rtype != T_ANY) {
                errs.insert(FORMERR);
            }
        } else if rr.class == CLASS_NONE {
            if rr.ttl != 0 || is_meta_query_type(rr.rtype) {
                errs.insert(FORMERR);
            }
        } else {
            errs.insert(FORMERR);
        }
    }
    errs
}

fn wks_key(rdata: &[u8]) -> Option<&[u8]> {
    // WKS: ADDRESS(4) PROTOCOL(1) BITMAP
    rdata.get(..5)
}

/// 3.4.2.7 applied to one Update RR; pushes every acceptable successor of `st` onto `out`.
fn apply_one(st: &Applied, rr: &Rr, out: &mut Vec<Applied>) {
    let zone = &st.zone;
    let apex = rr.name == zone.origin;
    if rr.class == zone.class {
        // ---- add
        if rr.rdata.is_empty() {
            // a zone-class RR with RDLENGTH 0: the prescan (3.4.1.2) does not forbid it, 3.4.2.2 "adds"
            // it, but it is no RR of its type - ignoring it and storing it as written are both taken
            // (the zone invariants are judged whichever the server does)
            let mut ign = st.clone();
            ign.forks.push("zone-class-rr-with-empty-rdata:ignored");
            out.push(ign);
        }
        if rr.rtype == T_CNAME {
            if zone.rrs.iter().any(|z| z.name == rr.name && z.rtype != T_CNAME) {
                out.push(st.clone());
                return;
            }
        } else if zone.has_rrset(&rr.name, T_CNAME) {
            out.push(st.clone());
            return;
        }
        if rr.rtype == T_SOA {
            let cur = zone.rrset(&rr.name, T_SOA);
            let Some(zsoa) = cur.first() else {
                // no zone SOA at this name: ignored
                out.push(st.clone());
                return;
            };
            let (Some(zs), Some(ns)) = (soa_serial(&zsoa.rdata), soa_serial(&rr.rdata)) else {
                out.push(st.clone());
                return;
            };
            // prose: ignored if the new serial is lower than or EQUAL to the zone's;
            // pseudocode: ignored only if the zone's serial is greater
            let replace = |fork: Option<&'static str>, out: &mut Vec<Applied>| {
                let mut n = st.clone();
                for z in n.zone.rrs.iter_mut() {
                    if z.name == rr.name && z.rtype == T_SOA {
                        *z = rr.clone();
                    }
                }
                n.soa_replaced = n.soa_replaced || apex;
                if let Some(f) = fork {
                    n.forks.push(f);
                }
                out.push(n);
            };
            match serial_cmp(ns, zs) {
                SerialOrd::Greater => replace(None, out),
                SerialOrd::Less => out.push(st.clone()),
                SerialOrd::Equal => {
                    out.push(st.clone());
                    replace(Some("soa-add-equal-serial:pseudocode-replaces"), out);
                }
                SerialOrd::Undefined => {
                    out.push(st.clone());
                    replace(Some("soa-add-serial-2^31-apart:undefined"), out);
                }
            }
            return;
        }
        let mut n = st.clone();
        let mut replaced = false;
        for z in n.zone.rrs.iter_mut() {
            if z.name == rr.name && z.rtype == rr.rtype {
                let same = rr.rtype == T_CNAME
                    || (rr.rtype == T_WKS && wks_key(&rr.rdata).is_some() && wks_key(&rr.rdata) == wks_key(&z.rdata))
                    || rr.rdata == z.rdata;
                if same {
                    *z = rr.clone();
                    replaced = true;
                    break;
                }
            }
        }
        if !replaced {
            n.zone.rrs.push(rr.clone());
        }
        out.push(n);
    } else if rr.class == CLASS_ANY {
        // ---- delete RRset / delete name
        let mut n = st.clone();
        if rr.rtype == T_ANY {
            if apex {
                n.zone.rrs.retain(|z| z.name != rr.name || z.rtype == T_SOA || z.rtype == T_NS);
            } else {
                n.zone.rrs.retain(|z| z.name != rr.name);
            }
        } else if apex && (rr.rtype == T_SOA || rr.rtype == T_NS) {
            // next [rr]
        } else {
            n.zone.rrs.retain(|z| !(z.name == rr.name && z.rtype == rr.rtype));
        }
        out.push(n);
    } else if rr.class == CLASS_NONE {
        // ---- delete an RR
        let del = |out: &mut Vec<Applied>, fork: Option<&'static str>| {
            let mut n = st.clone();
            n.zone.rrs.retain(|z| !(z.name == rr.name && z.rtype == rr.rtype && z.rdata == rr.rdata));
            if let Some(f) = fork {
                n.forks.push(f);
            }
            out.push(n);
        };
        if rr.rtype == T_SOA {
            // pseudocode: never; prose: never at the apex
            out.push(st.clone());
            if !apex && zone.rrs.iter().any(|z| z.name == rr.name && z.rtype == T_SOA && z.rdata == rr.rdata) {
                del(out, Some("delete-soa-rr-off-apex:prose-deletes"));
            }
            return;
        }
        if rr.rtype == T_NS {
            let set = zone.rrset(&rr.name, T_NS);
            if set.len() == 1 && set[0].rdata == rr.rdata {
                // the only NS RR of the RRset: pseudocode skips at every name, prose only at the apex
                out.push(st.clone());
                if !apex {
                    del(out, Some("delete-only-ns-rr-off-apex:prose-deletes"));
                }
                return;
            }
        }
        del(out, None);
    } else {
        // cannot happen after the prescan
        out.push(st.clone());
    }
}

/// Process one UPDATE message against `zone`.
pub fn process(zone: &Zone, u: &Update) -> Verdict {
    let pre = prerequisite_errors(zone, u);
    let scan = prescan_errors(zone, u);
    if !pre.is_empty() || !scan.is_empty() {
        let stage = match (pre.is_empty(), scan.is_empty()) {
            (false, true) => "prereq",
            (true, false) => "prescan",
            _ => "both",
        };
        return Verdict { rcodes: pre.union(&scan).cloned().collect(), stage, zones: vec![] };
    }
    let mut states = vec![Applied { zone: zone.clone(), soa_replaced: false, forks: vec![] }];
    for rr in &u.updates {
        let mut next = vec![];
        for st in &states {
            apply_one(st, rr, &mut next);
        }
        // dedup by content + flags (forks that lead to the same zone collapse)
        let mut seen: Vec<Applied> = vec![];
        for n in next {
            if !seen.iter().any(|s| s.zone.rrs == n.zone.rrs && s.soa_replaced == n.soa_replaced) {
                seen.push(n);
            }
        }
        states = seen;
    }
    Verdict { rcodes: [NOERROR].into_iter().collect(), stage: "", zones: states }
}

#[cfg(test)]
mod tests {
    use super::*;

    #[test]
    fn serial_arith() {
        assert_eq!(serial_cmp(1, 2), SerialOrd::Less);
        assert_eq!(serial_cmp(0, u32::MAX), SerialOrd::Greater);
        assert_eq!(serial_cmp(0, 1 << 31), SerialOrd::Undefined);
        assert_eq!(serial_cmp((1 << 31) - 1, 0), SerialOrd::Greater);
        assert!(serial_advanced(u32::MAX, 0));
        assert!(!serial_advanced(5, 5));
    }
}
