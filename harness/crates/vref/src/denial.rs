//! Reference model for authenticated denial of existence.
//!
//! Two layers, both written from the RFC text and sharing no code with hickory:
//!
//! 1. **Ground truth** ([`truth`]): is a denial *claim* (NXDOMAIN / NODATA / "this answer is the
//!    expansion of wildcard W") TRUE in a concrete published zone (or set of zones: parent and
//!    child)? Evaluated with the reference lookup `vref::zone::step` — a validator may accept a
//!    claim as Secure on the strength of genuine records of the zone only if the claim is true
//!    in that zone. Names at/below a delegation are never deniable by the parent (RFC 6840 4.1,
//!    4.4), except the DS RRset at the delegation point itself; with NSEC3 opt-out an insecure
//!    delegation that is hidden from the chain still EXISTS (RFC 5155 6, 9.2).
//!
//! 2. **Entailment** ([`nsec_proves`], [`nsec3_proves`]): does a given SET of NSEC / NSEC3
//!    records constitute the proof that RFC 4035 5.4 (+ RFC 6840 4.1, 4.3) resp. RFC 5155 8.3-8.8
//!    require for the claim? This is the literal "only if those records entail the claim" of
//!    the property statements. It is cross-checked against layer 1 by the checks on every case
//!    (a record set that "proves" a false claim is a bug of THIS file and stops the run).
//!
//! Plus [`nsec_chain`] / [`nsec3_chain`] (what a correctly signed zone publishes, RFC 4035 2.3,
//! RFC 5155 7.1) and [`nsec3_hash`] (RFC 5155 5), used by the self-tests against the worked
//! examples of RFC 4035 appendix B and RFC 5155 appendix A/B.

use std::collections::BTreeSet;

use crate::zone::{self as z, Name, NoDataKind, Step, Zone};

const T_DNAME: u16 = 39;

#[derive(Clone, Debug, PartialEq, Eq, PartialOrd, Ord, Hash)]
pub enum Claim {
    /// rcode NXDOMAIN, empty answer
    NxDomain,
    /// rcode NOERROR, empty answer
    NoData,
    /// rcode NOERROR, the answer is the RRset (`source`, `rtype`) expanded to the query name
    /// (`rtype` is the query type, or CNAME)
    Wildcard { source: Name, rtype: u16 },
}

impl Claim {
    pub fn tag(&self) -> &'static str {
        match self {
            Claim::NxDomain => "NXDOMAIN",
            Claim::NoData => "NODATA",
            Claim::Wildcard { .. } => "WILDCARD",
        }
    }
}

// ------------------------------------------------------------------------------------------
// layer 1: ground truth

/// The zone of `zones` that is authoritative for (qname, qtype): the deepest zone whose origin
/// is at or above qname; the DS RRset at a zone's origin belongs to the parent zone if the
/// parent is among `zones` (RFC 4035 3.1.4.1).
pub fn authoritative_zone<'a>(zones: &'a [Zone], qname: &Name, qtype: u16) -> Option<&'a Zone> {
    let mut cands: Vec<&Zone> = zones.iter().filter(|zz| qname.at_or_below(&zz.origin)).collect();
    cands.sort_by_key(|zz| std::cmp::Reverse(zz.origin.num_labels()));
    if qtype == z::T_DS && cands.len() > 1 && cands[0].origin == *qname {
        return Some(cands[1]);
    }
    cands.first().copied()
}

/// Ok(()) if the claim is true in the published zone(s), Err(why not) otherwise.
pub fn truth(zones: &[Zone], qname: &Name, qtype: u16, claim: &Claim) -> Result<(), &'static str> {
    let Some(zone) = authoritative_zone(zones, qname, qtype) else { return Err("out-of-zone") };
    let s = z::step(zone, qname, qtype);
    let deleg = |cut: &Name| if cut == qname { "at-delegation" } else { "below-delegation" };
    match claim {
        Claim::NxDomain => match &s {
            Step::NxDomain { .. } => Ok(()),
            Step::OutOfZone => Err("out-of-zone"),
            Step::Referral { cut } => Err(deleg(cut)),
            Step::Data { source, .. } | Step::Cname { source, .. } if source == qname => Err("name-exists"),
            Step::Data { .. } | Step::Cname { .. } => Err("wildcard-matches"),
            Step::NoData(NoDataKind::OtherData) => Err("name-exists"),
            Step::NoData(NoDataKind::Ent) => Err("name-exists-ent"),
            Step::NoData(NoDataKind::Wildcard { .. }) => Err("wildcard-matches"),
            Step::NoData(NoDataKind::WildcardEnt { .. }) => Err("wildcard-ent-matches"),
        },
        Claim::NoData => match &s {
            Step::NoData(_) => Ok(()),
            Step::OutOfZone => Err("out-of-zone"),
            Step::Referral { cut } => Err(deleg(cut)),
            Step::Data { source, .. } if source == qname => Err("has-type"),
            Step::Data { .. } => Err("wildcard-has-type"),
            Step::Cname { source, .. } if source == qname => Err("has-cname"),
            Step::Cname { .. } => Err("wildcard-has-cname"),
            Step::NxDomain { .. } => Err("name-absent-no-wildcard"),
        },
        Claim::Wildcard { source, rtype } => match &s {
            Step::Data { source: src, rtype: t, .. } if src != qname => {
                if src == source && t == rtype {
                    Ok(())
                } else if src != source {
                    Err("other-source-of-synthesis")
                } else {
                    Err("other-type")
                }
            }
            Step::Cname { source: src, .. } if src != qname => {
                if src == source && *rtype == z::T_CNAME {
                    Ok(())
                } else if src != source {
                    Err("other-source-of-synthesis")
                } else {
                    Err("source-has-cname")
                }
            }
            Step::Data { .. } | Step::Cname { .. } | Step::NoData(NoDataKind::OtherData) => Err("name-exists"),
            Step::NoData(NoDataKind::Ent) => Err("name-exists-ent"),
            Step::NoData(NoDataKind::Wildcard { source: src }) | Step::NoData(NoDataKind::WildcardEnt { source: src }) => {
                if src == source {
                    Err("source-lacks-type")
                } else {
                    Err("other-source-of-synthesis")
                }
            }
            Step::NxDomain { .. } => Err("blocked-by-closer-encloser"),
            Step::Referral { cut } => Err(deleg(cut)),
            Step::OutOfZone => Err("out-of-zone"),
        },
    }
}

// ------------------------------------------------------------------------------------------
// what a signed zone publishes

#[derive(Clone, Debug, PartialEq, Eq)]
pub struct NsecRec {
    /// apex of the zone the record belongs to (its RRSIG signer)
    pub zone: Name,
    pub owner: Name,
    pub next: Name,
    pub types: BTreeSet<u16>,
}

#[derive(Clone, Debug, PartialEq, Eq)]
pub struct Nsec3Rec {
    pub zone: Name,
    /// hash in the first label of the owner name
    pub hash: Vec<u8>,
    pub next: Vec<u8>,
    pub types: BTreeSet<u16>,
    pub opt_out: bool,
    pub iterations: u16,
    pub salt: Vec<u8>,
}

/// Owner names for which the zone is authoritative or which are delegation points, with the
/// types a NSEC/NSEC3 bitmap lists there (RFC 4035 2.3: at a delegation only the parent-side
/// types NS, DS; glue and occluded names are skipped).
fn signed_names(zone: &Zone) -> Vec<(Name, BTreeSet<u16>)> {
    let mut v = vec![];
    for (owner, types) in &zone.nodes {
        if !owner.at_or_below(&zone.origin) {
            continue;
        }
        match zone.cut_on_path(owner) {
            None => v.push((owner.clone(), types.keys().copied().collect())),
            Some(cut) if cut == *owner => {
                v.push((owner.clone(), types.keys().copied().filter(|t| *t == z::T_NS || *t == z::T_DS).collect()))
            }
            Some(_) => {}
        }
    }
    v.sort_by(|a, b| a.0.cmp(&b.0));
    v
}

/// The NSEC chain of a correctly signed zone (RFC 4035 2.3, RFC 4034 4, 6.1).
pub fn nsec_chain(zone: &Zone) -> Vec<NsecRec> {
    let names = signed_names(zone);
    let n = names.len();
    (0..n)
        .map(|i| {
            let (owner, types) = &names[i];
            let mut t = types.clone();
            t.insert(z::T_NSEC);
            t.insert(z::T_RRSIG);
            NsecRec { zone: zone.origin.clone(), owner: owner.clone(), next: names[(i + 1) % n].0.clone(), types: t }
        })
        .collect()
}

/// Wire form of a name (lower case), RFC 4034 6.2.
pub fn wire_name(n: &Name) -> Vec<u8> {
    let mut v = vec![];
    for l in &n.0 {
        v.push(l.len() as u8);
        v.extend(l.iter().map(|b| b.to_ascii_lowercase()));
    }
    v.push(0);
    v
}

/// RFC 5155 5: IH(salt, x, 0) = H(x || salt); IH(salt, x, k) = H(IH(salt, x, k-1) || salt), H = SHA-1.
pub fn nsec3_hash(name: &Name, salt: &[u8], iterations: u16) -> Vec<u8> {
    let h = |data: &[u8]| -> Vec<u8> {
        let mut c = ring::digest::Context::new(&ring::digest::SHA1_FOR_LEGACY_USE_ONLY);
        c.update(data);
        c.update(salt);
        c.finish().as_ref().to_vec()
    };
    let mut d = h(&wire_name(name));
    for _ in 0..iterations {
        d = h(&d);
    }
    d
}

/// Base32 with the extended hex alphabet, no padding (RFC 4648 7), lower case.
pub fn base32hex(data: &[u8]) -> String {
    const A: &[u8; 32] = b"0123456789abcdefghijklmnopqrstuv";
    let mut out = String::new();
    let (mut acc, mut bits) = (0u32, 0u32);
    for b in data {
        acc = (acc << 8) | *b as u32;
        bits += 8;
        while bits >= 5 {
            bits -= 5;
            out.push(A[((acc >> bits) & 31) as usize] as char);
        }
    }
    if bits > 0 {
        out.push(A[((acc << (5 - bits)) & 31) as usize] as char);
    }
    out
}

pub fn base32hex_decode(s: &str) -> Option<Vec<u8>> {
    let mut out = vec![];
    let (mut acc, mut bits) = (0u32, 0u32);
    for c in s.bytes() {
        let c = c.to_ascii_lowercase();
        let v = match c {
            b'0'..=b'9' => c - b'0',
            b'a'..=b'v' => c - b'a' + 10,
            _ => return None,
        };
        acc = (acc << 5) | v as u32;
        bits += 5;
        if bits >= 8 {
            bits -= 8;
            out.push(((acc >> bits) & 0xff) as u8);
        }
    }
    Some(out)
}

/// The NSEC3 chain of a correctly signed zone (RFC 5155 7.1): every authoritative owner name,
/// every delegation (unless opt-out is in use and the delegation is insecure) and every empty
/// non-terminal above them.
pub fn nsec3_chain(zone: &Zone, salt: &[u8], iterations: u16, opt_out: bool) -> Vec<Nsec3Rec> {
    let mut names: Vec<(Name, BTreeSet<u16>)> = vec![];
    for (owner, types) in signed_names(zone) {
        let insecure_delegation = zone.is_cut(&owner) && !types.contains(&z::T_DS);
        if opt_out && insecure_delegation {
            continue;
        }
        names.push((owner, types));
    }
    // empty non-terminals
    let mut ents: BTreeSet<Name> = BTreeSet::new();
    for (owner, _) in &names {
        let mut p = owner.parent();
        while p.strictly_below(&zone.origin) {
            if !names.iter().any(|(o, _)| *o == p) {
                ents.insert(p.clone());
            }
            p = p.parent();
        }
    }
    for e in ents {
        names.push((e, BTreeSet::new()));
    }
    let mut hashed: Vec<(Vec<u8>, BTreeSet<u16>)> = names
        .into_iter()
        .map(|(o, mut t)| {
            // RFC 5155 7.1 / RFC 4035 2.2: the RRSIG bit is set iff the name owns a SIGNED RRset; the NS
            // RRset of a delegation is not signed, so an insecure delegation (NS only) has no RRSIG bit
            let insecure_delegation = zone.is_cut(&o) && !t.contains(&z::T_DS);
            if !t.is_empty() && !insecure_delegation {
                t.insert(z::T_RRSIG);
            }
            if o == zone.origin {
                t.insert(z::T_NSEC3PARAM);
            }
            (nsec3_hash(&o, salt, iterations), t)
        })
        .collect();
    hashed.sort();
    let n = hashed.len();
    (0..n)
        .map(|i| Nsec3Rec {
            zone: zone.origin.clone(),
            hash: hashed[i].0.clone(),
            next: hashed[(i + 1) % n].0.clone(),
            types: hashed[i].1.clone(),
            opt_out,
            iterations,
            salt: salt.to_vec(),
        })
        .collect()
}

// ------------------------------------------------------------------------------------------
// reference wire encoders (RFC 4034 4.1, RFC 5155 3.2): an independent producer of the octets

/// RFC 4034 4.1.2 Type Bit Maps: one block (window number, bitmap length 1..32, bitmap) per
/// 256-type window that has a member, windows ascending, no trailing zero octets.
pub fn type_bitmap_wire(types: &BTreeSet<u16>) -> Vec<u8> {
    let mut out = vec![];
    let mut windows: std::collections::BTreeMap<u8, [u8; 32]> = Default::default();
    for t in types {
        let w = windows.entry((t >> 8) as u8).or_insert([0u8; 32]);
        let low = (t & 0xff) as usize;
        w[low / 8] |= 0x80 >> (low % 8);
    }
    for (w, bits) in windows {
        let len = bits.iter().rposition(|b| *b != 0).map(|p| p + 1).unwrap_or(0);
        if len == 0 {
            continue;
        }
        out.push(w);
        out.push(len as u8);
        out.extend_from_slice(&bits[..len]);
    }
    out
}

/// A name in wire form WITHOUT case folding and without compression (labels as given).
pub fn wire_name_raw(labels: &[Vec<u8>]) -> Vec<u8> {
    let mut v = vec![];
    for l in labels {
        v.push(l.len() as u8);
        v.extend_from_slice(l);
    }
    v.push(0);
    v
}

/// NSEC RDATA (RFC 4034 4.1): next domain name (uncompressed, case preserved) + type bit maps.
pub fn nsec_rdata_wire(next_labels: &[Vec<u8>], types: &BTreeSet<u16>) -> Vec<u8> {
    let mut v = wire_name_raw(next_labels);
    v.extend(type_bitmap_wire(types));
    v
}

/// NSEC3 RDATA (RFC 5155 3.2): hash alg, flags, iterations, salt length + salt, hash length +
/// next hashed owner, type bit maps.
pub fn nsec3_rdata_wire(alg: u8, flags: u8, iterations: u16, salt: &[u8], next_hash: &[u8], types: &BTreeSet<u16>) -> Vec<u8> {
    let mut v = vec![alg, flags];
    v.extend_from_slice(&iterations.to_be_bytes());
    v.push(salt.len() as u8);
    v.extend_from_slice(salt);
    v.push(next_hash.len() as u8);
    v.extend_from_slice(next_hash);
    v.extend(type_bitmap_wire(types));
    v
}

/// A complete response message in wire form carrying ONE record in the authority section
/// (no compression): header (QR=1, counts 1/0/1/0), question (qname, qtype, IN), the record.
pub fn message_with_authority_record(qname_labels: &[Vec<u8>], qtype: u16, owner_labels: &[Vec<u8>], rtype: u16, ttl: u32, rdata: &[u8]) -> Vec<u8> {
    let mut v = vec![0x12, 0x34, 0x84, 0x00, 0, 1, 0, 0, 0, 1, 0, 0];
    v.extend(wire_name_raw(qname_labels));
    v.extend_from_slice(&qtype.to_be_bytes());
    v.extend_from_slice(&1u16.to_be_bytes());
    v.extend(wire_name_raw(owner_labels));
    v.extend_from_slice(&rtype.to_be_bytes());
    v.extend_from_slice(&1u16.to_be_bytes());
    v.extend_from_slice(&ttl.to_be_bytes());
    v.extend_from_slice(&(rdata.len() as u16).to_be_bytes());
    v.extend_from_slice(rdata);
    v
}

// ------------------------------------------------------------------------------------------
// layer 2: entailment, NSEC (RFC 4035 5.4, RFC 6840 4.1 / 4.3)

impl NsecRec {
    /// NS set, SOA clear: the parent-side NSEC of a delegation point ("ancestor delegation",
    /// RFC 6840 4.1).
    pub fn is_delegation(&self) -> bool {
        self.types.contains(&z::T_NS) && !self.types.contains(&z::T_SOA)
    }
    /// The name sorts after the owner and before the next name (or the record is the last of
    /// its zone's chain and the name is in that zone).
    pub fn covers(&self, name: &Name) -> bool {
        name.at_or_below(&self.zone) && self.owner < *name && (*name < self.next || self.next == self.zone)
    }
    /// RFC 6840 4.1: an ancestor-delegation NSEC (or one with DNAME) says nothing about names
    /// below its owner.
    fn silent_below_owner(&self, name: &Name) -> bool {
        (self.is_delegation() || self.types.contains(&T_DNAME)) && name.strictly_below(&self.owner)
    }
    /// Proves that `name` does not exist, not even as an empty non-terminal.
    fn denies(&self, name: &Name) -> bool {
        self.covers(name) && !self.silent_below_owner(name) && !self.next.strictly_below(name)
    }
    /// Proves that `name` exists as an empty non-terminal (the next name lies below it).
    fn proves_ent(&self, name: &Name) -> bool {
        self.covers(name) && !self.silent_below_owner(name) && self.next.strictly_below(name)
    }
    /// The closest encloser of a name this record denies: the longest ancestor shared with the
    /// owner or with the next name (both exist, hence so do all their ancestors).
    pub fn closest_encloser(&self, name: &Name) -> Name {
        let k = name
            .common_suffix_len(&self.owner)
            .max(name.common_suffix_len(&self.next))
            .max(self.zone.num_labels());
        name.suffix(k)
    }
}

/// Does the record set prove the claim for (qname, qtype)? `has_parent(apex)` tells whether the
/// DS RRset at that apex is served by a parent zone the validator knows about (then the child's
/// own apex NSEC cannot deny it).
pub fn nsec_proves(recs: &[&NsecRec], qname: &Name, qtype: u16, claim: &Claim, has_parent: &dyn Fn(&Name) -> bool) -> bool {
    let no_type = |r: &&NsecRec| !r.types.contains(&qtype) && !r.types.contains(&z::T_CNAME);
    match claim {
        Claim::NxDomain => recs.iter().any(|r1| {
            r1.denies(qname) && {
                // (if the query name is itself `*.<closest encloser>`, r1 has just denied it)
                let w = r1.closest_encloser(qname).wildcard_child();
                recs.iter().any(|r2| r2.denies(&w))
            }
        }),
        Claim::NoData => {
            // the name owns an NSEC
            let matching = recs.iter().any(|r| {
                r.owner == *qname
                    && qname.at_or_below(&r.zone)
                    && no_type(r)
                    && (!r.is_delegation() || qtype == z::T_DS)
                    && !(qtype == z::T_DS && r.zone == *qname && has_parent(qname))
            });
            // empty non-terminal
            let ent = recs.iter().any(|r| r.proves_ent(qname));
            // the name does not exist, the wildcard at the closest encloser does and lacks the type
            let wild = recs.iter().any(|r1| {
                r1.denies(qname) && {
                    let w = r1.closest_encloser(qname).wildcard_child();
                    w != *qname
                        && recs.iter().any(|r2| (r2.owner == w && w.at_or_below(&r2.zone) && no_type(r2) && !r2.is_delegation()) || r2.proves_ent(&w))
                }
            });
            matching || ent || wild
        }
        Claim::Wildcard { source, .. } => {
            let base = source.parent();
            source.is_wildcard() && qname.strictly_below(&base) && recs.iter().any(|r| r.denies(qname) && r.closest_encloser(qname) == base)
        }
    }
}

// ------------------------------------------------------------------------------------------
// layer 2: entailment, NSEC3 (RFC 5155 8.3 - 8.8, RFC 6840 4.1)

/// A view on a set of NSEC3 records sharing (salt, iterations). `hasher` maps a name to its
/// NSEC3 hash under those parameters (callers may memoise; [`nsec3_hash`] is the definition).
pub struct N3<'a> {
    pub recs: &'a [&'a Nsec3Rec],
    pub hasher: &'a dyn Fn(&Name) -> Vec<u8>,
}

impl<'a> N3<'a> {
    fn hash(&self, n: &Name) -> Vec<u8> {
        (self.hasher)(n)
    }
    pub fn matching(&self, n: &Name) -> Option<&'a Nsec3Rec> {
        let h = self.hash(n);
        self.recs.iter().copied().find(|r| r.hash == h)
    }
    pub fn covering(&self, n: &Name) -> Option<&'a Nsec3Rec> {
        let h = self.hash(n);
        self.recs.iter().copied().find(|r| {
            if r.hash < r.next {
                r.hash < h && h < r.next
            } else {
                // last record of the chain (or a single-record chain): wraps around
                r.hash != h && (h > r.hash || h < r.next)
            }
        })
    }
    /// RFC 5155 8.3: longest ancestor(-or-self) with a matching record that is not a delegation
    /// (NS without SOA) nor a DNAME owner, plus a covering record for the next closer name.
    /// Returns (closest encloser, record covering the next closer name).
    pub fn closest_encloser_proof(&self, apex: &Name, qname: &Name) -> Option<(Name, &'a Nsec3Rec)> {
        for k in (apex.num_labels()..qname.num_labels()).rev() {
            let ce = qname.suffix(k);
            if let Some(m) = self.matching(&ce) {
                if m.types.contains(&T_DNAME) || (m.types.contains(&z::T_NS) && !m.types.contains(&z::T_SOA)) {
                    return None;
                }
                let next_closer = qname.suffix(k + 1);
                return self.covering(&next_closer).map(|c| (ce, c));
            }
        }
        None
    }
}

/// Verdict of [`nsec3_proves`].
#[derive(Clone, Copy, Debug, PartialEq, Eq)]
pub enum Proof3 {
    /// the records do not form the RFC 5155 section 8 proof for the claim
    No,
    /// they do, but the record covering the next closer name has the Opt-Out flag: the proof is
    /// valid in the sense of RFC 5155 8.4 / 8.7 / 8.8, yet it does not exclude an insecure
    /// delegation at the next closer name, so the response must not be treated as Secure
    /// (RFC 5155 9.2; the property statement: "opt-out only for DS")
    OptOut,
    /// they do, and the verdict may be Secure
    Yes,
}

/// Does the NSEC3 record set prove the claim for (qname, qtype) in the zone `apex`? All records
/// must belong to that zone and share salt and iterations (RFC 5155 8.2).
pub fn nsec3_proves(
    recs: &[&Nsec3Rec],
    apex: &Name,
    qname: &Name,
    qtype: u16,
    claim: &Claim,
    has_parent: &dyn Fn(&Name) -> bool,
) -> Proof3 {
    let Some(first) = recs.first() else { return Proof3::No };
    let (salt, iterations) = (first.salt.clone(), first.iterations);
    nsec3_proves_with(recs, apex, qname, qtype, claim, has_parent, &move |n: &Name| nsec3_hash(n, &salt, iterations))
}

/// As [`nsec3_proves`] with a caller-supplied (memoising) hash function for the records' parameters.
#[allow(clippy::too_many_arguments)]
pub fn nsec3_proves_with(
    recs: &[&Nsec3Rec],
    apex: &Name,
    qname: &Name,
    qtype: u16,
    claim: &Claim,
    has_parent: &dyn Fn(&Name) -> bool,
    hasher: &dyn Fn(&Name) -> Vec<u8>,
) -> Proof3 {
    let yes = |b: bool| if b { Proof3::Yes } else { Proof3::No };
    let Some(first) = recs.first() else { return Proof3::No };
    if recs.iter().any(|r| r.zone != *apex || r.salt != first.salt || r.iterations != first.iterations) {
        return Proof3::No;
    }
    if !qname.at_or_below(apex) {
        return Proof3::No;
    }
    let cx = N3 { recs, hasher };
    let no_type = |r: &Nsec3Rec| !r.types.contains(&qtype) && !r.types.contains(&z::T_CNAME);
    let is_delegation = |r: &Nsec3Rec| r.types.contains(&z::T_NS) && !r.types.contains(&z::T_SOA);
    let weaken = |cover: &Nsec3Rec, ok: bool| {
        if !ok {
            Proof3::No
        } else if cover.opt_out {
            Proof3::OptOut
        } else {
            Proof3::Yes
        }
    };
    match claim {
        Claim::NxDomain => {
            if cx.matching(qname).is_some() {
                return Proof3::No;
            }
            match cx.closest_encloser_proof(apex, qname) {
                Some((ce, nc_cover)) => weaken(nc_cover, cx.covering(&ce.wildcard_child()).is_some()),
                None => Proof3::No,
            }
        }
        Claim::NoData => {
            if let Some(m) = cx.matching(qname) {
                return yes(no_type(m) && (!is_delegation(m) || qtype == z::T_DS) && !(qtype == z::T_DS && apex == qname && has_parent(qname)));
            }
            match cx.closest_encloser_proof(apex, qname) {
                None => Proof3::No,
                Some((ce, nc_cover)) => {
                    if qtype == z::T_DS && nc_cover.opt_out {
                        return Proof3::Yes; // RFC 5155 8.6
                    }
                    // RFC 5155 8.7 wildcard no data
                    weaken(nc_cover, cx.matching(&ce.wildcard_child()).map(|w| no_type(w) && !is_delegation(w)).unwrap_or(false))
                }
            }
        }
        Claim::Wildcard { source, .. } => {
            // RFC 5155 8.8: the next closer name (one label more than the wildcard's parent) is covered
            let base = source.parent();
            if !(source.is_wildcard() && qname.strictly_below(&base) && base.at_or_below(apex)) {
                return Proof3::No;
            }
            let next_closer = qname.suffix(base.num_labels() + 1);
            match cx.covering(&next_closer) {
                Some(c) => weaken(c, true),
                None => Proof3::No,
            }
        }
    }
}

// ------------------------------------------------------------------------------------------
// self tests against RFC 4035 appendix A/B and RFC 5155 appendix A/B

/// The example zone of RFC 4035 appendix A (names and types; RDATA abbreviated).
pub fn rfc4035_example_zone() -> Zone {
    let n = Name::parse;
    let mut zz = Zone::new(n("example."));
    let o = |s: &str| z::RData::Other(s.into());
    zz.add(&n("example."), z::T_SOA, z::RData::Soa);
    zz.add(&n("example."), z::T_NS, z::RData::Ns(n("ns1.example.")));
    zz.add(&n("example."), z::T_NS, z::RData::Ns(n("ns2.example.")));
    zz.add(&n("example."), z::T_MX, z::RData::Mx(1, n("xx.example.")));
    zz.add(&n("example."), z::T_DNSKEY, o("dnskey"));
    zz.add(&n("a.example."), z::T_NS, z::RData::Ns(n("ns1.a.example.")));
    zz.add(&n("a.example."), z::T_NS, z::RData::Ns(n("ns2.a.example.")));
    zz.add(&n("a.example."), z::T_DS, z::RData::Ds(57855));
    zz.add(&n("ns1.a.example."), z::T_A, z::RData::A([192, 0, 2, 5]));
    zz.add(&n("ns2.a.example."), z::T_A, z::RData::A([192, 0, 2, 6]));
    zz.add(&n("ai.example."), z::T_A, z::RData::A([192, 0, 2, 9]));
    zz.add(&n("ai.example."), 13, o("hinfo"));
    zz.add(&n("ai.example."), z::T_AAAA, o("2001:db8::f00:baa9"));
    zz.add(&n("b.example."), z::T_NS, z::RData::Ns(n("ns1.b.example.")));
    zz.add(&n("b.example."), z::T_NS, z::RData::Ns(n("ns2.b.example.")));
    zz.add(&n("ns1.b.example."), z::T_A, z::RData::A([192, 0, 2, 7]));
    zz.add(&n("ns2.b.example."), z::T_A, z::RData::A([192, 0, 2, 8]));
    zz.add(&n("ns1.example."), z::T_A, z::RData::A([192, 0, 2, 1]));
    zz.add(&n("ns2.example."), z::T_A, z::RData::A([192, 0, 2, 2]));
    zz.add(&n("*.w.example."), z::T_MX, z::RData::Mx(1, n("ai.example.")));
    zz.add(&n("x.w.example."), z::T_MX, z::RData::Mx(1, n("xx.example.")));
    zz.add(&n("x.y.w.example."), z::T_MX, z::RData::Mx(1, n("xx.example.")));
    zz.add(&n("xx.example."), z::T_A, z::RData::A([192, 0, 2, 10]));
    zz.add(&n("xx.example."), 13, o("hinfo"));
    zz.add(&n("xx.example."), z::T_AAAA, o("2001:db8::f00:baaa"));
    zz
}

/// The example zone of RFC 5155 appendix A (opt-out; `c.example.` is an insecure delegation).
pub fn rfc5155_example_zone() -> Zone {
    let n = Name::parse;
    let mut zz = Zone::new(n("example."));
    let o = |s: &str| z::RData::Other(s.into());
    zz.add(&n("example."), z::T_SOA, z::RData::Soa);
    zz.add(&n("example."), z::T_NS, z::RData::Ns(n("ns1.example.")));
    zz.add(&n("example."), z::T_NS, z::RData::Ns(n("ns2.example.")));
    zz.add(&n("example."), z::T_MX, z::RData::Mx(1, n("xx.example.")));
    zz.add(&n("example."), z::T_DNSKEY, o("dnskey"));
    zz.add(&n("2t7b4g4vsa5smi47k61mv5bv1a22bojr.example."), z::T_A, z::RData::A([192, 0, 2, 127]));
    zz.add(&n("a.example."), z::T_NS, z::RData::Ns(n("ns1.a.example.")));
    zz.add(&n("a.example."), z::T_NS, z::RData::Ns(n("ns2.a.example.")));
    zz.add(&n("a.example."), z::T_DS, z::RData::Ds(58470));
    zz.add(&n("ns1.a.example."), z::T_A, z::RData::A([192, 0, 2, 5]));
    zz.add(&n("ns2.a.example."), z::T_A, z::RData::A([192, 0, 2, 6]));
    zz.add(&n("ai.example."), z::T_A, z::RData::A([192, 0, 2, 9]));
    zz.add(&n("ai.example."), 13, o("hinfo"));
    zz.add(&n("ai.example."), z::T_AAAA, o("2001:db8::f00:baa9"));
    zz.add(&n("c.example."), z::T_NS, z::RData::Ns(n("ns1.c.example.")));
    zz.add(&n("c.example."), z::T_NS, z::RData::Ns(n("ns2.c.example.")));
    zz.add(&n("ns1.c.example."), z::T_A, z::RData::A([192, 0, 2, 7]));
    zz.add(&n("ns2.c.example."), z::T_A, z::RData::A([192, 0, 2, 8]));
    zz.add(&n("ns1.example."), z::T_A, z::RData::A([192, 0, 2, 1]));
    zz.add(&n("ns2.example."), z::T_A, z::RData::A([192, 0, 2, 2]));
    zz.add(&n("*.w.example."), z::T_MX, z::RData::Mx(1, n("ai.example.")));
    zz.add(&n("x.w.example."), z::T_MX, z::RData::Mx(1, n("xx.example.")));
    zz.add(&n("x.y.w.example."), z::T_MX, z::RData::Mx(1, n("xx.example.")));
    zz.add(&n("xx.example."), z::T_A, z::RData::A([192, 0, 2, 10]));
    zz.add(&n("xx.example."), 13, o("hinfo"));
    zz.add(&n("xx.example."), z::T_AAAA, o("2001:db8::f00:baaa"));
    zz
}

pub fn self_test() -> Vec<String> {
    let mut bad = vec![];
    let n = Name::parse;
    let none = |_: &Name| false;

    // ---------------- RFC 4035
    let zz = rfc4035_example_zone();
    let chain = nsec_chain(&zz);
    // appendix A: the NSEC chain as printed in the zone listing (owner -> next)
    let want = [
        ("example.", "a.example."),
        ("a.example.", "ai.example."),
        ("ai.example.", "b.example."),
        ("b.example.", "ns1.example."),
        ("ns1.example.", "ns2.example."),
        ("ns2.example.", "*.w.example."),
        ("*.w.example.", "x.w.example."),
        ("x.w.example.", "x.y.w.example."),
        ("x.y.w.example.", "xx.example."),
        ("xx.example.", "example."),
    ];
    let got: Vec<(String, String)> = chain.iter().map(|r| (r.owner.to_string(), r.next.to_string())).collect();
    if got != want.iter().map(|(a, b)| (a.to_string(), b.to_string())).collect::<Vec<_>>() {
        bad.push(format!("RFC 4035 A: NSEC chain differs: {got:?}"));
    }
    let pick = |owners: &[&str]| -> Vec<NsecRec> { chain.iter().filter(|r| owners.contains(&r.owner.to_string().as_str())).cloned().collect() };
    let a_bits: BTreeSet<u16> = [z::T_NS, z::T_DS, z::T_RRSIG, z::T_NSEC].into_iter().collect();
    if pick(&["a.example."])[0].types != a_bits {
        bad.push("RFC 4035 A: a.example. NSEC bitmap should be NS DS RRSIG NSEC".into());
    }
    let zones = vec![zz.clone()];
    let wild_mx = Claim::Wildcard { source: n("*.w.example."), rtype: z::T_MX };
    // (description, records, qname, qtype, claim, proves?, true?)
    let cases: Vec<(&str, Vec<NsecRec>, &str, u16, Claim, bool, bool)> = vec![
        ("B.2 name error", pick(&["b.example.", "example."]), "ml.example.", z::T_A, Claim::NxDomain, true, true),
        ("B.2 without the wildcard cover", pick(&["b.example."]), "ml.example.", z::T_A, Claim::NxDomain, false, true),
        ("B.3 no data", pick(&["ns1.example."]), "ns1.example.", z::T_MX, Claim::NoData, true, true),
        ("B.3 for a type that exists", pick(&["ns1.example."]), "ns1.example.", z::T_A, Claim::NoData, false, false),
        ("B.5 referral to unsigned zone: no DS", pick(&["b.example."]), "b.example.", z::T_DS, Claim::NoData, true, true),
        ("B.6 wildcard expansion", pick(&["x.y.w.example."]), "a.z.w.example.", z::T_MX, wild_mx.clone(), true, true),
        ("B.6 for a name with a closer match", pick(&["x.y.w.example."]), "x.y.w.example.", z::T_MX, wild_mx.clone(), false, false),
        ("B.7 wildcard no data", pick(&["x.y.w.example.", "*.w.example."]), "a.z.w.example.", z::T_AAAA, Claim::NoData, true, true),
        ("B.7 without the wildcard NSEC", pick(&["x.y.w.example."]), "a.z.w.example.", z::T_AAAA, Claim::NoData, false, true),
        ("B.8 DS child zone no data", pick(&["example."]), "example.", z::T_DS, Claim::NoData, true, true),
        // RFC 6840 4.1: the parent-side NSEC of a delegation says nothing about the child
        ("6840 4.1 NODATA at a delegation", pick(&["a.example."]), "a.example.", z::T_A, Claim::NoData, false, false),
        ("6840 4.1 NXDOMAIN below a delegation", pick(&["a.example.", "example."]), "mc.a.example.", z::T_MX, Claim::NxDomain, false, false),
        ("6840 4.1 NXDOMAIN below an unsigned delegation", pick(&["b.example.", "example."]), "mc.b.example.", z::T_MX, Claim::NxDomain, false, false),
        // empty non-terminal y.w.example.
        ("ENT no data", pick(&["x.w.example."]), "y.w.example.", z::T_A, Claim::NoData, true, true),
        ("ENT is not a name error", pick(&["x.w.example.", "ns2.example."]), "y.w.example.", z::T_A, Claim::NxDomain, false, false),
    ];
    for (what, recs, q, t, claim, want_proof, want_truth) in cases {
        let p = nsec_proves(&recs.iter().collect::<Vec<_>>(), &n(q), t, &claim, &none);
        let tr = truth(&zones, &n(q), t, &claim).is_ok();
        if p != want_proof {
            bad.push(format!("RFC 4035 {what}: nsec_proves = {p}, expected {want_proof}"));
        }
        if tr != want_truth {
            bad.push(format!("RFC 4035 {what}: truth = {tr}, expected {want_truth}"));
        }
    }

    // RFC 4034 4.3: "alfa.example.com. 86400 IN NSEC host.example.com. ( A MX RRSIG NSEC TYPE1234 )"
    // -> 0x04 'h' 'o' 's' 't' 0x07 'e' .. 0x03 'c' 'o' 'm' 0x00 | 0x00 0x06 0x40 0x01 0x00 0x00 0x00 0x03 | 0x04 0x1b 0x00 .. 0x20
    {
        let types: BTreeSet<u16> = [1u16, 15, 46, 47, 1234].into_iter().collect();
        let got = nsec_rdata_wire(&[b"host".to_vec(), b"example".to_vec(), b"com".to_vec()], &types);
        let mut want = vec![0x04, b'h', b'o', b's', b't', 0x07, b'e', b'x', b'a', b'm', b'p', b'l', b'e', 0x03, b'c', b'o', b'm', 0x00, 0x00, 0x06, 0x40, 0x01, 0x00, 0x00, 0x00, 0x03, 0x04, 0x1b];
        want.extend(std::iter::repeat(0u8).take(26));
        want.push(0x20);
        if got != want {
            bad.push(format!("RFC 4034 4.3: NSEC RDATA octets differ: {got:02x?}"));
        }
    }

    // ---------------- RFC 5155
    let salt = [0xaa, 0xbb, 0xcc, 0xdd];
    for (name, want) in [
        ("example.", "0p9mhaveqvm6t7vbl5lop2u3t2rp3tom"),
        ("a.example.", "35mthgpgcu1qg68fab165klnsnk3dpvl"),
        ("ai.example.", "gjeqe526plbf1g8mklp59enfd789njgi"),
        ("ns1.example.", "2t7b4g4vsa5smi47k61mv5bv1a22bojr"),
        ("ns2.example.", "q04jkcevqvmu85r014c7dkba38o0ji5r"),
        ("w.example.", "k8udemvp1j2f7eg6jebps17vp3n8i58h"),
        ("*.w.example.", "r53bq7cc2uvmubfu5ocmm6pers9tk9en"),
        ("x.w.example.", "b4um86eghhds6nea196smvmlo4ors995"),
        ("y.w.example.", "ji6neoaepv8b5o6k4ev33abha8ht9fgc"),
        ("x.y.w.example.", "2vptu5timamqttgl4luu9kg21e0aor3s"),
        ("xx.example.", "t644ebqk9bibcna874givr6joj62mlhv"),
    ] {
        let got = base32hex(&nsec3_hash(&n(name), &salt, 12));
        if got != want {
            bad.push(format!("RFC 5155 A: H({name}) = {got}, RFC says {want}"));
        }
        if base32hex_decode(want) != Some(nsec3_hash(&n(name), &salt, 12)) {
            bad.push(format!("base32hex_decode({want})"));
        }
    }
    let z5 = rfc5155_example_zone();
    let chain3 = nsec3_chain(&z5, &salt, 12, true);
    // appendix A: 12 NSEC3 RRs (c.example. is opted out, the A record's owner hash-like label counts as a name)
    if chain3.len() != 12 {
        bad.push(format!("RFC 5155 A: NSEC3 chain has {} records, RFC lists 12", chain3.len()));
    }
    let apex = n("example.");
    let zones5 = vec![z5.clone()];
    // the RFC's chain has the Opt-Out flag on every record; the same zone signed without opt-out
    // (c.example. then gets its own NSEC3) must give the same proofs at full strength
    let chain_plain = nsec3_chain(&z5, &salt, 12, false);
    if chain_plain.len() != 13 {
        bad.push(format!("RFC 5155 zone without opt-out: {} records, expected 13", chain_plain.len()));
    }
    use Proof3::*;
    // (what, qname, qtype, claim, verdict with the RFC's opt-out chain, verdict without opt-out, true?)
    let cases3: Vec<(&str, &str, u16, Claim, Proof3, Proof3, bool)> = vec![
        ("B.1 name error", "a.c.x.w.example.", z::T_A, Claim::NxDomain, OptOut, Yes, true),
        ("B.2 no data", "ns1.example.", z::T_MX, Claim::NoData, Yes, Yes, true),
        ("B.2.1 no data, empty non-terminal", "y.w.example.", z::T_A, Claim::NoData, Yes, Yes, true),
        ("B.3 referral to an opt-out unsigned zone: no DS", "c.example.", z::T_DS, Claim::NoData, Yes, Yes, true),
        ("B.4 wildcard expansion", "a.z.w.example.", z::T_MX, Claim::Wildcard { source: n("*.w.example."), rtype: z::T_MX }, OptOut, Yes, true),
        ("B.5 wildcard no data", "a.z.w.example.", z::T_AAAA, Claim::NoData, OptOut, Yes, true),
        ("B.6 DS child zone no data", "example.", z::T_DS, Claim::NoData, Yes, Yes, true),
        // opt-out: the hidden insecure delegation exists; nothing but "no DS" may be concluded
        ("NXDOMAIN for the insecure delegation", "c.example.", z::T_A, Claim::NxDomain, OptOut, No, false),
        ("NXDOMAIN below the insecure delegation", "mc.c.example.", z::T_MX, Claim::NxDomain, OptOut, No, false),
        ("NODATA A for the insecure delegation", "c.example.", z::T_A, Claim::NoData, No, No, false),
        ("NODATA A at the signed delegation", "a.example.", z::T_A, Claim::NoData, No, No, false),
        ("NXDOMAIN for an existing name", "ns1.example.", z::T_A, Claim::NxDomain, No, No, false),
        ("wildcard expansion for an existing name", "x.w.example.", z::T_MX, Claim::Wildcard { source: n("*.w.example."), rtype: z::T_MX }, No, No, false),
    ];
    for (what, q, t, claim, want_optout, want_plain, want_truth) in cases3 {
        let p = nsec3_proves(&chain3.iter().collect::<Vec<_>>(), &apex, &n(q), t, &claim, &none);
        let pp = nsec3_proves(&chain_plain.iter().collect::<Vec<_>>(), &apex, &n(q), t, &claim, &none);
        let tr = truth(&zones5, &n(q), t, &claim).is_ok();
        if p != want_optout {
            bad.push(format!("RFC 5155 {what}: nsec3_proves (opt-out chain) = {p:?}, expected {want_optout:?}"));
        }
        if pp != want_plain {
            bad.push(format!("RFC 5155 {what}: nsec3_proves (plain chain) = {pp:?}, expected {want_plain:?}"));
        }
        if tr != want_truth {
            bad.push(format!("RFC 5155 {what}: truth = {tr}, expected {want_truth}"));
        }
    }
    // B.1 uses exactly three records: 0p9mhave (covers next closer), b4um86eg (matches x.w), 35mthgpg (covers wildcard)
    let three: Vec<Nsec3Rec> = chain3
        .iter()
        .filter(|r| ["0p9mhave", "b4um86eg", "35mthgpg"].iter().any(|p| base32hex(&r.hash).starts_with(p)))
        .cloned()
        .collect();
    let three: Vec<&Nsec3Rec> = three.iter().collect();
    if nsec3_proves(&three, &apex, &n("a.c.x.w.example."), z::T_A, &Claim::NxDomain, &none) != OptOut {
        bad.push("RFC 5155 B.1: the three records of the example response do not prove the name error".into());
    }
    if nsec3_proves(&three[..2], &apex, &n("a.c.x.w.example."), z::T_A, &Claim::NxDomain, &none) != No
        || nsec3_proves(&three[1..], &apex, &n("a.c.x.w.example."), z::T_A, &Claim::NxDomain, &none) != No
    {
        bad.push("RFC 5155 B.1: two of the three records suffice?".into());
    }
    bad
}

#[cfg(test)]
mod tests {
    #[test]
    fn rfc_examples() {
        let bad = super::self_test();
        assert!(bad.is_empty(), "{bad:#?}");
    }
}
