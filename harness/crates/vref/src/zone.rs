//! Reference model of an authoritative zone and of the standard lookup algorithm.
//!
//! Written from RFC 1034 section 4.3.2 (the algorithm), RFC 4592 (wildcards: closest encloser,
//! source of synthesis, empty non-terminals), RFC 2308 (NODATA / NXDOMAIN), RFC 4034 section 6.1
//! (canonical name order) and RFC 4035 section 2.2 / 3.1 (which RRsets of a zone are authoritative
//! and therefore signed). No hickory code is used anywhere in this file.
//!
//! The model is deliberately small: names are label vectors, a zone is a map
//! owner -> type -> set of RDATA, and `resolve` returns a *structured* description of what the
//! standard algorithm does for (qname, qtype) — which node answered, whether a wildcard was the
//! source of synthesis, where the referral goes, why a name has no data — so that checks can
//! compare exactly the parts of a response that a property statement fixes and derive stable
//! "scene" keys for deviations.

use std::cmp::Ordering;
use std::collections::{BTreeMap, BTreeSet};
use std::fmt;

pub const T_A: u16 = 1;
pub const T_NS: u16 = 2;
pub const T_CNAME: u16 = 5;
pub const T_SOA: u16 = 6;
pub const T_MX: u16 = 15;
pub const T_TXT: u16 = 16;
pub const T_AAAA: u16 = 28;
pub const T_DS: u16 = 43;
pub const T_RRSIG: u16 = 46;
pub const T_NSEC: u16 = 47;
pub const T_DNSKEY: u16 = 48;
pub const T_NSEC3: u16 = 50;
pub const T_NSEC3PARAM: u16 = 51;
pub const T_ANY: u16 = 255;

pub fn type_name(t: u16) -> String {
    match t {
        T_A => "A".into(),
        T_NS => "NS".into(),
        T_CNAME => "CNAME".into(),
        T_SOA => "SOA".into(),
        T_MX => "MX".into(),
        T_TXT => "TXT".into(),
        T_AAAA => "AAAA".into(),
        T_DS => "DS".into(),
        T_RRSIG => "RRSIG".into(),
        T_NSEC => "NSEC".into(),
        T_DNSKEY => "DNSKEY".into(),
        T_NSEC3 => "NSEC3".into(),
        T_NSEC3PARAM => "NSEC3PARAM".into(),
        T_ANY => "ANY".into(),
        o => format!("TYPE{o}"),
    }
}

// ------------------------------------------------------------------------------------------
// names

/// A fully qualified domain name: labels leftmost first, root label omitted, ASCII letters
/// folded to lower case (RFC 1035 2.3.3: comparisons are case-insensitive).
#[derive(Clone, PartialEq, Eq, Hash, Default)]
pub struct Name(pub Vec<Vec<u8>>);

impl Name {
    pub fn root() -> Name {
        Name(vec![])
    }
    /// Parse presentation format without escapes ("a.b.z." / "z." / ".").
    pub fn parse(s: &str) -> Name {
        let s = s.strip_suffix('.').unwrap_or(s);
        if s.is_empty() {
            return Name::root();
        }
        Name(s.split('.').map(|l| l.as_bytes().to_ascii_lowercase()).collect())
    }
    pub fn from_labels<I: IntoIterator<Item = Vec<u8>>>(it: I) -> Name {
        Name(it.into_iter().map(|l| l.to_ascii_lowercase()).collect())
    }
    pub fn num_labels(&self) -> usize {
        self.0.len()
    }
    pub fn is_root(&self) -> bool {
        self.0.is_empty()
    }
    /// The name with the leftmost label removed (root stays root).
    pub fn parent(&self) -> Name {
        if self.0.is_empty() {
            Name::root()
        } else {
            Name(self.0[1..].to_vec())
        }
    }
    pub fn child(&self, label: &[u8]) -> Name {
        let mut v = Vec::with_capacity(self.0.len() + 1);
        v.push(label.to_ascii_lowercase());
        v.extend(self.0.iter().cloned());
        Name(v)
    }
    /// `*.<self>`
    pub fn wildcard_child(&self) -> Name {
        self.child(b"*")
    }
    /// RFC 4592 2.1.1: a wildcard domain name has `*` as its leftmost label.
    pub fn is_wildcard(&self) -> bool {
        self.0.first().map(|l| l.as_slice() == b"*").unwrap_or(false)
    }
    /// self == other or self is a descendant of other.
    pub fn at_or_below(&self, other: &Name) -> bool {
        let (n, m) = (self.0.len(), other.0.len());
        n >= m && self.0[n - m..] == other.0[..]
    }
    pub fn strictly_below(&self, other: &Name) -> bool {
        self.0.len() > other.0.len() && self.at_or_below(other)
    }
    /// The ancestor-or-self of `self` that has exactly `n` labels.
    pub fn suffix(&self, n: usize) -> Name {
        let k = self.0.len();
        Name(self.0[k - n.min(k)..].to_vec())
    }
    /// Ancestors-or-self strictly below `top`, ordered from the one just below `top` down to self.
    pub fn path_below(&self, top: &Name) -> Vec<Name> {
        let mut v = vec![];
        if !self.at_or_below(top) {
            return v;
        }
        for n in top.0.len() + 1..=self.0.len() {
            v.push(self.suffix(n));
        }
        v
    }
    /// Number of labels the two names share counting from the root.
    pub fn common_suffix_len(&self, other: &Name) -> usize {
        self.0.iter().rev().zip(other.0.iter().rev()).take_while(|(a, b)| a == b).count()
    }
}

impl fmt::Display for Name {
    fn fmt(&self, f: &mut fmt::Formatter<'_>) -> fmt::Result {
        if self.0.is_empty() {
            return write!(f, ".");
        }
        for l in &self.0 {
            write!(f, "{}.", String::from_utf8_lossy(l))?;
        }
        Ok(())
    }
}
impl fmt::Debug for Name {
    fn fmt(&self, f: &mut fmt::Formatter<'_>) -> fmt::Result {
        write!(f, "{self}")
    }
}

/// RFC 4034 6.1 canonical DNS name order: compare label by label starting from the rightmost
/// (most significant) label; labels compare as lower-cased octet strings; the absence of a
/// label sorts before any label.
pub fn canonical_cmp(a: &Name, b: &Name) -> Ordering {
    let mut ia = a.0.iter().rev();
    let mut ib = b.0.iter().rev();
    loop {
        match (ia.next(), ib.next()) {
            (None, None) => return Ordering::Equal,
            (None, Some(_)) => return Ordering::Less,
            (Some(_), None) => return Ordering::Greater,
            (Some(x), Some(y)) => match x.as_slice().cmp(y.as_slice()) {
                Ordering::Equal => {}
                o => return o,
            },
        }
    }
}

impl Ord for Name {
    fn cmp(&self, other: &Self) -> Ordering {
        canonical_cmp(self, other)
    }
}
impl PartialOrd for Name {
    fn partial_cmp(&self, other: &Self) -> Option<Ordering> {
        Some(self.cmp(other))
    }
}

// ------------------------------------------------------------------------------------------
// records

/// RDATA of the small alphabet the zone universe uses. Anything else is carried as opaque text.
#[derive(Clone, PartialEq, Eq, PartialOrd, Ord, Hash, Debug)]
pub enum RData {
    A([u8; 4]),
    Ns(Name),
    Cname(Name),
    Mx(u16, Name),
    Txt(Vec<u8>),
    Ds(u16),
    Soa,
    Other(String),
}

#[derive(Clone, PartialEq, Eq, PartialOrd, Ord, Hash, Debug)]
pub struct Rr {
    pub owner: Name,
    pub rtype: u16,
    pub rdata: RData,
}

impl fmt::Display for Rr {
    fn fmt(&self, f: &mut fmt::Formatter<'_>) -> fmt::Result {
        write!(f, "{} {} {:?}", self.owner, type_name(self.rtype), self.rdata)
    }
}

// ------------------------------------------------------------------------------------------
// zone

#[derive(Clone, Debug, Default)]
pub struct Zone {
    pub origin: Name,
    /// owner -> type -> RDATA set. Contains everything that was loaded into the zone, including
    /// glue and other occluded data below zone cuts.
    pub nodes: BTreeMap<Name, BTreeMap<u16, BTreeSet<RData>>>,
}

/// How a name relates to the tree of names of the zone (RFC 4592 2.2.2: a domain name exists
/// if it or any of its descendants owns at least one RR).
#[derive(Clone, Copy, PartialEq, Eq, Debug)]
pub enum NodeStatus {
    /// owns at least one RRset
    Data,
    /// owns nothing but has a descendant that does (empty non-terminal)
    Ent,
    /// not in the tree
    Absent,
}

impl Zone {
    pub fn new(origin: Name) -> Zone {
        Zone { origin, nodes: BTreeMap::new() }
    }
    pub fn add(&mut self, owner: &Name, rtype: u16, rdata: RData) {
        self.nodes.entry(owner.clone()).or_default().entry(rtype).or_default().insert(rdata);
    }
    pub fn rrset(&self, owner: &Name, rtype: u16) -> Option<&BTreeSet<RData>> {
        self.nodes.get(owner).and_then(|m| m.get(&rtype))
    }
    pub fn has(&self, owner: &Name, rtype: u16) -> bool {
        self.rrset(owner, rtype).is_some()
    }
    pub fn types_at(&self, owner: &Name) -> Vec<u16> {
        self.nodes.get(owner).map(|m| m.keys().copied().collect()).unwrap_or_default()
    }
    pub fn status(&self, name: &Name) -> NodeStatus {
        if self.nodes.get(name).map(|m| !m.is_empty()).unwrap_or(false) {
            NodeStatus::Data
        } else if self.nodes.keys().any(|k| k.strictly_below(name)) {
            NodeStatus::Ent
        } else {
            NodeStatus::Absent
        }
    }
    pub fn exists(&self, name: &Name) -> bool {
        self.status(name) != NodeStatus::Absent
    }
    /// Shape classes a zone of U(2) cannot have (used as vacuity witnesses by the checks):
    /// an empty non-terminal whose first descendant in canonical order is two or more labels
    /// below it, an empty non-terminal directly above another one, a wildcard directly below the
    /// lower of two such empty non-terminals.
    pub fn deep_shapes(&self) -> Vec<&'static str> {
        let mut out = vec![];
        let mut ents: BTreeSet<Name> = BTreeSet::new();
        for k in self.nodes.keys() {
            let mut p = k.clone();
            while p.strictly_below(&self.origin) {
                p = p.parent();
                if p.strictly_below(&self.origin) && self.status(&p) == NodeStatus::Ent {
                    ents.insert(p.clone());
                }
            }
        }
        for e in &ents {
            let first = self.nodes.keys().filter(|k| k.strictly_below(e)).min_by(|a, b| canonical_cmp(a, b));
            if first.map(|f| f.num_labels() >= e.num_labels() + 2).unwrap_or(false) && !out.contains(&"shape:ent-first-descendant-2-below") {
                out.push("shape:ent-first-descendant-2-below");
            }
            if ents.contains(&e.parent()) && !out.contains(&"shape:ent-above-ent") {
                out.push("shape:ent-above-ent");
            }
            if ents.contains(&e.parent()) && self.status(&e.wildcard_child()) == NodeStatus::Data && !out.contains(&"shape:wildcard-below-ent-chain") {
                out.push("shape:wildcard-below-ent-chain");
            }
        }
        out
    }
    /// A zone cut: a name other than the apex that owns an NS RRset (RFC 1034 4.2.1).
    pub fn is_cut(&self, name: &Name) -> bool {
        *name != self.origin && name.strictly_below(&self.origin) && self.has(name, T_NS)
    }
    /// The cut that ends this zone's authority on the way from the apex down to `name`
    /// (the first one met walking DOWN from the apex, as RFC 1034 4.3.2 step 3 does: data below
    /// it, including further NS RRsets, is not part of the zone's authoritative data).
    pub fn cut_on_path(&self, name: &Name) -> Option<Name> {
        name.path_below(&self.origin).into_iter().find(|p| self.is_cut(p))
    }
    /// The zone is authoritative for RRsets of this owner (in zone, not below a cut; at a cut
    /// only for the parent-side types DS / NSEC, see `is_authoritative_rrset`).
    pub fn is_authoritative_rrset(&self, owner: &Name, rtype: u16) -> bool {
        if !owner.at_or_below(&self.origin) {
            return false;
        }
        match self.cut_on_path(owner) {
            None => true,
            // RFC 4035 2.2: NS at a delegation point is not signed; 2.4/2.3: DS and NSEC are
            Some(cut) => cut == *owner && (rtype == T_DS || rtype == T_NSEC || rtype == T_NSEC3),
        }
    }
    /// Longest existing proper ancestor of `name` inside the zone (RFC 4592 3.3.1). `name` must
    /// be strictly below the origin; the origin always exists.
    pub fn closest_encloser(&self, name: &Name) -> Name {
        let mut p = name.parent();
        while p.strictly_below(&self.origin) {
            if self.exists(&p) {
                return p;
            }
            p = p.parent();
        }
        self.origin.clone()
    }
    /// `name` itself if it exists in the zone, else its closest encloser.
    pub fn closest_encloser_or_self(&self, name: &Name) -> Name {
        if !name.strictly_below(&self.origin) || self.exists(name) {
            name.clone()
        } else {
            self.closest_encloser(name)
        }
    }
    /// All RRs owned by `owner`, as a flat list.
    pub fn rrs_at(&self, owner: &Name) -> Vec<Rr> {
        let mut v = vec![];
        if let Some(m) = self.nodes.get(owner) {
            for (t, set) in m {
                for rd in set {
                    v.push(Rr { owner: owner.clone(), rtype: *t, rdata: rd.clone() });
                }
            }
        }
        v
    }
}

// ------------------------------------------------------------------------------------------
// lookup

#[derive(Clone, PartialEq, Eq, Debug)]
pub enum NoDataKind {
    /// the name owns RRsets, but neither the type nor a CNAME
    OtherData,
    /// empty non-terminal
    Ent,
    /// the name does not exist; the source of synthesis exists, owns data, but neither the type nor a CNAME
    Wildcard { source: Name },
    /// the name does not exist; the source of synthesis exists only as an empty non-terminal
    WildcardEnt { source: Name },
}

/// What the standard algorithm does at ONE name (the query name or a CNAME target).
#[derive(Clone, PartialEq, Eq, Debug)]
pub enum Step {
    /// the name is not at or below the zone apex
    OutOfZone,
    /// a zone cut lies on the path: authority ends at `cut`
    Referral { cut: Name },
    /// RRs of the query type (for ANY: all RRs of the node). `source` is the owner in the zone;
    /// it differs from the name only for wildcard synthesis (then the RRs are owned by the name).
    Data { source: Name, rtype: u16, rdata: BTreeSet<RData>, any: Vec<Rr> },
    /// a CNAME is at the node (or at the source of synthesis) and the query type is not CNAME
    Cname { source: Name, target: Name },
    NoData(NoDataKind),
    /// the name does not exist and no wildcard applies
    NxDomain { closest_encloser: Name },
}

impl Step {
    pub fn class(&self) -> &'static str {
        match self {
            Step::OutOfZone => "OUTOFZONE",
            Step::Referral { .. } => "REFERRAL",
            Step::Data { .. } => "DATA",
            Step::Cname { .. } => "CNAME",
            Step::NoData(_) => "NODATA",
            Step::NxDomain { .. } => "NXDOMAIN",
        }
    }
    /// The wildcard owner used as source of synthesis, if this step involves one.
    pub fn wildcard_source(&self, at: &Name) -> Option<Name> {
        match self {
            Step::Data { source, .. } | Step::Cname { source, .. } if source != at => Some(source.clone()),
            Step::NoData(NoDataKind::Wildcard { source }) | Step::NoData(NoDataKind::WildcardEnt { source }) => {
                Some(source.clone())
            }
            _ => None,
        }
    }
}

/// RFC 1034 4.3.2 step 3 for one name, with the RFC 4592 definition of "the `*` label exists".
pub fn step(zone: &Zone, name: &Name, qtype: u16) -> Step {
    if !name.at_or_below(&zone.origin) {
        return Step::OutOfZone;
    }
    // 3.b: walking down from the apex, a node with NS marks the end of authority. The DS RRset
    // of a delegation lives on the parent side (RFC 4035 3.1.4.1), so a DS query for the cut
    // itself is answered from this zone.
    if let Some(cut) = zone.cut_on_path(name) {
        if !(cut == *name && qtype == T_DS) {
            return Step::Referral { cut };
        }
    }
    let at = |owner: &Name| -> Option<Step> {
        let node = zone.nodes.get(owner)?;
        if node.is_empty() {
            return None;
        }
        if qtype == T_ANY {
            let mut any = zone.rrs_at(owner);
            for r in any.iter_mut() {
                r.owner = name.clone();
            }
            return Some(Step::Data { source: owner.clone(), rtype: T_ANY, rdata: BTreeSet::new(), any });
        }
        if let Some(set) = node.get(&qtype) {
            return Some(Step::Data { source: owner.clone(), rtype: qtype, rdata: set.clone(), any: vec![] });
        }
        if let Some(set) = node.get(&T_CNAME) {
            if let Some(RData::Cname(t)) = set.iter().next() {
                return Some(Step::Cname { source: owner.clone(), target: t.clone() });
            }
        }
        None
    };
    // 3.a: the whole of QNAME is matched
    match zone.status(name) {
        NodeStatus::Data => return at(name).unwrap_or(Step::NoData(NoDataKind::OtherData)),
        NodeStatus::Ent => return Step::NoData(NoDataKind::Ent),
        NodeStatus::Absent => {}
    }
    // 3.c: look for the `*` label at the closest encloser, and only there (RFC 4592 3.3.1, 4.7:
    // an existing closer name, an empty non-terminal or another wildcard block higher wildcards)
    let ce = zone.closest_encloser(name);
    let source = ce.wildcard_child();
    match zone.status(&source) {
        NodeStatus::Data => at(&source).unwrap_or(Step::NoData(NoDataKind::Wildcard { source })),
        NodeStatus::Ent => Step::NoData(NoDataKind::WildcardEnt { source }),
        NodeStatus::Absent => Step::NxDomain { closest_encloser: ce },
    }
}

/// The full answer: the chain of CNAMEs followed inside the zone and the final step.
#[derive(Clone, PartialEq, Eq, Debug)]
pub struct Resolution {
    /// (name looked up, what happened there); all but the last are `Step::Cname`.
    pub steps: Vec<(Name, Step)>,
    /// the chain came back to a name already visited (the last step is then the CNAME that closes the loop)
    pub looped: bool,
}

impl Resolution {
    pub fn last(&self) -> &(Name, Step) {
        self.steps.last().unwrap()
    }
    pub fn first(&self) -> &(Name, Step) {
        &self.steps[0]
    }
}

/// RFC 1034 4.3.2: "If the data at the node is a CNAME, and QTYPE doesn't match CNAME, copy the
/// CNAME RR into the answer section, change QNAME to the canonical name, and go back to step 1."
pub fn resolve(zone: &Zone, qname: &Name, qtype: u16) -> Resolution {
    let mut steps = vec![];
    let mut seen = BTreeSet::new();
    let mut name = qname.clone();
    loop {
        seen.insert(name.clone());
        let s = step(zone, &name, qtype);
        let next = match &s {
            Step::Cname { target, .. } if qtype != T_CNAME && qtype != T_ANY => Some(target.clone()),
            _ => None,
        };
        steps.push((name.clone(), s));
        match next {
            Some(t) => {
                if seen.contains(&t) {
                    return Resolution { steps, looped: true };
                }
                name = t;
            }
            None => return Resolution { steps, looped: false },
        }
    }
}

// ------------------------------------------------------------------------------------------
// self tests against the RFCs' worked examples

/// The example zone of RFC 4592 2.2.1.
pub fn rfc4592_example_zone() -> Zone {
    let n = Name::parse;
    let mut z = Zone::new(n("example."));
    z.add(&n("example."), T_SOA, RData::Soa);
    z.add(&n("example."), T_NS, RData::Ns(n("ns.example.com.")));
    z.add(&n("example."), T_NS, RData::Ns(n("ns.example.net.")));
    z.add(&n("*.example."), T_TXT, RData::Txt(b"this is a wildcard".to_vec()));
    z.add(&n("*.example."), T_MX, RData::Mx(10, n("host1.example.")));
    z.add(&n("sub.*.example."), T_TXT, RData::Txt(b"this is not a wildcard".to_vec()));
    z.add(&n("host1.example."), T_A, RData::A([192, 0, 2, 1]));
    z.add(&n("_ssh._tcp.host1.example."), 33, RData::Other("SRV".into()));
    z.add(&n("_ssh._tcp.host2.example."), 33, RData::Other("SRV".into()));
    z.add(&n("subdel.example."), T_NS, RData::Ns(n("ns.example.com.")));
    z.add(&n("subdel.example."), T_NS, RData::Ns(n("ns.example.net.")));
    z
}

/// Run the model against the worked examples of RFC 4592 (2.2.1 responses, 2.2.2/2.2.3/3.3.1
/// statements) and RFC 4034 6.1 (canonical order). Returns the list of failed expectations.
pub fn self_test() -> Vec<String> {
    let mut bad = vec![];
    let n = Name::parse;

    // RFC 4034 6.1: the worked sort order
    let order = [
        "example.", "a.example.", "yljkjljk.a.example.", "Z.a.example.", "zABC.a.EXAMPLE.", "z.example.",
        "*.z.example.",
    ];
    // (the RFC list also has \001.z.example and \200.z.example, between z.example and *.z.example /
    // after it; they are added below with raw labels)
    let mut names: Vec<Name> = order.iter().map(|s| n(s)).collect();
    names.insert(6, Name::from_labels(vec![vec![1u8], b"z".to_vec(), b"example".to_vec()]));
    names.push(Name::from_labels(vec![vec![0o200u8], b"z".to_vec(), b"example".to_vec()]));
    let mut sorted = names.clone();
    sorted.reverse();
    sorted.sort();
    if sorted != names {
        bad.push(format!("RFC 4034 6.1 order: got {sorted:?}"));
    }

    let z = rfc4592_example_zone();
    let synth = |q: &str, t: u16| -> String {
        let r = resolve(&z, &n(q), t);
        let (at, s) = r.last();
        match s {
            Step::Data { source, .. } if source != at => format!("SYNTH {source}"),
            Step::Cname { source, .. } if source != at => format!("SYNTHCNAME {source}"),
            Step::Data { .. } => "DATA".into(),
            Step::Cname { .. } => "CNAME".into(),
            Step::NoData(k) => format!("NODATA {k:?}"),
            Step::NxDomain { closest_encloser } => format!("NXDOMAIN ce={closest_encloser}"),
            Step::Referral { cut } => format!("REFERRAL {cut}"),
            Step::OutOfZone => "OUTOFZONE".into(),
        }
    };
    let mut expect = |q: &str, t: u16, want: &str| {
        let got = synth(q, t);
        if !got.starts_with(want) {
            bad.push(format!("RFC 4592 2.2.1: {q} {} expected {want}, model says {got}", type_name(t)));
        }
    };
    // "The following responses would be synthesized from one of the wildcards in the zone"
    expect("host3.example.", T_MX, "SYNTH *.example.");
    expect("host3.example.", T_A, "NODATA Wildcard"); // "no A at the wildcard": NODATA
    expect("foo.bar.example.", T_TXT, "SYNTH *.example.");
    // "The following responses would not be synthesized from any of the wildcards in the zone"
    expect("host1.example.", T_MX, "NODATA OtherData"); // host1.example. exists
    expect("sub.*.example.", T_MX, "NODATA OtherData"); // sub.*.example. exists
    expect("_telnet._tcp.host1.example.", 33, "NXDOMAIN ce=_tcp.host1.example."); // _tcp.host1.example. exists
    expect("host.subdel.example.", T_A, "REFERRAL subdel.example."); // subdel.example. is a zone cut
    expect("ghost.*.example.", T_MX, "NXDOMAIN ce=*.example."); // *.example. exists (blocks itself)
    // 2.2.2 empty non-terminals: "_tcp.host1.example." exists without data
    expect("_tcp.host1.example.", T_A, "NODATA Ent");
    expect("host2.example.", T_A, "NODATA Ent");
    // 2.2.1 first item of the second list
    expect("*.example.", T_MX, "DATA"); // the wildcard name itself is queried: exact match
    expect("*.example.", T_A, "NODATA OtherData");
    // 3.3.1 closest encloser / source of synthesis table
    let ce = |q: &str| z.closest_encloser(&n(q)).to_string();
    for (q, want) in [
        ("host3.example.", "example."),
        ("_telnet._tcp.host1.example.", "_tcp.host1.example."),
        ("_dns._udp.host2.example.", "host2.example."),
        ("_telnet._tcp.host3.example.", "example."),
        ("_chat._udp.host3.example.", "example."),
        ("foobar.*.example.", "*.example."),
    ] {
        if ce(q) != want {
            bad.push(format!("RFC 4592 3.3.1: closest encloser of {q}: expected {want}, model says {}", ce(q)));
        }
    }
    // a wildcard that exists only as an empty non-terminal gives NODATA (RFC 4592 2.2.2 + 3.3.1:
    // the source of synthesis exists, it just owns nothing)
    let mut z2 = Zone::new(n("z."));
    z2.add(&n("z."), T_SOA, RData::Soa);
    z2.add(&n("a.*.z."), T_A, RData::A([10, 0, 0, 1]));
    match step(&z2, &n("b.z."), T_A) {
        Step::NoData(NoDataKind::WildcardEnt { .. }) => {}
        o => bad.push(format!("ENT wildcard: expected NODATA, model says {o:?}")),
    }
    // CNAME chain and loop
    let mut z3 = Zone::new(n("z."));
    z3.add(&n("z."), T_SOA, RData::Soa);
    z3.add(&n("a.z."), T_CNAME, RData::Cname(n("b.z.")));
    z3.add(&n("b.z."), T_CNAME, RData::Cname(n("a.z.")));
    let r = resolve(&z3, &n("a.z."), T_A);
    if !(r.looped && r.steps.len() == 2) {
        bad.push(format!("CNAME loop: {r:?}"));
    }
    // nested NS below a cut is occluded: the referral goes to the upper cut
    let mut z4 = Zone::new(n("z."));
    z4.add(&n("z."), T_SOA, RData::Soa);
    z4.add(&n("z."), T_NS, RData::Ns(n("ns.o.")));
    z4.add(&n("a.z."), T_NS, RData::Ns(n("ns.o.")));
    z4.add(&n("a.a.z."), T_NS, RData::Ns(n("ns.o.")));
    match step(&z4, &n("b.a.a.z."), T_A) {
        Step::Referral { cut } if cut == n("a.z.") => {}
        o => bad.push(format!("occluded NS: {o:?}")),
    }
    match step(&z4, &n("a.z."), T_DS) {
        Step::NoData(NoDataKind::OtherData) => {}
        o => bad.push(format!("DS at cut: {o:?}")),
    }
    match step(&z4, &n("z."), T_NS) {
        Step::Data { .. } => {}
        o => bad.push(format!("apex NS: {o:?}")),
    }
    bad
}

#[cfg(test)]
mod tests {
    #[test]
    fn rfc_examples() {
        let bad = super::self_test();
        assert!(bad.is_empty(), "{bad:#?}");
    }
}
