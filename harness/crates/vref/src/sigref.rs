//! Reference pieces for RRSIG checking, written from RFC 4034 (3.1, 6.2, 6.3, appendix B),
//! RFC 4035 5.3.1/5.3.2, RFC 6840 5.1, RFC 1982 and RFC 3110 / 6605 / 8080. No hickory code:
//! the input is the raw wire message (walked by `crate::wire`), the crypto is `ring` directly.

use crate::wire::{self, Labels, RawRecord};

pub const T_NS: u16 = 2;
pub const T_CNAME: u16 = 5;
pub const T_SOA: u16 = 6;
pub const T_PTR: u16 = 12;
pub const T_MX: u16 = 15;
pub const T_RRSIG: u16 = 46;
pub const T_NSEC: u16 = 47;
pub const T_DNSKEY: u16 = 48;
pub const T_DS: u16 = 43;

/// A record with its owner, and its RDATA with every compressed name expanded (case kept).
#[derive(Clone, Debug, PartialEq, Eq)]
pub struct Rr {
    pub owner: Labels,
    pub rtype: u16,
    pub class: u16,
    pub ttl: u32,
    /// RDATA, names uncompressed, case preserved
    pub rdata: Vec<u8>,
    /// false if the RDATA of a name-bearing type could not be parsed (then `rdata` is raw)
    pub rdata_ok: bool,
}

fn emit_name(l: &Labels, out: &mut Vec<u8>) {
    wire::emit_name(l, out)
}

/// Expand the RDATA of a record: names inside the RDATA of NS, CNAME, PTR, MX, SOA, RRSIG and
/// NSEC may be compressed on the wire; everything else is copied.
pub fn expand(msg: &[u8], r: &RawRecord) -> Rr {
    let raw = msg[r.rdata_start..r.rdata_end].to_vec();
    let mut out = vec![];
    let ok = (|| -> Option<()> {
        match r.rtype {
            T_NS | T_CNAME | T_PTR => {
                let (n, p) = wire::read_name(msg, r.rdata_start).ok()?;
                if p != r.rdata_end {
                    return None;
                }
                emit_name(&n, &mut out);
            }
            T_MX => {
                if r.rdata_end - r.rdata_start < 3 {
                    return None;
                }
                out.extend_from_slice(&msg[r.rdata_start..r.rdata_start + 2]);
                let (n, p) = wire::read_name(msg, r.rdata_start + 2).ok()?;
                if p != r.rdata_end {
                    return None;
                }
                emit_name(&n, &mut out);
            }
            T_SOA => {
                let (m, p) = wire::read_name(msg, r.rdata_start).ok()?;
                let (rn, p2) = wire::read_name(msg, p).ok()?;
                if p2 + 20 != r.rdata_end {
                    return None;
                }
                emit_name(&m, &mut out);
                emit_name(&rn, &mut out);
                out.extend_from_slice(&msg[p2..r.rdata_end]);
            }
            T_RRSIG => {
                if r.rdata_end - r.rdata_start < 19 {
                    return None;
                }
                out.extend_from_slice(&msg[r.rdata_start..r.rdata_start + 18]);
                let (n, p) = wire::read_name(msg, r.rdata_start + 18).ok()?;
                if p > r.rdata_end {
                    return None;
                }
                emit_name(&n, &mut out);
                out.extend_from_slice(&msg[p..r.rdata_end]);
            }
            T_NSEC => {
                let (n, p) = wire::read_name(msg, r.rdata_start).ok()?;
                if p > r.rdata_end {
                    return None;
                }
                emit_name(&n, &mut out);
                out.extend_from_slice(&msg[p..r.rdata_end]);
            }
            _ => out.extend_from_slice(&raw),
        }
        Some(())
    })()
    .is_some();
    Rr {
        owner: r.name.clone(),
        rtype: r.rtype,
        class: r.class,
        ttl: r.ttl,
        rdata: if ok { out } else { raw },
        rdata_ok: ok,
    }
}

fn lower_name_at(rdata: &[u8], pos: usize, out: &mut Vec<u8>) -> Option<usize> {
    // rdata is already expanded: plain labels up to the root octet
    let mut p = pos;
    loop {
        let l = *rdata.get(p)? as usize;
        if l & 0xc0 != 0 {
            return None;
        }
        out.push(l as u8);
        if l == 0 {
            return Some(p + 1);
        }
        let lab = rdata.get(p + 1..p + 1 + l)?;
        out.extend(lab.iter().map(|c| c.to_ascii_lowercase()));
        p += 1 + l;
    }
}

/// Canonical RDATA (RFC 4034 6.2 item 3 as amended by RFC 6840 5.1) of an *expanded* RDATA.
/// `None` if the RDATA of a name-bearing type is malformed.
pub fn canonical_rdata(rtype: u16, rdata: &[u8]) -> Option<Vec<u8>> {
    let mut out = Vec::with_capacity(rdata.len());
    match rtype {
        T_NS | T_CNAME | T_PTR => {
            let p = lower_name_at(rdata, 0, &mut out)?;
            if p != rdata.len() {
                return None;
            }
        }
        T_MX => {
            out.extend_from_slice(rdata.get(0..2)?);
            let p = lower_name_at(rdata, 2, &mut out)?;
            if p != rdata.len() {
                return None;
            }
        }
        T_SOA => {
            let p = lower_name_at(rdata, 0, &mut out)?;
            let p = lower_name_at(rdata, p, &mut out)?;
            out.extend_from_slice(rdata.get(p..)?);
        }
        T_RRSIG => {
            out.extend_from_slice(rdata.get(0..18)?);
            let p = lower_name_at(rdata, 18, &mut out)?;
            out.extend_from_slice(rdata.get(p..)?);
        }
        // SRV: priority, weight, port, target (RFC 4034 6.2 item 3 lists SRV)
        33 => {
            out.extend_from_slice(rdata.get(0..6)?);
            let p = lower_name_at(rdata, 6, &mut out)?;
            if p != rdata.len() {
                return None;
            }
        }
        // NAPTR: order, preference, three character-strings, replacement (on the list)
        35 => {
            let mut p = 4usize;
            for _ in 0..3 {
                let l = *rdata.get(p)? as usize;
                p += 1 + l;
            }
            out.extend_from_slice(rdata.get(0..p)?);
            let e = lower_name_at(rdata, p, &mut out)?;
            if e != rdata.len() {
                return None;
            }
        }
        // NSEC next name keeps its case (RFC 6840 5.1), so do the names of every type that is not
        // on the list of RFC 4034 6.2 item 3 (SVCB / HTTPS TargetName, ANAME, unknown types:
        // RFC 3597 7). Types on the list whose layout is not written down here (the obsolete ones,
        // RP, AFSDB, KX, DNAME ...) are not in the alphabets of the checks that use this module.
        _ => out.extend_from_slice(rdata),
    }
    Some(out)
}

#[derive(Clone, Debug, PartialEq, Eq)]
pub struct Rrsig {
    pub type_covered: u16,
    pub algorithm: u8,
    pub labels: u8,
    pub original_ttl: u32,
    pub expiration: u32,
    pub inception: u32,
    pub key_tag: u16,
    pub signer: Labels,
    pub signature: Vec<u8>,
}

/// Parse an expanded RRSIG RDATA.
pub fn parse_rrsig(rdata: &[u8]) -> Option<Rrsig> {
    if rdata.len() < 19 {
        return None;
    }
    let (signer, p) = wire::read_name(rdata, 18).ok()?;
    Some(Rrsig {
        type_covered: u16::from_be_bytes([rdata[0], rdata[1]]),
        algorithm: rdata[2],
        labels: rdata[3],
        original_ttl: u32::from_be_bytes([rdata[4], rdata[5], rdata[6], rdata[7]]),
        expiration: u32::from_be_bytes([rdata[8], rdata[9], rdata[10], rdata[11]]),
        inception: u32::from_be_bytes([rdata[12], rdata[13], rdata[14], rdata[15]]),
        key_tag: u16::from_be_bytes([rdata[16], rdata[17]]),
        signer,
        signature: rdata[p..].to_vec(),
    })
}

#[derive(Clone, Debug, PartialEq, Eq)]
pub struct Dnskey {
    pub flags: u16,
    pub protocol: u8,
    pub algorithm: u8,
    pub key: Vec<u8>,
}

impl Dnskey {
    pub fn zone(&self) -> bool {
        self.flags & 0x0100 != 0
    }
    pub fn revoked(&self) -> bool {
        self.flags & 0x0080 != 0
    }
}

pub fn parse_dnskey(rdata: &[u8]) -> Option<Dnskey> {
    if rdata.len() < 4 {
        return None;
    }
    Some(Dnskey {
        flags: u16::from_be_bytes([rdata[0], rdata[1]]),
        protocol: rdata[2],
        algorithm: rdata[3],
        key: rdata[4..].to_vec(),
    })
}

/// RFC 4034 appendix B (algorithms other than 1).
pub fn key_tag(dnskey_rdata: &[u8]) -> u16 {
    let mut ac: u32 = 0;
    for (i, b) in dnskey_rdata.iter().enumerate() {
        ac += if i & 1 == 1 { *b as u32 } else { (*b as u32) << 8 };
    }
    ac += (ac >> 16) & 0xffff;
    (ac & 0xffff) as u16
}

/// Number of labels of an owner name as counted by the RRSIG Labels field (RFC 4034 3.1.3):
/// the root label and a leading `*` label are not counted.
pub fn label_count(owner: &Labels) -> usize {
    let n = owner.len();
    if n > 0 && owner[0] == b"*" {
        n - 1
    } else {
        n
    }
}

/// The signed data of RFC 4035 5.3.2: RRSIG_RDATA (signature excluded, signer lower-cased) |
/// RR(1) | RR(2) ... over the distinct canonical RDATAs in canonical order, with the owner
/// replaced by the wildcard form when Labels < label count. `None` when Labels > label count
/// (the RRSIG "MUST NOT be used") — pass `ignore_labels_rule = true` to get the weaker variant.
pub fn signed_data(
    sig: &Rrsig,
    owner: &Labels,
    class: u16,
    rtype: u16,
    canonical_rdatas: &[Vec<u8>],
    ignore_labels_rule: bool,
) -> Option<Vec<u8>> {
    let mut out = vec![];
    out.extend_from_slice(&sig.type_covered.to_be_bytes());
    out.push(sig.algorithm);
    out.push(sig.labels);
    out.extend_from_slice(&sig.original_ttl.to_be_bytes());
    out.extend_from_slice(&sig.expiration.to_be_bytes());
    out.extend_from_slice(&sig.inception.to_be_bytes());
    out.extend_from_slice(&sig.key_tag.to_be_bytes());
    emit_name(&wire::lower(&sig.signer), &mut out);

    let lo = wire::lower(owner);
    let count = label_count(&lo);
    let labels = sig.labels as usize;
    let name: Labels = if labels == count {
        lo
    } else if labels < count {
        let full = lo.len();
        let mut n: Labels = vec![b"*".to_vec()];
        n.extend_from_slice(&lo[full - labels..]);
        n
    } else if ignore_labels_rule {
        lo
    } else {
        return None;
    };
    let mut name_wire = vec![];
    emit_name(&name, &mut name_wire);

    let mut rd: Vec<&Vec<u8>> = canonical_rdatas.iter().collect();
    rd.sort();
    rd.dedup();
    for r in rd {
        out.extend_from_slice(&name_wire);
        out.extend_from_slice(&rtype.to_be_bytes());
        out.extend_from_slice(&class.to_be_bytes());
        out.extend_from_slice(&sig.original_ttl.to_be_bytes());
        out.extend_from_slice(&(r.len() as u16).to_be_bytes());
        out.extend_from_slice(r);
    }
    Some(out)
}

/// RFC 1982 `a <= b` for 32-bit serials. The comparison is undefined when the distance is exactly
/// 2^31; `undefined_is` says how to count that point (an only-if oracle passes `true`).
pub fn serial_le(a: u32, b: u32, undefined_is: bool) -> bool {
    let d = b.wrapping_sub(a);
    if d == 0x8000_0000 {
        undefined_is
    } else {
        d < 0x8000_0000
    }
}

/// Verify `sig` over `data` with the DNSKEY public key field `key` of algorithm `alg`.
/// `None`: algorithm not supported by this reference (the caller must not judge).
pub fn verify(alg: u8, key: &[u8], data: &[u8], sig: &[u8]) -> Option<bool> {
    use ring::signature as s;
    match alg {
        15 => Some(s::UnparsedPublicKey::new(&s::ED25519, key).verify(data, sig).is_ok()),
        13 | 14 => {
            let (a, len): (&'static dyn s::VerificationAlgorithm, usize) = if alg == 13 {
                (&s::ECDSA_P256_SHA256_FIXED, 64)
            } else {
                (&s::ECDSA_P384_SHA384_FIXED, 96)
            };
            if key.len() != len {
                return Some(false);
            }
            let mut k = Vec::with_capacity(len + 1);
            k.push(4u8);
            k.extend_from_slice(key);
            Some(s::UnparsedPublicKey::new(a, &k).verify(data, sig).is_ok())
        }
        5 | 7 | 8 | 10 => {
            // RFC 3110: exponent length (1 or 3 octets), exponent, modulus
            let (elen, off) = match key.first() {
                None => return Some(false),
                Some(0) => {
                    if key.len() < 3 {
                        return Some(false);
                    }
                    (u16::from_be_bytes([key[1], key[2]]) as usize, 3)
                }
                Some(l) => (*l as usize, 1),
            };
            if key.len() < off + elen {
                return Some(false);
            }
            let e = &key[off..off + elen];
            let n = &key[off + elen..];
            let params: &s::RsaParameters = match alg {
                8 => &s::RSA_PKCS1_1024_8192_SHA256_FOR_LEGACY_USE_ONLY,
                10 => &s::RSA_PKCS1_1024_8192_SHA512_FOR_LEGACY_USE_ONLY,
                _ => &s::RSA_PKCS1_1024_8192_SHA1_FOR_LEGACY_USE_ONLY,
            };
            Some(s::RsaPublicKeyComponents { n, e }.verify(params, data, sig).is_ok())
        }
        _ => None,
    }
}
