//! Reference model of domain names, written from the RFC text (no hickory code):
//!
//! * RFC 1035 section 3.1 / 2.3.4: a name is a sequence of labels, each 1..=63 octets, the wire
//!   form (length octet + octets per label, terminated by the zero-length root label) is at most
//!   255 octets; labels are arbitrary octets.
//! * RFC 1035 section 2.3.3 / RFC 4343: comparison is case-insensitive for the ASCII letters
//!   A-Z / a-z and for nothing else.
//! * RFC 4034 section 6.1: canonical order.
//! * RFC 1035 section 5.1: presentation format (only the host-style subset is printed here).

use std::cmp::Ordering;

pub type Labels = Vec<Vec<u8>>;

pub const MAX_LABEL: usize = 63;
pub const MAX_WIRE: usize = 255;

/// A name as the property sees it: labels (leftmost first) plus the "is absolute" flag that
/// hickory keeps next to the labels.
#[derive(Clone, Debug, PartialEq, Eq, Hash)]
pub struct RefName {
    pub labels: Labels,
    pub fqdn: bool,
}

impl RefName {
    pub fn new(labels: Labels, fqdn: bool) -> Self {
        RefName { labels, fqdn }
    }
}

/// RFC 4343: only the 26 ASCII letters have case.
#[inline]
pub fn fold(b: u8) -> u8 {
    if (b'A'..=b'Z').contains(&b) {
        b + 0x20
    } else {
        b
    }
}

pub fn fold_label(l: &[u8]) -> Vec<u8> {
    l.iter().map(|b| fold(*b)).collect()
}

pub fn lower(labels: &Labels) -> Labels {
    labels.iter().map(|l| fold_label(l)).collect()
}

/// Swap the case of every ASCII letter (a "case variant" that is a different octet string iff the
/// name contains a letter).
pub fn swap_case(labels: &Labels) -> Labels {
    labels
        .iter()
        .map(|l| {
            l.iter()
                .map(|&b| {
                    if b.is_ascii_uppercase() {
                        b + 0x20
                    } else if b.is_ascii_lowercase() {
                        b - 0x20
                    } else {
                        b
                    }
                })
                .collect()
        })
        .collect()
}

pub fn label_eq_fold(a: &[u8], b: &[u8]) -> bool {
    a.len() == b.len() && a.iter().zip(b.iter()).all(|(x, y)| fold(*x) == fold(*y))
}

pub fn labels_eq_fold(a: &Labels, b: &Labels) -> bool {
    a.len() == b.len() && a.iter().zip(b.iter()).all(|(x, y)| label_eq_fold(x, y))
}

/// Identity of names: same absolute/relative flag and labels equal under ASCII case folding.
pub fn eq(a: &RefName, b: &RefName) -> bool {
    a.fqdn == b.fqdn && labels_eq_fold(&a.labels, &b.labels)
}

/// One label as a left-justified unsigned octet string, letters folded; "the absence of an octet
/// sorts before a zero value octet" = a proper prefix sorts first.
pub fn label_cmp(a: &[u8], b: &[u8]) -> Ordering {
    let n = a.len().min(b.len());
    for i in 0..n {
        let (x, y) = (fold(a[i]), fold(b[i]));
        if x != y {
            return x.cmp(&y);
        }
    }
    a.len().cmp(&b.len())
}

/// RFC 4034 section 6.1: sort by the most significant (rightmost) label first, then the next
/// one, and so on; a name that runs out of labels first (a proper suffix, e.g. `example` vs
/// `a.example`) sorts first.
pub fn canonical_cmp(a: &Labels, b: &Labels) -> Ordering {
    let mut ia = a.iter().rev();
    let mut ib = b.iter().rev();
    loop {
        match (ia.next(), ib.next()) {
            (None, None) => return Ordering::Equal,
            (None, Some(_)) => return Ordering::Less,
            (Some(_), None) => return Ordering::Greater,
            (Some(x), Some(y)) => match label_cmp(x, y) {
                Ordering::Equal => {}
                o => return o,
            },
        }
    }
}

/// The canonical order without case folding (what a "case sensitive comparison" of two names in
/// canonical order means): labels right to left, each as a left-justified octet string.
pub fn canonical_cmp_case(a: &Labels, b: &Labels) -> Ordering {
    let mut ia = a.iter().rev();
    let mut ib = b.iter().rev();
    loop {
        match (ia.next(), ib.next()) {
            (None, None) => return Ordering::Equal,
            (None, Some(_)) => return Ordering::Less,
            (Some(_), None) => return Ordering::Greater,
            (Some(x), Some(y)) => match x.as_slice().cmp(y.as_slice()) {
                Ordering::Equal => {}
                o => return o,
            },
        }
    }
}

/// `zone` is an ancestor-or-self of `name`: all labels of `zone` are the rightmost labels of
/// `name` (RFC 1034 3.1 subdomain relation), compared with or without ASCII case folding.
pub fn is_suffix(zone: &Labels, name: &Labels, fold_case: bool) -> bool {
    if zone.len() > name.len() {
        return false;
    }
    zone.iter().rev().zip(name.iter().rev()).all(|(z, n)| if fold_case { label_eq_fold(z, n) } else { z == n })
}

/// Length of the uncompressed wire form (RFC 1035 3.1), including the terminating root octet.
pub fn wire_len(labels: &Labels) -> usize {
    labels.iter().map(|l| l.len() + 1).sum::<usize>() + 1
}

#[derive(Clone, Debug, PartialEq, Eq)]
pub enum Invalid {
    EmptyLabel(usize),
    LabelTooLong(usize, usize),
    NameTooLong(usize),
}

/// RFC 1035 2.3.4 size limits.
pub fn validate(labels: &Labels) -> Result<(), Invalid> {
    for (i, l) in labels.iter().enumerate() {
        if l.is_empty() {
            return Err(Invalid::EmptyLabel(i));
        }
        if l.len() > MAX_LABEL {
            return Err(Invalid::LabelTooLong(i, l.len()));
        }
    }
    let w = wire_len(labels);
    if w > MAX_WIRE {
        return Err(Invalid::NameTooLong(w));
    }
    Ok(())
}

/// Uncompressed wire form. The caller is responsible for `validate` (labels > 255 octets cannot
/// be represented at all and are truncated to the length octet modulo 256 — never used for valid
/// names).
pub fn to_wire(labels: &Labels) -> Vec<u8> {
    let mut out = Vec::with_capacity(wire_len(labels));
    for l in labels {
        out.push(l.len() as u8);
        out.extend_from_slice(l);
    }
    out.push(0);
    out
}

/// Decode an uncompressed wire name at `pos`; returns labels and the position after the name.
pub fn from_wire_uncompressed(b: &[u8], pos: usize) -> Option<(Labels, usize)> {
    let mut labels = vec![];
    let mut p = pos;
    loop {
        let l = *b.get(p)? as usize;
        if l == 0 {
            return Some((labels, p + 1));
        }
        if l > MAX_LABEL {
            return None;
        }
        labels.push(b.get(p + 1..p + 1 + l)?.to_vec());
        p += 1 + l;
    }
}

/// Host-style octets of the property statement: letters, digits, hyphen, underscore, dot (printed
/// escaped) — plus `*` which is only allowed as a whole leading label (see `is_host_style`).
pub fn is_host_octet(b: u8) -> bool {
    b.is_ascii_alphanumeric() || b == b'-' || b == b'_' || b == b'.'
}

/// The host-style class judged by the text round trip: 1.. labels (or the root), every label made
/// of host octets, not starting or ending with a hyphen (RFC 952 / RFC 1123 2.1), or the single
/// octet `*` as the leftmost label.
pub fn is_host_style(n: &RefName) -> bool {
    n.labels.iter().enumerate().all(|(i, l)| {
        if l.as_slice() == b"*" {
            return i == 0;
        }
        !l.is_empty()
            && l.iter().all(|b| is_host_octet(*b))
            && l[0] != b'-'
            && l[l.len() - 1] != b'-'
    })
}

/// RFC 1035 section 5.1 presentation of a host-style name: labels separated by dots, a dot inside
/// a label is quoted with a backslash, an absolute name ends with a dot, the root is ".".
/// Returns None outside the host-style class.
pub fn present_host(n: &RefName) -> Option<String> {
    if !is_host_style(n) {
        return None;
    }
    if n.labels.is_empty() {
        return Some(if n.fqdn { ".".to_string() } else { String::new() });
    }
    let mut s = String::new();
    for (i, l) in n.labels.iter().enumerate() {
        if i > 0 {
            s.push('.');
        }
        for &c in l {
            if c == b'.' {
                s.push('\\');
            }
            s.push(c as char);
        }
    }
    if n.fqdn {
        s.push('.');
    }
    Some(s)
}

/// Generic RFC 1035 5.1 presentation for arbitrary octets (`\.` `\\` and `\DDD` decimal); used
/// only for human-readable witnesses.
pub fn present_any(n: &RefName) -> String {
    if n.labels.is_empty() {
        return if n.fqdn { ".".into() } else { "".into() };
    }
    let mut s = String::new();
    for (i, l) in n.labels.iter().enumerate() {
        if i > 0 {
            s.push('.');
        }
        for &c in l {
            if c == b'.' || c == b'\\' {
                s.push('\\');
                s.push(c as char);
            } else if c.is_ascii_graphic() {
                s.push(c as char);
            } else {
                s.push_str(&format!("\\{:03}", c));
            }
        }
    }
    if n.fqdn {
        s.push('.');
    }
    s
}

#[cfg(test)]
mod tests {
    use super::*;

    fn n(s: &[&[u8]]) -> Labels {
        s.iter().map(|l| l.to_vec()).collect()
    }

    /// The example list of RFC 4034 section 6.1 is in strictly ascending order.
    #[test]
    fn rfc4034_example() {
        let list = vec![
            n(&[b"example"]),
            n(&[b"a", b"example"]),
            n(&[b"yljkjljk", b"a", b"example"]),
            n(&[b"Z", b"a", b"example"]),
            n(&[b"zABC", b"a", b"EXAMPLE"]),
            n(&[b"z", b"example"]),
            n(&[b"\x01", b"z", b"example"]),
            n(&[b"*", b"z", b"example"]),
            n(&[b"\xc8", b"z", b"example"]),
        ];
        for i in 0..list.len() {
            for j in 0..list.len() {
                assert_eq!(canonical_cmp(&list[i], &list[j]), i.cmp(&j), "{i} {j}");
            }
        }
    }

    #[test]
    fn limits() {
        assert!(validate(&n(&[&[b'a'; 63], &[b'a'; 63], &[b'a'; 63], &[b'a'; 61]])).is_ok());
        assert!(validate(&n(&[&[b'a'; 63], &[b'a'; 63], &[b'a'; 63], &[b'a'; 62]])).is_err());
        assert!(validate(&n(&[&[b'a'; 64]])).is_err());
        assert_eq!(wire_len(&vec![]), 1);
    }

    #[test]
    fn presentation() {
        let x = RefName::new(n(&[b"*", b"a.b", b"Z-0_"]), true);
        assert_eq!(present_host(&x).unwrap(), "*.a\\.b.Z-0_.");
        assert!(present_host(&RefName::new(n(&[b"-a"]), true)).is_none());
        assert!(present_host(&RefName::new(n(&[b"a", b"*"]), true)).is_none());
    }
}
