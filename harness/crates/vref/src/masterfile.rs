//! vref::masterfile — an independent RFC 1035 section 5 master-file *printer*.
//!
//! records + layout vector -> zone-file text. Written from RFC 1035 §5.1 and RFC 2308 §4 ($TTL);
//! shares no code with hickory. The printer is incremental (`Printer::emit_record` appends one
//! entry and tracks the denotational state: current origin, $TTL default, last explicit TTL, last
//! explicit class, last stated owner), so that an enumerator can walk the layout space depth
//! first. A layout that would not denote the record under RFC 1035 §5 (e.g. "TTL omitted" when
//! the value in force differs) is *illegal*: `check_record` returns false and nothing is printed.
//!
//! Syntax used (nothing else): absolute and origin-relative names, `@`, a blank owner field,
//! `$ORIGIN <absolute name>`, `$TTL <decimal>`, decimal TTLs, class mnemonics, `[TTL] [class]` in
//! both orders, space/tab runs, `;` comments, blank lines, one pair of parentheses around the
//! tail of the RDATA, quoted character strings with `\"` and `\\`, unquoted character strings made
//! of plain characters only, `\.` inside labels, LF or CRLF line ends, optional final newline.
//! No `\DDD` escapes, no escapes in unquoted strings, no multi-line quoted strings.

pub type Labels = Vec<Vec<u8>>;

#[derive(Clone, Debug, PartialEq, Eq)]
pub enum Field {
    /// decimal integer
    Int(u64),
    /// absolute domain name (root = no labels)
    Name(Labels),
    /// <character-string>
    Str(Vec<u8>),
    /// opaque token printed verbatim (addresses, hex, base64, mnemonics, key=value)
    Lit(String),
}

#[derive(Clone, Debug)]
pub struct Rec {
    pub owner: Labels,
    pub ttl: u32,
    pub class: &'static str,
    pub rtype: &'static str,
    pub rdata: Vec<Field>,
}

// ------------------------------------------------------------------------------------------
// layout dimensions (value 0 is always the plainest choice)

pub const D_ORIGIN: usize = 0;
pub const D_BLANK: usize = 1;
pub const D_OWNER: usize = 2;
pub const D_TTL: usize = 3;
pub const D_CLASS: usize = 4;
pub const D_ORDER: usize = 5;
pub const D_SEP: usize = 6;
pub const D_COMMENT: usize = 7;
pub const D_PARENS: usize = 8;
pub const D_STRINGS: usize = 9;
pub const D_RDNAMES: usize = 10;
pub const NDIMS: usize = 11;

/// Per-record layout dimensions: (name, value names).
pub const DIMS: [(&str, &[&str]); NDIMS] = [
    ("origin", &["none", "same", "alt0", "alt1"]), // $ORIGIN entry before the record
    ("blank", &["none", "empty", "ws"]),           // blank line before the record
    ("owner", &["abs", "rel", "at", "inherit"]),
    ("ttl", &["explicit", "omitted", "directive"]), // directive = own `$TTL n` entry, TTL omitted
    ("class", &["explicit", "omitted"]),
    ("order", &["ttl-class", "class-ttl"]),
    ("sep", &["space", "tab", "runs"]),
    ("comment", &["none", "eol", "own-line", "in-parens"]),
    ("parens", &["none", "one-line", "two-lines", "three-lines"]),
    ("strings", &["quoted", "unquoted"]),
    ("rdnames", &["abs", "rel", "at"]),
];

pub const G_EOL: usize = 0;
pub const G_FINAL: usize = 1;
pub const G_TTLTOP: usize = 2;
pub const NGDIMS: usize = 3;

/// File-level layout dimensions.
pub const GDIMS: [(&str, &[&str]); NGDIMS] = [
    ("eol", &["lf", "crlf"]),
    ("final-newline", &["present", "absent"]),
    // `$TTL` as the first entry: none / the TTL of the last record / an unrelated value
    ("ttl-top", &["none", "last-record", "unrelated"]),
];

pub type RecLayout = [u8; NDIMS];
pub type GlobalLayout = [u8; NGDIMS];

pub const UNRELATED_TTL: u32 = 7777;

pub const F_INHERIT_OWNER: u32 = 1;
pub const F_INHERIT_TTL: u32 = 2;
pub const F_INHERIT_CLASS: u32 = 4;
pub const F_CONTINUATION: u32 = 8;
pub const F_ESCAPE: u32 = 16;
pub const F_RELATIVE: u32 = 32;

/// Comment body: everything after `;` up to the end of the line is ignored (RFC 1035 §5.1), so it
/// may contain any of the characters that are special elsewhere.
pub const COMMENT: &str = "; note ( \" ) @ $TTL 9 \\ ;; x.";

fn eq_name(a: &Labels, b: &Labels) -> bool {
    a.len() == b.len() && a.iter().zip(b.iter()).all(|(x, y)| x.eq_ignore_ascii_case(y))
}

/// Is `name` strictly below `origin`?
fn below(name: &Labels, origin: &Labels) -> bool {
    name.len() > origin.len()
        && name[name.len() - origin.len()..]
            .iter()
            .zip(origin.iter())
            .all(|(x, y)| x.eq_ignore_ascii_case(y))
}

fn push_label(out: &mut String, label: &[u8], esc: &mut bool) {
    for &b in label {
        match b {
            b'.' | b'\\' => {
                out.push('\\');
                out.push(b as char);
                *esc = true;
            }
            _ => out.push(b as char),
        }
    }
}

pub fn name_abs(name: &Labels, esc: &mut bool) -> String {
    let mut s = String::new();
    if name.is_empty() {
        return ".".into();
    }
    for l in name {
        push_label(&mut s, l, esc);
        s.push('.');
    }
    s
}

fn name_rel(name: &Labels, origin: &Labels, esc: &mut bool) -> String {
    let mut s = String::new();
    let k = name.len() - origin.len();
    for (i, l) in name[..k].iter().enumerate() {
        if i > 0 {
            s.push('.');
        }
        push_label(&mut s, l, esc);
    }
    s
}

/// May this character string be written without quotes? Only strings made of characters that
/// have no special meaning anywhere in RFC 1035 §5.1.
pub fn unquotable(s: &[u8]) -> bool {
    !s.is_empty()
        && s.iter().all(|b| b.is_ascii_alphanumeric() || matches!(b, b'-' | b'.' | b'_' | b'/' | b'+' | b'=' | b':' | b','))
}

fn quoted(s: &[u8], esc: &mut bool) -> String {
    let mut out = String::with_capacity(s.len() + 2);
    out.push('"');
    for &b in s {
        if b == b'"' || b == b'\\' {
            out.push('\\');
            *esc = true;
        }
        out.push(b as char);
    }
    out.push('"');
    out
}

#[derive(Clone)]
pub struct Printer<'a> {
    pub text: String,
    nl: &'static str,
    pub origin: Labels,
    origin_arg: Labels,
    alts: &'a [Labels],
    /// a `$ORIGIN` naming something else than the origin argument has been printed
    pub origin_changed: bool,
    ttl_default: Option<u32>,
    ttl_last: Option<u32>,
    class_last: Option<&'static str>,
    last_owner: Option<Labels>,
    pub features: u32,
    pub records: usize,
}

impl<'a> Printer<'a> {
    /// `ttl_top`: value of a `$TTL` entry printed first (None = no such entry).
    pub fn new(origin_arg: &Labels, alts: &'a [Labels], crlf: bool, ttl_top: Option<u32>) -> Self {
        let mut p = Printer {
            text: String::with_capacity(256),
            nl: if crlf { "\r\n" } else { "\n" },
            origin: origin_arg.clone(),
            origin_arg: origin_arg.clone(),
            alts,
            origin_changed: false,
            ttl_default: None,
            ttl_last: None,
            class_last: None,
            last_owner: None,
            features: 0,
            records: 0,
        };
        if let Some(t) = ttl_top {
            p.text.push_str(&format!("$TTL {t}{}", p.nl));
            p.ttl_default = Some(t);
        }
        p
    }

    fn origin_after(&self, lay: &RecLayout) -> Option<Labels> {
        match lay[D_ORIGIN] {
            0 | 1 => Some(self.origin.clone()),
            k => {
                let alt = self.alts.get(k as usize - 2)?;
                if eq_name(alt, &self.origin) {
                    None // would duplicate "same"
                } else {
                    Some(alt.clone())
                }
            }
        }
    }

    /// Does this layout denote `rec` in the current state (RFC 1035 §5.1, RFC 2308 §4)?
    pub fn check_record(&self, rec: &Rec, lay: &RecLayout) -> bool {
        let Some(origin) = self.origin_after(lay) else { return false };
        match lay[D_OWNER] {
            0 => {}
            1 => {
                if !below(&rec.owner, &origin) {
                    return false;
                }
            }
            2 => {
                if !eq_name(&rec.owner, &origin) {
                    return false;
                }
            }
            3 => match &self.last_owner {
                Some(o) if eq_name(o, &rec.owner) => {}
                _ => return false,
            },
            _ => return false,
        }
        match lay[D_TTL] {
            0 | 2 => {}
            1 => {
                // RFC 2308 §4: $TTL default if one is in force, else (RFC 1035) the last stated TTL
                if self.ttl_default.or(self.ttl_last) != Some(rec.ttl) {
                    return false;
                }
            }
            _ => return false,
        }
        match lay[D_CLASS] {
            0 => {}
            1 => {
                let ok = match self.class_last {
                    Some(c) => c == rec.class,
                    None => rec.class == "IN", // assumption: a loader's default class is IN
                };
                if !ok {
                    return false;
                }
            }
            _ => return false,
        }
        if lay[D_ORDER] == 1 && !(lay[D_TTL] == 0 && lay[D_CLASS] == 0) {
            return false;
        }
        if lay[D_ORDER] > 1 || lay[D_SEP] > 2 || lay[D_BLANK] > 2 || lay[D_PARENS] > 3 {
            return false;
        }
        match lay[D_COMMENT] {
            0..=2 => {}
            3 => {
                if lay[D_PARENS] < 2 {
                    return false;
                }
            }
            _ => return false,
        }
        match lay[D_STRINGS] {
            0 => {}
            1 => {
                if !rec.rdata.iter().any(|f| matches!(f, Field::Str(s) if unquotable(s))) {
                    return false;
                }
            }
            _ => return false,
        }
        match lay[D_RDNAMES] {
            0 => {}
            1 => {
                if !rec.rdata.iter().any(|f| matches!(f, Field::Name(n) if below(n, &origin))) {
                    return false;
                }
            }
            2 => {
                if !rec.rdata.iter().any(|f| matches!(f, Field::Name(n) if eq_name(n, &origin))) {
                    return false;
                }
            }
            _ => return false,
        }
        true
    }

    /// Append the entry for `rec` under `lay`. Call only after `check_record` returned true.
    pub fn emit_record(&mut self, rec: &Rec, lay: &RecLayout) {
        let nl = self.nl;
        let mut esc = false;
        let sep: &str = match lay[D_SEP] {
            0 => " ",
            1 => "\t",
            _ => "  \t ",
        };
        let trail: &str = if lay[D_SEP] == 2 { "  " } else { "" };

        // $ORIGIN entry
        let origin = self.origin_after(lay).expect("checked");
        if lay[D_ORIGIN] != 0 {
            self.text.push_str("$ORIGIN");
            self.text.push_str(sep);
            self.text.push_str(&name_abs(&origin, &mut esc));
            self.text.push_str(trail);
            self.text.push_str(nl);
            if !eq_name(&origin, &self.origin_arg) {
                self.origin_changed = true;
            }
            self.origin = origin.clone();
        }
        // $TTL entry
        if lay[D_TTL] == 2 {
            self.text.push_str("$TTL");
            self.text.push_str(sep);
            self.text.push_str(&rec.ttl.to_string());
            self.text.push_str(trail);
            self.text.push_str(nl);
            self.ttl_default = Some(rec.ttl);
        }
        // blank line
        match lay[D_BLANK] {
            1 => self.text.push_str(nl),
            2 => {
                self.text.push_str("  \t");
                self.text.push_str(nl);
            }
            _ => {}
        }
        // comment on its own line
        if lay[D_COMMENT] == 2 {
            self.text.push_str(COMMENT);
            self.text.push_str(nl);
        }

        // owner field
        match lay[D_OWNER] {
            0 => self.text.push_str(&name_abs(&rec.owner, &mut esc)),
            1 => {
                self.text.push_str(&name_rel(&rec.owner, &origin, &mut esc));
                self.features |= F_RELATIVE;
            }
            2 => {
                self.text.push('@');
                self.features |= F_RELATIVE;
            }
            _ => {
                self.features |= F_INHERIT_OWNER;
                // the separator below provides the leading blank
            }
        }
        self.last_owner = Some(rec.owner.clone());

        // [TTL] [class] | [class] [TTL]
        let ttl_txt = if lay[D_TTL] == 0 {
            self.ttl_last = Some(rec.ttl);
            Some(rec.ttl.to_string())
        } else {
            self.features |= F_INHERIT_TTL;
            None
        };
        let class_txt = if lay[D_CLASS] == 0 {
            self.class_last = Some(rec.class);
            Some(rec.class.to_string())
        } else {
            self.features |= F_INHERIT_CLASS;
            None
        };
        let (first, second) = if lay[D_ORDER] == 1 { (class_txt, ttl_txt) } else { (ttl_txt, class_txt) };
        for f in [first, second].into_iter().flatten() {
            self.text.push_str(sep);
            self.text.push_str(&f);
        }
        self.text.push_str(sep);
        self.text.push_str(rec.rtype);

        // RDATA tokens
        let mut toks: Vec<String> = Vec::with_capacity(rec.rdata.len());
        for f in &rec.rdata {
            toks.push(match f {
                Field::Int(v) => v.to_string(),
                Field::Lit(s) => s.clone(),
                Field::Str(s) => {
                    if lay[D_STRINGS] == 1 && unquotable(s) {
                        String::from_utf8(s.clone()).expect("ascii")
                    } else {
                        quoted(s, &mut esc)
                    }
                }
                Field::Name(n) => match lay[D_RDNAMES] {
                    1 if below(n, &origin) => {
                        self.features |= F_RELATIVE;
                        name_rel(n, &origin, &mut esc)
                    }
                    2 if eq_name(n, &origin) => {
                        self.features |= F_RELATIVE;
                        "@".to_string()
                    }
                    _ => name_abs(n, &mut esc),
                },
            });
        }
        let n = toks.len();
        let in_comment = lay[D_COMMENT] == 3;
        match lay[D_PARENS] {
            0 => {
                for t in &toks {
                    self.text.push_str(sep);
                    self.text.push_str(t);
                }
            }
            1 => {
                // ( all RDATA ) on the record's line, parentheses tight against the tokens
                self.text.push_str(sep);
                self.text.push('(');
                for (i, t) in toks.iter().enumerate() {
                    if i > 0 {
                        self.text.push_str(sep);
                    }
                    self.text.push_str(t);
                }
                self.text.push(')');
            }
            2 => {
                // head ( tail-part-1 <newline> tail-part-2 )
                self.features |= F_CONTINUATION;
                let t0 = n / 2;
                let m = t0 + (n - t0 + 1) / 2;
                for t in &toks[..t0] {
                    self.text.push_str(sep);
                    self.text.push_str(t);
                }
                self.text.push_str(sep);
                self.text.push('(');
                for t in &toks[t0..m] {
                    self.text.push_str(sep);
                    self.text.push_str(t);
                }
                if in_comment {
                    self.text.push_str(sep);
                    self.text.push_str(COMMENT);
                }
                self.text.push_str(trail);
                self.text.push_str(nl);
                self.text.push_str("        ");
                for t in &toks[m..] {
                    self.text.push_str(t);
                    self.text.push_str(sep);
                }
                self.text.push(')');
            }
            _ => {
                // ( <newline> all RDATA at column 0 <newline> )
                self.features |= F_CONTINUATION;
                self.text.push_str(sep);
                self.text.push('(');
                if in_comment {
                    self.text.push_str(sep);
                    self.text.push_str(COMMENT);
                }
                self.text.push_str(nl);
                for (i, t) in toks.iter().enumerate() {
                    if i > 0 {
                        self.text.push_str(sep);
                    }
                    self.text.push_str(t);
                }
                if in_comment {
                    // directly after the last token, no white space in between
                    self.text.push_str(COMMENT);
                }
                self.text.push_str(nl);
                self.text.push(')');
            }
        }
        if lay[D_COMMENT] == 1 {
            // tab style: the comment starts right after the last token
            if lay[D_SEP] != 1 {
                self.text.push_str(sep);
            }
            self.text.push_str(COMMENT);
        }
        self.text.push_str(trail);
        self.text.push_str(nl);
        if esc {
            self.features |= F_ESCAPE;
        }
        self.records += 1;
    }

    /// Append a `$ORIGIN <absolute name>` entry on its own (outside `emit_record`).
    pub fn emit_origin_line(&mut self, origin: &Labels) {
        let mut esc = false;
        self.text.push_str("$ORIGIN ");
        self.text.push_str(&name_abs(origin, &mut esc));
        self.text.push_str(self.nl);
        if !eq_name(origin, &self.origin_arg) {
            self.origin_changed = true;
        }
        self.origin = origin.clone();
    }

    /// Append a `$TTL <n>` entry on its own.
    pub fn emit_ttl_line(&mut self, ttl: u32) {
        self.text.push_str(&format!("$TTL {ttl}{}", self.nl));
        self.ttl_default = Some(ttl);
    }

    /// Append a line that denotes nothing: 0 empty, 1 white space only, 2 comment at column 0,
    /// 3 indented comment.
    pub fn emit_void_line(&mut self, kind: u8) {
        match kind {
            0 => {}
            1 => self.text.push_str(" \t "),
            2 => self.text.push_str(COMMENT),
            _ => {
                self.text.push_str("\t ");
                self.text.push_str(COMMENT);
            }
        }
        self.text.push_str(self.nl);
    }

    /// The finished text; `final_newline=false` removes the last line terminator.
    pub fn finish(&self, final_newline: bool) -> String {
        let mut t = self.text.clone();
        if !final_newline && t.ends_with(self.nl) {
            t.truncate(t.len() - self.nl.len());
        }
        t
    }
}

/// Print a whole file; None if some record's layout is illegal in its position.
pub struct Printed {
    pub text: String,
    pub final_origin: Labels,
    pub origin_changed: bool,
    pub features: u32,
}

pub fn ttl_top_value(g: &GlobalLayout, recs: &[&Rec]) -> Option<u32> {
    match g[G_TTLTOP] {
        0 => None,
        1 => recs.last().map(|r| r.ttl),
        _ => Some(UNRELATED_TTL),
    }
}

pub fn print_file(origin: &Labels, alts: &[Labels], recs: &[&Rec], g: &GlobalLayout, lays: &[RecLayout]) -> Option<Printed> {
    if recs.len() != lays.len() || g[G_EOL] > 1 || g[G_FINAL] > 1 || g[G_TTLTOP] > 2 {
        return None;
    }
    let mut p = Printer::new(origin, alts, g[G_EOL] == 1, ttl_top_value(g, recs));
    for (r, l) in recs.iter().zip(lays.iter()) {
        if !p.check_record(r, l) {
            return None;
        }
        p.emit_record(r, l);
    }
    Some(Printed {
        text: p.finish(g[G_FINAL] == 0),
        final_origin: p.origin.clone(),
        origin_changed: p.origin_changed,
        features: p.features,
    })
}

#[cfg(test)]
mod tests {
    use super::*;
    fn n(s: &[&str]) -> Labels {
        s.iter().map(|x| x.as_bytes().to_vec()).collect()
    }
    #[test]
    fn prints_rfc_style() {
        let o = n(&["ex", "test"]);
        let r = Rec { owner: n(&["a", "ex", "test"]), ttl: 300, class: "IN", rtype: "MX", rdata: vec![Field::Int(10), Field::Name(n(&["m.x", "ex", "test"]))] };
        let p = print_file(&o, &[], &[&r], &[0, 0, 0], &[[0; NDIMS]]).unwrap();
        assert_eq!(p.text, "a.ex.test. 300 IN MX 10 m\\.x.ex.test.\n");
        let mut lay = [0u8; NDIMS];
        lay[D_OWNER] = 1;
        lay[D_RDNAMES] = 1;
        lay[D_PARENS] = 1;
        let p = print_file(&o, &[], &[&r], &[0, 1, 0], &[lay]).unwrap();
        assert_eq!(p.text, "a 300 IN MX (10 m\\.x)");
    }
}

/// The RDATA of `rec` as plain tokens: integers in decimal, absolute names, every character
/// string quoted (with `\"` and `\\`), literals verbatim.
pub fn plain_tokens(rec: &Rec) -> Vec<String> {
    let mut esc = false;
    rec.rdata
        .iter()
        .map(|f| match f {
            Field::Int(v) => v.to_string(),
            Field::Lit(s) => s.clone(),
            Field::Str(s) => quoted(s, &mut esc),
            Field::Name(n) => name_abs(n, &mut esc),
        })
        .collect()
}

/// `<owner> <ttl> <class> <type>` with an absolute owner, single spaces, no line end.
pub fn plain_head(rec: &Rec) -> String {
    let mut esc = false;
    format!("{} {} {} {}", name_abs(&rec.owner, &mut esc), rec.ttl, rec.class, rec.rtype)
}
