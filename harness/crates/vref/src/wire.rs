//! Independent DNS wire walker (RFC 1035 section 4.1): header, questions, resource records,
//! names with compression pointers. Used as the "no bytes left over / counts equal records
//! present" oracle and as the raw-RDATA locator.

pub type Labels = Vec<Vec<u8>>;

#[derive(Debug, Clone, PartialEq, Eq)]
pub enum WireErr {
    Short(usize),
    BadLabel(usize, u8),
    PointerLoop(usize),
    PointerForward(usize),
    NameTooLong(usize),
    RdataOverrun(usize),
}

#[derive(Debug, Clone, PartialEq, Eq)]
pub struct Header {
    pub id: u16,
    pub flags: u16,
    pub qd: u16,
    pub an: u16,
    pub ns: u16,
    pub ar: u16,
}

impl Header {
    pub fn qr(&self) -> bool {
        self.flags & 0x8000 != 0
    }
    pub fn opcode(&self) -> u8 {
        ((self.flags >> 11) & 0xf) as u8
    }
    pub fn aa(&self) -> bool {
        self.flags & 0x0400 != 0
    }
    pub fn tc(&self) -> bool {
        self.flags & 0x0200 != 0
    }
    pub fn rd(&self) -> bool {
        self.flags & 0x0100 != 0
    }
    pub fn ra(&self) -> bool {
        self.flags & 0x0080 != 0
    }
    pub fn ad(&self) -> bool {
        self.flags & 0x0020 != 0
    }
    pub fn cd(&self) -> bool {
        self.flags & 0x0010 != 0
    }
    pub fn rcode_low(&self) -> u8 {
        (self.flags & 0xf) as u8
    }
}

#[derive(Debug, Clone, PartialEq, Eq)]
pub struct Question {
    pub name: Labels,
    pub qtype: u16,
    pub qclass: u16,
    /// byte range of the question in the message
    pub start: usize,
    pub end: usize,
}

#[derive(Debug, Clone, PartialEq, Eq)]
pub struct RawRecord {
    pub name: Labels,
    pub rtype: u16,
    pub class: u16,
    pub ttl: u32,
    pub rdata_start: usize,
    pub rdata_end: usize,
    pub start: usize,
    pub end: usize,
}

#[derive(Debug, Clone, PartialEq, Eq)]
pub struct Walk {
    pub header: Header,
    pub questions: Vec<Question>,
    pub answers: Vec<RawRecord>,
    pub authorities: Vec<RawRecord>,
    pub additionals: Vec<RawRecord>,
    /// number of bytes consumed by header + sections
    pub consumed: usize,
}

fn u16_at(b: &[u8], p: usize) -> Result<u16, WireErr> {
    if p + 2 > b.len() {
        return Err(WireErr::Short(p));
    }
    Ok(u16::from_be_bytes([b[p], b[p + 1]]))
}

fn u32_at(b: &[u8], p: usize) -> Result<u32, WireErr> {
    if p + 4 > b.len() {
        return Err(WireErr::Short(p));
    }
    Ok(u32::from_be_bytes([b[p], b[p + 1], b[p + 2], b[p + 3]]))
}

/// Read a possibly compressed name starting at `pos`; returns the labels (case preserved) and
/// the position after the name *in the original stream* (i.e. after the first pointer, if any).
/// Pointers must point strictly backwards (RFC 1035 "prior occurrence").
pub fn read_name(b: &[u8], pos: usize) -> Result<(Labels, usize), WireErr> {
    let mut labels = vec![];
    let mut p = pos;
    let mut after: Option<usize> = None;
    let mut hops = 0usize;
    let mut total = 1usize; // root octet
    let mut limit = pos; // a pointer must point before this
    loop {
        let Some(&l) = b.get(p) else {
            return Err(WireErr::Short(p));
        };
        match l & 0xc0 {
            0x00 => {
                if l == 0 {
                    p += 1;
                    break;
                }
                let l = l as usize;
                if p + 1 + l > b.len() {
                    return Err(WireErr::Short(p));
                }
                total += l + 1;
                if total > 255 {
                    return Err(WireErr::NameTooLong(pos));
                }
                labels.push(b[p + 1..p + 1 + l].to_vec());
                p += 1 + l;
            }
            0xc0 => {
                let off = (u16_at(b, p)? & 0x3fff) as usize;
                if after.is_none() {
                    after = Some(p + 2);
                }
                if off >= limit {
                    return Err(WireErr::PointerForward(p));
                }
                hops += 1;
                if hops > 16384 {
                    return Err(WireErr::PointerLoop(p));
                }
                limit = off;
                p = off;
            }
            _ => return Err(WireErr::BadLabel(p, l)),
        }
    }
    Ok((labels, after.unwrap_or(p)))
}

pub fn read_header(b: &[u8]) -> Result<Header, WireErr> {
    if b.len() < 12 {
        return Err(WireErr::Short(b.len()));
    }
    Ok(Header {
        id: u16_at(b, 0)?,
        flags: u16_at(b, 2)?,
        qd: u16_at(b, 4)?,
        an: u16_at(b, 6)?,
        ns: u16_at(b, 8)?,
        ar: u16_at(b, 10)?,
    })
}

pub fn read_question(b: &[u8], pos: usize) -> Result<Question, WireErr> {
    let (name, p) = read_name(b, pos)?;
    let qtype = u16_at(b, p)?;
    let qclass = u16_at(b, p + 2)?;
    Ok(Question {
        name,
        qtype,
        qclass,
        start: pos,
        end: p + 4,
    })
}

pub fn read_record(b: &[u8], pos: usize) -> Result<RawRecord, WireErr> {
    let (name, p) = read_name(b, pos)?;
    let rtype = u16_at(b, p)?;
    let class = u16_at(b, p + 2)?;
    let ttl = u32_at(b, p + 4)?;
    let rdlen = u16_at(b, p + 8)? as usize;
    let rs = p + 10;
    if rs + rdlen > b.len() {
        return Err(WireErr::RdataOverrun(pos));
    }
    Ok(RawRecord {
        name,
        rtype,
        class,
        ttl,
        rdata_start: rs,
        rdata_end: rs + rdlen,
        start: pos,
        end: rs + rdlen,
    })
}

/// Walk a whole message according to its header counts.
pub fn walk(b: &[u8]) -> Result<Walk, WireErr> {
    let header = read_header(b)?;
    let mut p = 12;
    let mut questions = vec![];
    for _ in 0..header.qd {
        let q = read_question(b, p)?;
        p = q.end;
        questions.push(q);
    }
    let mut secs: [Vec<RawRecord>; 3] = [vec![], vec![], vec![]];
    for (i, n) in [header.an, header.ns, header.ar].into_iter().enumerate() {
        for _ in 0..n {
            let r = read_record(b, p)?;
            p = r.end;
            secs[i].push(r);
        }
    }
    let [answers, authorities, additionals] = secs;
    Ok(Walk {
        header,
        questions,
        answers,
        authorities,
        additionals,
        consumed: p,
    })
}

/// Encode a name without compression.
pub fn emit_name(labels: &Labels, out: &mut Vec<u8>) {
    for l in labels {
        out.push(l.len() as u8);
        out.extend_from_slice(l);
    }
    out.push(0);
}

pub fn lower(labels: &Labels) -> Labels {
    labels.iter().map(|l| l.to_ascii_lowercase()).collect()
}

pub fn name_to_string(labels: &Labels) -> String {
    if labels.is_empty() {
        return ".".into();
    }
    let mut s = String::new();
    for l in labels {
        for &c in l {
            if c == b'.' || c == b'\\' {
                s.push('\\');
                s.push(c as char);
            } else if c.is_ascii_graphic() {
                s.push(c as char);
            } else {
                s.push_str(&format!("\\{:03}", c));
            }
        }
        s.push('.');
    }
    s
}
