//! Reference TSIG verifier, written from RFC 8945 (sections 4.2, 4.3, 5.1-5.3). No hickory code:
//! the message is read with the independent wire walker, the digest input of section 4.3.3 is
//! rebuilt from the RAW bytes, and the HMAC is computed with `ring` directly.
//!
//! A message is accepted only if
//!  * it parses completely and nothing follows its last record,
//!  * its last record is a TSIG RR that sits in the additional section and is the only TSIG RR,
//!  * the TSIG names a configured key and that key's algorithm (names compared case-insensitively),
//!  * the MAC has the algorithm's FULL output length and equals
//!      HMAC(key, [request MAC, length-prefixed, for responses] | DNS message with the original ID
//!      restored and ARCOUNT decremented, up to the TSIG RR | TSIG variables: key name (canonical:
//!      uncompressed, lower case), CLASS, TTL, algorithm name (canonical), time signed, fudge,
//!      error, other len, other data),
//!  * |now - time signed| <= fudge in exact integer arithmetic.

use crate::wire::{self, Labels, RawRecord, Walk};
use ring::hmac;

pub const T_TSIG: u16 = 250;

#[derive(Clone, Copy, Debug, PartialEq, Eq, Hash)]
pub enum Alg {
    Sha256,
    Sha384,
    Sha512,
}

impl Alg {
    pub fn name(self) -> &'static str {
        match self {
            Alg::Sha256 => "hmac-sha256.",
            Alg::Sha384 => "hmac-sha384.",
            Alg::Sha512 => "hmac-sha512.",
        }
    }
    pub fn labels(self) -> Labels {
        labels_of(self.name())
    }
    pub fn output_len(self) -> usize {
        match self {
            Alg::Sha256 => 32,
            Alg::Sha384 => 48,
            Alg::Sha512 => 64,
        }
    }
    fn ring(self) -> hmac::Algorithm {
        match self {
            Alg::Sha256 => hmac::HMAC_SHA256,
            Alg::Sha384 => hmac::HMAC_SHA384,
            Alg::Sha512 => hmac::HMAC_SHA512,
        }
    }
}

pub fn labels_of(s: &str) -> Labels {
    s.split('.').filter(|l| !l.is_empty()).map(|l| l.to_ascii_lowercase().into_bytes()).collect()
}

#[derive(Clone, Debug, PartialEq, Eq, Hash)]
pub struct Key {
    /// lower-cased key name
    pub name: Labels,
    pub alg: Alg,
    pub secret: Vec<u8>,
}

impl Key {
    pub fn new(name: &str, alg: Alg, secret: &[u8]) -> Key {
        Key { name: labels_of(name), alg, secret: secret.to_vec() }
    }
    pub fn mac(&self, data: &[u8]) -> Vec<u8> {
        let k = hmac::Key::new(self.alg.ring(), &self.secret);
        hmac::sign(&k, data).as_ref().to_vec()
    }
}

/// The fields of a TSIG RR as found on the wire.
#[derive(Clone, Debug, PartialEq, Eq)]
pub struct TsigRr {
    /// key name, case as on the wire
    pub name: Labels,
    pub class: u16,
    pub ttl: u32,
    /// algorithm name, case as on the wire
    pub alg_name: Labels,
    /// 48-bit time signed
    pub time: u64,
    pub fudge: u16,
    pub mac: Vec<u8>,
    pub orig_id: u16,
    pub error: u16,
    pub other: Vec<u8>,
}

impl TsigRr {
    /// Wire form of the RR (uncompressed names).
    pub fn encode(&self) -> Vec<u8> {
        let mut rd = vec![];
        wire::emit_name(&self.alg_name, &mut rd);
        rd.extend_from_slice(&((self.time >> 32) as u16).to_be_bytes());
        rd.extend_from_slice(&(self.time as u32).to_be_bytes());
        rd.extend_from_slice(&self.fudge.to_be_bytes());
        rd.extend_from_slice(&(self.mac.len() as u16).to_be_bytes());
        rd.extend_from_slice(&self.mac);
        rd.extend_from_slice(&self.orig_id.to_be_bytes());
        rd.extend_from_slice(&self.error.to_be_bytes());
        rd.extend_from_slice(&(self.other.len() as u16).to_be_bytes());
        rd.extend_from_slice(&self.other);
        let mut v = vec![];
        wire::emit_name(&self.name, &mut v);
        v.extend_from_slice(&T_TSIG.to_be_bytes());
        v.extend_from_slice(&self.class.to_be_bytes());
        v.extend_from_slice(&self.ttl.to_be_bytes());
        v.extend_from_slice(&(rd.len() as u16).to_be_bytes());
        v.extend_from_slice(&rd);
        v
    }

    /// The "TSIG variables" of RFC 8945 4.3.3.
    pub fn variables(&self) -> Vec<u8> {
        let mut v = vec![];
        wire::emit_name(&wire::lower(&self.name), &mut v);
        v.extend_from_slice(&self.class.to_be_bytes());
        v.extend_from_slice(&self.ttl.to_be_bytes());
        wire::emit_name(&wire::lower(&self.alg_name), &mut v);
        v.extend_from_slice(&((self.time >> 32) as u16).to_be_bytes());
        v.extend_from_slice(&(self.time as u32).to_be_bytes());
        v.extend_from_slice(&self.fudge.to_be_bytes());
        v.extend_from_slice(&self.error.to_be_bytes());
        v.extend_from_slice(&(self.other.len() as u16).to_be_bytes());
        v.extend_from_slice(&self.other);
        v
    }
}

#[derive(Clone, Debug, PartialEq, Eq)]
pub enum Reject {
    /// the bytes are not one complete DNS message (or something follows the last record)
    Malformed(String),
    /// no TSIG RR as the last record of the additional section
    NoTrailingTsig,
    /// a TSIG RR somewhere else than at the end of the additional section, or a second one
    MisplacedTsig,
    /// the TSIG RDATA does not parse
    BadTsigRdata,
    /// key name not configured, or algorithm not the key's
    BadKey,
    /// MAC shorter or longer than the algorithm's output
    MacLength(usize),
    BadSig,
    /// |now - time signed| > fudge
    BadTime,
}

/// A message split at its trailing TSIG RR.
#[derive(Clone, Debug)]
pub struct Signed {
    pub walk: Walk,
    pub tsig: TsigRr,
    /// offset of the TSIG RR in the message
    pub tsig_start: usize,
}

fn parse_tsig_rdata(msg: &[u8], r: &RawRecord) -> Option<TsigRr> {
    let (alg_name, mut p) = wire::read_name(msg, r.rdata_start).ok()?;
    let end = r.rdata_end;
    let need = |p: usize, n: usize| if p + n <= end { Some(()) } else { None };
    need(p, 10)?;
    let time = ((u16::from_be_bytes([msg[p], msg[p + 1]]) as u64) << 32) | u32::from_be_bytes([msg[p + 2], msg[p + 3], msg[p + 4], msg[p + 5]]) as u64;
    let fudge = u16::from_be_bytes([msg[p + 6], msg[p + 7]]);
    let mac_len = u16::from_be_bytes([msg[p + 8], msg[p + 9]]) as usize;
    p += 10;
    need(p, mac_len + 6)?;
    let mac = msg[p..p + mac_len].to_vec();
    p += mac_len;
    let orig_id = u16::from_be_bytes([msg[p], msg[p + 1]]);
    let error = u16::from_be_bytes([msg[p + 2], msg[p + 3]]);
    let other_len = u16::from_be_bytes([msg[p + 4], msg[p + 5]]) as usize;
    p += 6;
    if p + other_len != end {
        return None;
    }
    let other = msg[p..end].to_vec();
    Some(TsigRr { name: r.name.clone(), class: r.class, ttl: r.ttl, alg_name, time, fudge, mac, orig_id, error, other })
}

/// Split a message at its trailing TSIG RR (RFC 8945 5.1 placement rules).
pub fn split(msg: &[u8]) -> Result<Signed, Reject> {
    let walk = wire::walk(msg).map_err(|e| Reject::Malformed(format!("{e:?}")))?;
    if walk.consumed != msg.len() {
        return Err(Reject::Malformed("bytes after the last record".into()));
    }
    let misplaced = walk.answers.iter().chain(walk.authorities.iter()).any(|r| r.rtype == T_TSIG);
    let n_add_tsig = walk.additionals.iter().filter(|r| r.rtype == T_TSIG).count();
    let last_is_tsig = walk.additionals.last().map(|r| r.rtype == T_TSIG).unwrap_or(false);
    if misplaced || n_add_tsig > 1 || (n_add_tsig == 1 && !last_is_tsig) {
        return Err(Reject::MisplacedTsig);
    }
    if !last_is_tsig {
        return Err(Reject::NoTrailingTsig);
    }
    let r = walk.additionals.last().unwrap().clone();
    let tsig = parse_tsig_rdata(msg, &r).ok_or(Reject::BadTsigRdata)?;
    Ok(Signed { walk, tsig, tsig_start: r.start })
}

/// RFC 8945 4.3.3 digest input, rebuilt from the raw bytes.
pub fn digest_input(msg: &[u8], s: &Signed, request_mac: Option<&[u8]>) -> Vec<u8> {
    let mut d = vec![];
    if let Some(m) = request_mac {
        d.extend_from_slice(&(m.len() as u16).to_be_bytes());
        d.extend_from_slice(m);
    }
    // the DNS message as on the wire, with the original ID and without the TSIG RR
    let mut header = msg[..12].to_vec();
    header[0..2].copy_from_slice(&s.tsig.orig_id.to_be_bytes());
    let ar = u16::from_be_bytes([header[10], header[11]]).wrapping_sub(1);
    header[10..12].copy_from_slice(&ar.to_be_bytes());
    d.extend_from_slice(&header);
    d.extend_from_slice(&msg[12..s.tsig_start]);
    d.extend_from_slice(&s.tsig.variables());
    d
}

fn eq_ci(a: &Labels, b: &Labels) -> bool {
    wire::lower(a) == wire::lower(b)
}

fn verify_with(msg: &[u8], keys: &[Key], now: u64, request_mac: Option<&[u8]>) -> Result<usize, Reject> {
    let s = split(msg)?;
    let (ki, key) = keys
        .iter()
        .enumerate()
        .find(|(_, k)| eq_ci(&k.name, &s.tsig.name) && eq_ci(&k.alg.labels(), &s.tsig.alg_name))
        .ok_or(Reject::BadKey)?;
    if s.tsig.mac.len() != key.alg.output_len() {
        return Err(Reject::MacLength(s.tsig.mac.len()));
    }
    let want = key.mac(&digest_input(msg, &s, request_mac));
    if want != s.tsig.mac {
        return Err(Reject::BadSig);
    }
    let (t, n, f) = (s.tsig.time as i128, now as i128, s.tsig.fudge as i128);
    if (n - t).abs() > f {
        return Err(Reject::BadTime);
    }
    Ok(ki)
}

/// Verify a request; `Ok(i)` = accepted under `keys[i]`.
pub fn verify_request(msg: &[u8], keys: &[Key], now: u64) -> Result<usize, Reject> {
    verify_with(msg, keys, now, None)
}

/// Verify the (first, only) response to a request whose TSIG MAC was `request_mac`.
pub fn verify_response(msg: &[u8], key: &Key, now: u64, request_mac: &[u8]) -> Result<(), Reject> {
    verify_with(msg, std::slice::from_ref(key), now, Some(request_mac)).map(|_| ())
}

/// The message without its trailing TSIG RR (ARCOUNT decremented).
pub fn strip(msg: &[u8], s: &Signed) -> Vec<u8> {
    let mut v = msg[..s.tsig_start].to_vec();
    let ar = u16::from_be_bytes([v[10], v[11]]).wrapping_sub(1);
    v[10..12].copy_from_slice(&ar.to_be_bytes());
    v
}

/// Append a TSIG RR to an unsigned message (ARCOUNT incremented).
pub fn attach(unsigned: &[u8], rr: &TsigRr) -> Vec<u8> {
    let mut v = unsigned.to_vec();
    let ar = u16::from_be_bytes([v[10], v[11]]).wrapping_add(1);
    v[10..12].copy_from_slice(&ar.to_be_bytes());
    v.extend_from_slice(&rr.encode());
    v
}

/// Sign an unsigned message the RFC 8945 way (used to build "MAC recomputed" mutants).
pub fn sign(unsigned: &[u8], key: &Key, key_name_on_wire: &Labels, time: u64, fudge: u16, request_mac: Option<&[u8]>) -> Vec<u8> {
    let id = u16::from_be_bytes([unsigned[0], unsigned[1]]);
    let mut rr = TsigRr { name: key_name_on_wire.clone(), class: 255, ttl: 0, alg_name: key.alg.labels(), time, fudge, mac: vec![], orig_id: id, error: 0, other: vec![] };
    let mut d = vec![];
    if let Some(m) = request_mac {
        d.extend_from_slice(&(m.len() as u16).to_be_bytes());
        d.extend_from_slice(m);
    }
    d.extend_from_slice(unsigned);
    d.extend_from_slice(&rr.variables());
    rr.mac = key.mac(&d);
    attach(unsigned, &rr)
}

/// Sign an unsigned message with EVERY TSIG variable taken from `shape` (key name as spelled
/// there, CLASS, TTL, algorithm name, time, fudge, original id, error, other data; its `mac` is
/// ignored). RFC 8945 4.3.3: the digest covers [prior MAC, length-prefixed] | the message with the
/// ORIGINAL id in its header | the TSIG variables - or, for the second and later messages of a
/// multi-message response (5.3.1, `timers_only`), | time signed | fudge only. The message on the
/// wire keeps its own header id.
pub fn sign_shaped(unsigned: &[u8], key: &Key, shape: &TsigRr, prior_mac: Option<&[u8]>, timers_only: bool) -> Vec<u8> {
    let mut rr = shape.clone();
    rr.mac = key.mac(&shaped_digest_input(unsigned, &rr, prior_mac, timers_only));
    attach(unsigned, &rr)
}

/// The digest input `sign_shaped` uses (exposed for the independent-MAC differential).
pub fn shaped_digest_input(unsigned: &[u8], shape: &TsigRr, prior_mac: Option<&[u8]>, timers_only: bool) -> Vec<u8> {
    let mut d = vec![];
    if let Some(m) = prior_mac {
        d.extend_from_slice(&(m.len() as u16).to_be_bytes());
        d.extend_from_slice(m);
    }
    d.extend_from_slice(&shape.orig_id.to_be_bytes());
    d.extend_from_slice(&unsigned[2..]);
    if timers_only {
        d.extend_from_slice(&((shape.time >> 32) as u16).to_be_bytes());
        d.extend_from_slice(&(shape.time as u32).to_be_bytes());
        d.extend_from_slice(&shape.fudge.to_be_bytes());
    } else {
        d.extend_from_slice(&shape.variables());
    }
    d
}

/// Verify the second or a later message of a multi-message response (RFC 8945 5.3.1): digest =
/// prior MAC (length-prefixed) | message | time signed | fudge.
pub fn verify_subsequent(msg: &[u8], key: &Key, now: u64, prior_mac: &[u8]) -> Result<(), Reject> {
    let s = split(msg)?;
    if !(eq_ci(&key.name, &s.tsig.name) && eq_ci(&key.alg.labels(), &s.tsig.alg_name)) {
        return Err(Reject::BadKey);
    }
    if s.tsig.mac.len() != key.alg.output_len() {
        return Err(Reject::MacLength(s.tsig.mac.len()));
    }
    let unsigned = strip(msg, &s);
    if key.mac(&shaped_digest_input(&unsigned, &s.tsig, Some(prior_mac), true)) != s.tsig.mac {
        return Err(Reject::BadSig);
    }
    let (t, n, f) = (s.tsig.time as i128, now as i128, s.tsig.fudge as i128);
    if (n - t).abs() > f {
        return Err(Reject::BadTime);
    }
    Ok(())
}

#[cfg(test)]
mod tests {
    use super::*;

    #[test]
    fn sign_then_verify() {
        // header: id 7, opcode update, 1 zone entry
        let mut m = vec![0, 7, 0x28, 0, 0, 1, 0, 0, 0, 0, 0, 0];
        m.extend_from_slice(&[1, b'z', 0, 0, 6, 0, 1]);
        let k = Key::new("k1.", Alg::Sha256, b"secret");
        let s = sign(&m, &k, &labels_of("K1."), 1000, 300, None);
        assert_eq!(verify_request(&s, &[k.clone()], 1300), Ok(0));
        assert_eq!(verify_request(&s, &[k.clone()], 1301), Err(Reject::BadTime));
        let mut t = s.clone();
        t[3] ^= 1;
        assert_eq!(verify_request(&t, &[k.clone()], 1000), Err(Reject::BadSig));
        let mut u = s.clone();
        u.push(0);
        assert!(matches!(verify_request(&u, &[k.clone()], 1000), Err(Reject::Malformed(_))));
        // every variable at a non-default value; original id differs from the header id
        let shape = TsigRr { name: labels_of("K1."), class: 255, ttl: 0, alg_name: k.alg.labels(), time: 1000, fudge: 7, mac: vec![], orig_id: 0x4242, error: 18, other: vec![1, 2, 3, 4, 5, 6] };
        let x = sign_shaped(&m, &k, &shape, None, false);
        assert_eq!(verify_request(&x, &[k.clone()], 1003), Ok(0));
        let mut y = x.clone();
        let n = y.len();
        y[n - 1] ^= 1; // last octet of the other data
        assert_eq!(verify_request(&y, &[k.clone()], 1003), Err(Reject::BadSig));
        let z = sign_shaped(&m, &k, &shape, Some(&[9; 32]), true);
        assert_eq!(verify_subsequent(&z, &k, 1003, &[9; 32]), Ok(()));
        assert_eq!(verify_subsequent(&z, &k, 1003, &[8; 32]), Err(Reject::BadSig));
    }
}
