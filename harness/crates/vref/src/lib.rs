//! vref: reference models written from the RFC text. Nothing in here uses hickory code.
pub mod wire;
pub mod name;
pub mod update;
pub mod cache;
pub mod frame;
pub mod sigref;
pub mod masterfile;
pub mod zone;
pub mod canon;
pub mod denial;
pub mod tsig;
