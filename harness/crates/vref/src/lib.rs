//! vref: reference models written from the RFC text. Nothing in here uses hickory code.
pub mod wire;
