//! Reference model of the DNSSEC signed data of an RRset, written from the RFC text (no hickory
//! code):
//!
//! * RFC 4034 section 6.2 — canonical RR form: names fully expanded (never compressed), owner
//!   lower-cased, names inside the RDATA lower-cased for the types of item 3 **as amended by
//!   RFC 6840 section 5.1** (NSEC is *not* lower-cased, RRSIG is; HINFO contains no name),
//!   wildcard owner unexpanded, TTL = original TTL.
//! * RFC 4034 section 6.3 — RRs of an RRset are sorted by their canonical RDATA as left-justified
//!   unsigned octet strings (absence of an octet sorts before a zero octet); duplicates removed.
//! * RFC 4035 section 5.3.2 — signed_data = RRSIG_RDATA (without signature, signer name in
//!   canonical form) | RR(1) | RR(2) ..., RR(i) = name | type | class | OrigTTL | RDATA length |
//!   RDATA, with `name` derived from the RRSIG Labels field.
//!
//! RDATA is modelled generically as a sequence of opaque octet runs and embedded domain names, so
//! that the model needs no per-type encoder: the *caller* writes down each test value's field
//! list from the type's RFC wire layout.

pub type Labels = Vec<Vec<u8>>;

#[derive(Clone, Debug, PartialEq, Eq, Hash)]
pub enum Field {
    Bytes(Vec<u8>),
    Name(Labels),
}

pub type Rdata = Vec<Field>;

fn fold(b: u8) -> u8 {
    if b.is_ascii_uppercase() {
        b + 0x20
    } else {
        b
    }
}

pub fn lower(labels: &Labels) -> Labels {
    labels.iter().map(|l| l.iter().map(|b| fold(*b)).collect()).collect()
}

pub fn name_wire(labels: &Labels, out: &mut Vec<u8>) {
    for l in labels {
        out.push(l.len() as u8);
        out.extend_from_slice(l);
    }
    out.push(0);
}

/// RFC 4034 6.2 item 3 with RFC 6840 5.1 applied: NS, MD, MF, CNAME, SOA, MB, MG, MR, PTR, MINFO,
/// MX, RP, AFSDB, RT, SIG, PX, NXT, NAPTR, KX, SRV, DNAME, A6, RRSIG. Not NSEC (47). HINFO (13)
/// has no names, so its membership is immaterial.
pub fn lowercases_rdata_names(rtype: u16) -> bool {
    matches!(
        rtype,
        2 | 3 | 4 | 5 | 6 | 7 | 8 | 9 | 12 | 14 | 15 | 17 | 18 | 21 | 24 | 26 | 30 | 33 | 35 | 36 | 38 | 39 | 46
    )
}

/// The RDATA as it appears on the wire without compression and with the case as given.
pub fn rdata_plain(fields: &Rdata) -> Vec<u8> {
    let mut out = vec![];
    for f in fields {
        match f {
            Field::Bytes(b) => out.extend_from_slice(b),
            Field::Name(n) => name_wire(n, &mut out),
        }
    }
    out
}

/// RFC 4034 6.2 canonical RDATA for the given type.
pub fn rdata_canonical(rtype: u16, fields: &Rdata) -> Vec<u8> {
    let lc = lowercases_rdata_names(rtype);
    let mut out = vec![];
    for f in fields {
        match f {
            Field::Bytes(b) => out.extend_from_slice(b),
            Field::Name(n) => {
                if lc {
                    name_wire(&lower(n), &mut out)
                } else {
                    name_wire(n, &mut out)
                }
            }
        }
    }
    out
}

#[derive(Clone, Debug, PartialEq, Eq)]
pub struct SigParams {
    pub type_covered: u16,
    pub algorithm: u8,
    pub labels: u8,
    pub original_ttl: u32,
    pub expiration: u32,
    pub inception: u32,
    pub key_tag: u16,
    pub signer: Labels,
}

/// RRSIG RDATA without the signature field, signer name in canonical form (RFC 4034 3.1,
/// RFC 4035 5.3.2, RFC 6840 5.1).
pub fn sig_rdata_prefix(p: &SigParams) -> Vec<u8> {
    let mut out = vec![];
    out.extend_from_slice(&p.type_covered.to_be_bytes());
    out.push(p.algorithm);
    out.push(p.labels);
    out.extend_from_slice(&p.original_ttl.to_be_bytes());
    out.extend_from_slice(&p.expiration.to_be_bytes());
    out.extend_from_slice(&p.inception.to_be_bytes());
    out.extend_from_slice(&p.key_tag.to_be_bytes());
    name_wire(&lower(&p.signer), &mut out);
    out
}

#[derive(Clone, Debug, PartialEq, Eq)]
pub enum CanonErr {
    /// rrsig_labels > fqdn_labels: the RRSIG MUST NOT be used for this RRset.
    LabelsExceedOwner,
    /// The owner's leftmost label is `*` and the Labels field equals the number of labels counting
    /// that `*`. RFC 4034 3.1.3 says Labels never counts the wildcard label (so such an RRSIG is
    /// malformed), RFC 4035 5.3.2 read literally accepts it; the property statement does not
    /// settle it, so the caller must not judge this case.
    WildcardCountAmbiguous,
}

/// RFC 4035 5.3.2 "To calculate the name". `owner` = the RRset's owner name (labels, leftmost
/// first). Returns the labels of `name` in canonical (lower-case) form.
pub fn signed_owner(owner: &Labels, rrsig_labels: u8) -> Result<Labels, CanonErr> {
    let fqdn = lower(owner);
    let fqdn_labels = fqdn.len();
    let rl = rrsig_labels as usize;
    if rl > fqdn_labels {
        return Err(CanonErr::LabelsExceedOwner);
    }
    if rl == fqdn_labels {
        if fqdn.first().map(|l| l.as_slice() == b"*").unwrap_or(false) {
            return Err(CanonErr::WildcardCountAmbiguous);
        }
        return Ok(fqdn);
    }
    // rrsig_labels < fqdn_labels: "*." | the rightmost rrsig_label labels of the fqdn
    let mut name = vec![b"*".to_vec()];
    name.extend(fqdn[fqdn_labels - rl..].iter().cloned());
    Ok(name)
}

/// RFC 4034 6.3: canonical RDATAs of the distinct RRs in ascending order. `[u8]`'s `Ord` is the
/// lexicographic order in which a proper prefix sorts first, i.e. "left-justified unsigned octet
/// sequence in which the absence of an octet sorts before a zero octet".
pub fn canonical_rdatas(rtype: u16, rrs: &[Rdata]) -> Vec<Vec<u8>> {
    let mut v: Vec<Vec<u8>> = rrs.iter().map(|r| rdata_canonical(rtype, r)).collect();
    v.sort();
    v.dedup();
    v
}

/// One RR(i) of the signed data.
pub fn rr_chunk(name: &Labels, rtype: u16, class: u16, original_ttl: u32, rdata: &[u8]) -> Vec<u8> {
    let mut out = vec![];
    name_wire(name, &mut out);
    out.extend_from_slice(&rtype.to_be_bytes());
    out.extend_from_slice(&class.to_be_bytes());
    out.extend_from_slice(&original_ttl.to_be_bytes());
    out.extend_from_slice(&(rdata.len() as u16).to_be_bytes());
    out.extend_from_slice(rdata);
    out
}

/// The complete signed data of RFC 4035 5.3.2 for the RRset (`owner`, `class`, `p.type_covered`).
pub fn signed_data(owner: &Labels, class: u16, p: &SigParams, rrs: &[Rdata]) -> Result<Vec<u8>, CanonErr> {
    let name = signed_owner(owner, p.labels)?;
    let mut out = sig_rdata_prefix(p);
    for rd in canonical_rdatas(p.type_covered, rrs) {
        out.extend_from_slice(&rr_chunk(&name, p.type_covered, class, p.original_ttl, &rd));
    }
    Ok(out)
}

/// A parsed RR(i) of some signed data (used to explain a deviation).
#[derive(Clone, Debug, PartialEq, Eq, Hash)]
pub struct Chunk {
    pub name: Labels,
    pub rtype: u16,
    pub class: u16,
    pub ttl: u32,
    pub rdata: Vec<u8>,
}

/// Split the part of a signed-data string after the RRSIG RDATA prefix into RR chunks. None if
/// the bytes do not have that structure (compressed or truncated name, overrun, ...).
pub fn parse_chunks(b: &[u8]) -> Option<Vec<Chunk>> {
    let mut out = vec![];
    let mut p = 0usize;
    while p < b.len() {
        let mut name = vec![];
        loop {
            let l = *b.get(p)? as usize;
            p += 1;
            if l == 0 {
                break;
            }
            if l > 63 {
                return None;
            }
            name.push(b.get(p..p + l)?.to_vec());
            p += l;
        }
        let h = b.get(p..p + 10)?;
        let rtype = u16::from_be_bytes([h[0], h[1]]);
        let class = u16::from_be_bytes([h[2], h[3]]);
        let ttl = u32::from_be_bytes([h[4], h[5], h[6], h[7]]);
        let rdlen = u16::from_be_bytes([h[8], h[9]]) as usize;
        p += 10;
        let rdata = b.get(p..p + rdlen)?.to_vec();
        p += rdlen;
        out.push(Chunk { name, rtype, class, ttl, rdata });
    }
    Some(out)
}

/// RFC 4034 4.1.2 type bit maps: window blocks in ascending order, each
/// window number | bitmap length (1..32) | bitmap, trailing zero octets omitted.
pub fn type_bitmap(types: &[u16]) -> Vec<u8> {
    let mut t: Vec<u16> = types.to_vec();
    t.sort();
    t.dedup();
    let mut out = vec![];
    let mut i = 0;
    while i < t.len() {
        let win = (t[i] >> 8) as u8;
        let mut bits = [0u8; 32];
        let mut maxo = 0usize;
        while i < t.len() && (t[i] >> 8) as u8 == win {
            let low = (t[i] & 0xff) as usize;
            bits[low / 8] |= 0x80 >> (low % 8);
            maxo = maxo.max(low / 8);
            i += 1;
        }
        out.push(win);
        out.push((maxo + 1) as u8);
        out.extend_from_slice(&bits[..=maxo]);
    }
    out
}

#[cfg(test)]
mod tests {
    use super::*;

    fn n(s: &str) -> Labels {
        s.split('.').filter(|x| !x.is_empty()).map(|x| x.as_bytes().to_vec()).collect()
    }

    #[test]
    fn owner_rule() {
        assert_eq!(signed_owner(&n("A.z"), 2), Ok(n("a.z")));
        assert_eq!(signed_owner(&n("x.y.z"), 1), Ok(n("*.z")));
        assert_eq!(signed_owner(&n("z"), 0), Ok(n("*")));
        assert_eq!(signed_owner(&n("z"), 2), Err(CanonErr::LabelsExceedOwner));
        assert_eq!(signed_owner(&n("*.z"), 1), Ok(n("*.z")));
        assert_eq!(signed_owner(&n("*.z"), 2), Err(CanonErr::WildcardCountAmbiguous));
        assert_eq!(signed_owner(&vec![], 0), Ok(vec![]));
    }

    #[test]
    fn order_dedup_case() {
        let rrs = vec![vec![Field::Name(n("B.z"))], vec![Field::Name(n("a.z"))], vec![Field::Name(n("b.z"))]];
        let c = canonical_rdatas(2, &rrs);
        assert_eq!(c, vec![b"\x01a\x01z\x00".to_vec(), b"\x01b\x01z\x00".to_vec()]);
        // NSEC next name keeps its case (RFC 6840 5.1)
        let c = canonical_rdatas(47, &[vec![Field::Name(n("B.z")), Field::Bytes(type_bitmap(&[1, 46, 47]))]]);
        assert_eq!(c[0], b"\x01B\x01z\x00\x00\x06\x40\x00\x00\x00\x00\x03".to_vec());
    }

    /// RFC 4034 4.3 example: A MX RRSIG NSEC TYPE1234
    #[test]
    fn bitmap_example() {
        let b = type_bitmap(&[1, 15, 46, 47, 1234]);
        let mut want = vec![0x00, 0x06, 0x40, 0x01, 0x00, 0x00, 0x00, 0x03, 0x04, 0x1b];
        want.extend_from_slice(&[0u8; 26]);
        want.push(0x20);
        assert_eq!(b, want);
    }
}
